// Universe: the public combinators over placeholder sub-rules for EQUIV (implementation vs documented expansion).
// Generated layout: one ODR-use per rule type and rewind mode; counts 0..4 as the property quantifies.
#include "vu.hpp"

#include <tao/pegtl/contrib/if_then.hpp>
#include <tao/pegtl/contrib/separated_seq.hpp>

namespace vu
{
   // if_then chains written out as a user would write them; what each chain means (nested if_then_else in the order written) is stated in
   // sa/equiv.py CHAIN_SPECS - the internal type the aliases produce is NOT the reference (an alias that files a pair at the wrong place would be its own oracle)
   struct chain3 : tao::pegtl::if_then< P1, P2 >::else_if_then< P3, P4 >::else_if_then< P5, P6 > {};
   struct chain3e : tao::pegtl::if_then< P1, P2 >::else_if_then< P3, P4 >::else_if_then< P5, P6 >::else_then< P< 7 > > {};
   struct chain2e : tao::pegtl::if_then< P1, P2 >::else_if_then< P3, P4 >::else_then< P5 > {};
   struct chain4 : tao::pegtl::if_then< P1, P2 >::else_if_then< P3, P4 >::else_if_then< P5, P6 >::else_if_then< P< 7 >, P< 8 > > {};

   template< typename R >
   bool e2( In& in )
   {
      bool r = use< R, apply_mode::action, rewind_mode::required >( in );
      return use< R, apply_mode::action, rewind_mode::optional >( in ) && r;
   }

   inline bool all_equiv( In& in )
   {
      bool r = true;
#if VU_PART == 1
      r = e2< tao::pegtl::seq< P1 > >( in ) && r;
      r = e2< tao::pegtl::sor< P1 > >( in ) && r;
      r = e2< tao::pegtl::seq< P1, P2 > >( in ) && r;
      r = e2< tao::pegtl::sor< P1, P2 > >( in ) && r;
      r = e2< tao::pegtl::seq< P1, P2, P3 > >( in ) && r;
      r = e2< tao::pegtl::sor< P1, P2, P3 > >( in ) && r;
      r = e2< tao::pegtl::star< P1 > >( in ) && r;
      r = e2< tao::pegtl::plus< P1 > >( in ) && r;
      r = e2< tao::pegtl::opt< P1 > >( in ) && r;
      r = e2< tao::pegtl::at< P1 > >( in ) && r;
      r = e2< tao::pegtl::not_at< P1 > >( in ) && r;
      r = e2< tao::pegtl::partial< P1 > >( in ) && r;
      r = e2< tao::pegtl::star_partial< P1 > >( in ) && r;
      r = e2< tao::pegtl::strict< P1 > >( in ) && r;
      r = e2< tao::pegtl::star_strict< P1 > >( in ) && r;
      r = e2< tao::pegtl::must< P1 > >( in ) && r;
      r = e2< tao::pegtl::star< P1, P2 > >( in ) && r;
      r = e2< tao::pegtl::plus< P1, P2 > >( in ) && r;
      r = e2< tao::pegtl::opt< P1, P2 > >( in ) && r;
      r = e2< tao::pegtl::at< P1, P2 > >( in ) && r;
      r = e2< tao::pegtl::not_at< P1, P2 > >( in ) && r;
      r = e2< tao::pegtl::partial< P1, P2 > >( in ) && r;
      r = e2< tao::pegtl::star_partial< P1, P2 > >( in ) && r;
      r = e2< tao::pegtl::strict< P1, P2 > >( in ) && r;
      r = e2< tao::pegtl::star_strict< P1, P2 > >( in ) && r;
      r = e2< tao::pegtl::must< P1, P2 > >( in ) && r;
      r = e2< tao::pegtl::partial< P1, P2, P3 > >( in ) && r;
      r = e2< tao::pegtl::strict< P1, P2, P3 > >( in ) && r;
      r = e2< tao::pegtl::star_partial< P1, P2, P3 > >( in ) && r;
      r = e2< tao::pegtl::must< P1, P2, P3 > >( in ) && r;
#endif
#if VU_PART == 2
      r = e2< tao::pegtl::if_must< P1, P2 > >( in ) && r;
      r = e2< tao::pegtl::if_must< P1, P2, P3 > >( in ) && r;
      r = e2< tao::pegtl::if_must_else< P1, P2, P3 > >( in ) && r;
      r = e2< tao::pegtl::if_then_else< P1, P2, P3 > >( in ) && r;
      r = e2< tao::pegtl::list< P1, P2 > >( in ) && r;
      r = e2< tao::pegtl::list< P1, P2, P3 > >( in ) && r;
      r = e2< tao::pegtl::list_must< P1, P2 > >( in ) && r;
      r = e2< tao::pegtl::list_must< P1, P2, P3 > >( in ) && r;
      r = e2< tao::pegtl::list_tail< P1, P2 > >( in ) && r;
      r = e2< tao::pegtl::list_tail< P1, P2, P3 > >( in ) && r;
      r = e2< tao::pegtl::minus< P1, P2 > >( in ) && r;
      r = e2< tao::pegtl::opt_must< P1, P2 > >( in ) && r;
      r = e2< tao::pegtl::opt_must< P1, P2, P3 > >( in ) && r;
      r = e2< tao::pegtl::pad< P1, P2 > >( in ) && r;
      r = e2< tao::pegtl::pad< P1, P2, P3 > >( in ) && r;
      r = e2< tao::pegtl::pad_opt< P1, P2 > >( in ) && r;
      r = e2< tao::pegtl::rematch< P1 > >( in ) && r;
      r = e2< tao::pegtl::rematch< P1, P2 > >( in ) && r;
      r = e2< tao::pegtl::rematch< P1, P2, P3 > >( in ) && r;
      r = e2< tao::pegtl::star_must< P1, P2 > >( in ) && r;
      r = e2< tao::pegtl::star_must< P1, P2, P3 > >( in ) && r;
      r = e2< tao::pegtl::until< P1 > >( in ) && r;
      r = e2< tao::pegtl::until< P1, P2 > >( in ) && r;
      r = e2< tao::pegtl::until< P1, P2, P3 > >( in ) && r;
      r = e2< tao::pegtl::separated_seq< P1, P2, P3 > >( in ) && r;
      r = e2< tao::pegtl::separated_seq< P1, P2, P3, P4 > >( in ) && r;
#endif
#if VU_PART == 3
      r = e2< tao::pegtl::rep< 0, P1 > >( in ) && r;
      r = e2< tao::pegtl::rep_min< 0, P1 > >( in ) && r;
      r = e2< tao::pegtl::rep_max< 0, P1 > >( in ) && r;
      r = e2< tao::pegtl::rep_opt< 0, P1, P2 > >( in ) && r;
      r = e2< tao::pegtl::rep< 0, P1, P2 > >( in ) && r;
      r = e2< tao::pegtl::rep_min< 0, P1, P2 > >( in ) && r;
      r = e2< tao::pegtl::rep_max< 0, P1, P2 > >( in ) && r;
      r = e2< tao::pegtl::rep_opt< 1, P1 > >( in ) && r;
      r = e2< tao::pegtl::rep< 1, P1 > >( in ) && r;
      r = e2< tao::pegtl::rep_min< 1, P1 > >( in ) && r;
      r = e2< tao::pegtl::rep_max< 1, P1 > >( in ) && r;
      r = e2< tao::pegtl::rep_opt< 1, P1, P2 > >( in ) && r;
      r = e2< tao::pegtl::rep< 1, P1, P2 > >( in ) && r;
      r = e2< tao::pegtl::rep_min< 1, P1, P2 > >( in ) && r;
      r = e2< tao::pegtl::rep_max< 1, P1, P2 > >( in ) && r;
      r = e2< tao::pegtl::rep_opt< 2, P1 > >( in ) && r;
      r = e2< tao::pegtl::rep< 2, P1 > >( in ) && r;
      r = e2< tao::pegtl::rep_min< 2, P1 > >( in ) && r;
      r = e2< tao::pegtl::rep_max< 2, P1 > >( in ) && r;
      r = e2< tao::pegtl::rep_opt< 2, P1, P2 > >( in ) && r;
      r = e2< tao::pegtl::rep< 2, P1, P2 > >( in ) && r;
      r = e2< tao::pegtl::rep_min< 2, P1, P2 > >( in ) && r;
      r = e2< tao::pegtl::rep_max< 2, P1, P2 > >( in ) && r;
      r = e2< tao::pegtl::rep_opt< 3, P1 > >( in ) && r;
      r = e2< tao::pegtl::rep< 3, P1 > >( in ) && r;
      r = e2< tao::pegtl::rep_min< 3, P1 > >( in ) && r;
      r = e2< tao::pegtl::rep_max< 3, P1 > >( in ) && r;
      r = e2< tao::pegtl::rep_opt< 3, P1, P2 > >( in ) && r;
      r = e2< tao::pegtl::rep< 3, P1, P2 > >( in ) && r;
      r = e2< tao::pegtl::rep_min< 3, P1, P2 > >( in ) && r;
      r = e2< tao::pegtl::rep_max< 3, P1, P2 > >( in ) && r;
      r = e2< tao::pegtl::rep_opt< 4, P1 > >( in ) && r;
      r = e2< tao::pegtl::rep< 4, P1 > >( in ) && r;
      r = e2< tao::pegtl::rep_min< 4, P1 > >( in ) && r;
      r = e2< tao::pegtl::rep_max< 4, P1 > >( in ) && r;
      r = e2< tao::pegtl::rep_opt< 4, P1, P2 > >( in ) && r;
      r = e2< tao::pegtl::rep< 4, P1, P2 > >( in ) && r;
      r = e2< tao::pegtl::rep_min< 4, P1, P2 > >( in ) && r;
      r = e2< tao::pegtl::rep_max< 4, P1, P2 > >( in ) && r;
#endif
#if VU_PART == 4
      r = e2< tao::pegtl::rep_min_max< 0, 0, P1 > >( in ) && r;
      r = e2< tao::pegtl::rep_min_max< 0, 0, P1, P2 > >( in ) && r;
      r = e2< tao::pegtl::rep_min_max< 0, 1, P1 > >( in ) && r;
      r = e2< tao::pegtl::rep_min_max< 0, 1, P1, P2 > >( in ) && r;
      r = e2< tao::pegtl::rep_min_max< 0, 2, P1 > >( in ) && r;
      r = e2< tao::pegtl::rep_min_max< 0, 2, P1, P2 > >( in ) && r;
      r = e2< tao::pegtl::rep_min_max< 0, 3, P1 > >( in ) && r;
      r = e2< tao::pegtl::rep_min_max< 0, 3, P1, P2 > >( in ) && r;
      r = e2< tao::pegtl::rep_min_max< 0, 4, P1 > >( in ) && r;
      r = e2< tao::pegtl::rep_min_max< 0, 4, P1, P2 > >( in ) && r;
      r = e2< tao::pegtl::rep_min_max< 1, 1, P1 > >( in ) && r;
      r = e2< tao::pegtl::rep_min_max< 1, 1, P1, P2 > >( in ) && r;
      r = e2< tao::pegtl::rep_min_max< 1, 2, P1 > >( in ) && r;
      r = e2< tao::pegtl::rep_min_max< 1, 2, P1, P2 > >( in ) && r;
      r = e2< tao::pegtl::rep_min_max< 1, 3, P1 > >( in ) && r;
      r = e2< tao::pegtl::rep_min_max< 1, 3, P1, P2 > >( in ) && r;
      r = e2< tao::pegtl::rep_min_max< 1, 4, P1 > >( in ) && r;
      r = e2< tao::pegtl::rep_min_max< 1, 4, P1, P2 > >( in ) && r;
      r = e2< tao::pegtl::rep_min_max< 2, 2, P1 > >( in ) && r;
      r = e2< tao::pegtl::rep_min_max< 2, 2, P1, P2 > >( in ) && r;
      r = e2< tao::pegtl::rep_min_max< 2, 3, P1 > >( in ) && r;
      r = e2< tao::pegtl::rep_min_max< 2, 3, P1, P2 > >( in ) && r;
      r = e2< tao::pegtl::rep_min_max< 2, 4, P1 > >( in ) && r;
      r = e2< tao::pegtl::rep_min_max< 2, 4, P1, P2 > >( in ) && r;
      r = e2< tao::pegtl::rep_min_max< 3, 3, P1 > >( in ) && r;
      r = e2< tao::pegtl::rep_min_max< 3, 3, P1, P2 > >( in ) && r;
      r = e2< tao::pegtl::rep_min_max< 3, 4, P1 > >( in ) && r;
      r = e2< tao::pegtl::rep_min_max< 3, 4, P1, P2 > >( in ) && r;
      r = e2< tao::pegtl::rep_min_max< 4, 4, P1 > >( in ) && r;
      r = e2< tao::pegtl::rep_min_max< 4, 4, P1, P2 > >( in ) && r;
#endif
#if VU_PART == 2
      r = e2< tao::pegtl::if_then< P1, P2 > >( in ) && r;
      r = e2< tao::pegtl::if_then< P1, P2 >::else_if_then< P3, P4 > >( in ) && r;
      r = e2< tao::pegtl::if_then< P1, P2 >::else_then< P3 > >( in ) && r;
      r = e2< chain3 >( in ) && r;
      r = e2< chain3e >( in ) && r;
      r = e2< chain2e >( in ) && r;
      r = e2< chain4 >( in ) && r;
#endif
      return r;
   }

}  // namespace vu
