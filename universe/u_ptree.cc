// Universe: parse_tree builder - witness grammars for the selection / leaf optimisation and the handler hooks.
#include "vu.hpp"

#include <tao/pegtl/contrib/parse_tree.hpp>

namespace vu::pt
{
   using namespace tao::pegtl;
   // chain of unselected pass-through rules above one selected rule: depth k means k unselected levels above `sel`
   struct sel : plus< alpha > {};
   struct other : one< ';' > {};
   template< int K > struct chain : seq< chain< K - 1 >, opt< other > > {};
   template<> struct chain< 0 > : seq< sel > {};
   // recursion
   struct rec : sor< seq< one< '(' >, rec, one< ')' > >, sel > {};
   // a rule with an internal seq that can fail half-way (store_all selects everything that has control enabled)
   struct key : plus< alpha > {};
   struct val : plus< digit > {};
   struct pairs : star< key, one< '=' >, val, one< ',' > > {};
   struct top : seq< pairs, key, eof > {};

   // a control that has unwind (declared only: an event): the tree-building control wraps the caller's control and owes it every hook (C08)
   template< typename Rule > struct ctl_uw : normal< Rule > { template< typename I, typename... S > static void unwind( const I&, S&&... ); };

   template< typename Rule > using only_sel = parse_tree::selector< Rule, parse_tree::store_content::on< sel > >;
   template< typename Rule > using sel_fold = parse_tree::selector< Rule, parse_tree::store_content::on< sel >, parse_tree::fold_one::on< rec >, parse_tree::discard_empty::on< other >, parse_tree::remove_content::on< key > >;

}  // namespace vu::pt
namespace vu
{
   template< typename... T > constexpr std::size_t touch() { return ( sizeof( T ) + ... + 0 ); }   // cfgx records the facts of these classes
}
namespace vu::pt
{
   // names the handler type chosen for every rule reachable from Rule (whether or not a hook of it is ever instantiated)
   template< typename MC, typename Rule > std::size_t probe();
   template< typename MC, typename... Subs > std::size_t probe_list( type_list< Subs... > ) { return ( probe< MC, Subs >() + ... + 0 ); }
   template< typename MC, typename Rule > std::size_t probe()
   {
      static const std::size_t n = vu::touch< typename MC::template type< Rule >, normal< Rule > >() + probe_list< MC >( typename Rule::subs_t() );
      return n;
   }
   template< typename Rule, template< typename... > class Selector > std::size_t probe_sel() { return probe< parse_tree::internal::make_control< parse_tree::node, Selector, normal >, Rule >(); }

   inline std::size_t all_ptree( In& in, St& st )
   {
      std::size_t n = 0;
      n += bool( parse_tree::parse< chain< 1 >, only_sel >( in ) );
      n += bool( parse_tree::parse< chain< 6 >, only_sel >( in ) );
      n += bool( parse_tree::parse< chain< 7 >, only_sel >( in ) );
      n += bool( parse_tree::parse< chain< 8 >, only_sel >( in ) );
      n += bool( parse_tree::parse< chain< 9 >, only_sel >( in ) );
      n += bool( parse_tree::parse< chain< 10 >, only_sel >( in ) );
      n += bool( parse_tree::parse< chain< 12 >, only_sel >( in ) );
      n += bool( parse_tree::parse< rec, only_sel >( in ) );
      n += bool( parse_tree::parse< rec, sel_fold >( in ) );
      n += bool( parse_tree::parse< chain< 2 >, sel_fold >( in ) );
      n += bool( parse_tree::parse< top >( in ) );           // store_all
      if( const auto root = parse_tree::parse< top >( in ) ) { n += std::size_t( root->has_content() ); }      // instantiates basic_node::has_content (T-content)
      n += bool( parse_tree::parse< top, sel_fold >( in ) );
      n += bool( parse_tree::parse< top, parse_tree::node, only_sel, nothing, normal >( in, st ) );   // with an additional state
      n += bool( parse_tree::parse< top, parse_tree::node, parse_tree::internal::store_all, nothing, ctl_uw >( in, st ) );   // wrapped control with unwind: selected handlers
      n += bool( parse_tree::parse< top, parse_tree::node, sel_fold, nothing, ctl_uw >( in, st ) );   // ... selected and unselected handlers
      n += probe_sel< chain< 12 >, only_sel >() + probe_sel< rec, only_sel >() + probe_sel< rec, sel_fold >() + probe_sel< top, parse_tree::internal::store_all >() + probe_sel< top, sel_fold >();
      return n;
   }
}  // namespace vu::pt
