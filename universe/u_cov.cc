// Universe: the stateful controls shipped with the library (coverage, trace) instantiated over a small grammar (C08: K-state).
#include "vu.hpp"

#include <tao/pegtl/contrib/coverage.hpp>
#include <tao/pegtl/contrib/trace.hpp>

namespace vu::cov
{
   using namespace tao::pegtl;
   struct word : plus< alpha > {};
   struct item : sor< word, must< digit > > {};
   struct gram : seq< item, star< one< ',' >, item >, eof > {};

   inline bool all_cov( In& in )
   {
      coverage_result r;
      const bool a = coverage< gram >( in, r );
      const bool b = standard_trace< gram >( in );
      return a && b;
   }
}  // namespace vu::cov
