// Universe: member functions of the input classes, action_input, guards and readers.
#include "vu.hpp"

#include <tao/pegtl/contrib/input_with_depth.hpp>
#include <tao/pegtl/contrib/limit_bytes.hpp>
#include <tao/pegtl/contrib/limit_depth.hpp>
#include <tao/pegtl/cstream_input.hpp>
#include <tao/pegtl/istream_input.hpp>

namespace vu
{
   template< typename AI >
   std::size_t use_action_input( const AI& ai )
   {
      std::size_t n = ai.size();
      n += ai.empty() ? 1 : 0;
      n += std::size_t( ai.end() - ai.begin() );
      n += std::size_t( ai.current() - ai.begin() );
      n += ai.string_view().size();
      n += ai.string().size();
      n += std::size_t( ai.peek_char( 0 ) ) + ai.peek_uint8( 1 );
      n += ai.position().byte + ai.current_position().line;
      n += ai.input().size() + std::size_t( &ai.inputerator() != nullptr );
      return n;
   }

   template< typename Input >
   std::size_t use_memory_input( Input& in )
   {
      std::size_t n = in.size( 1 ) + in.byte() + std::size_t( in.empty() );
      n += std::size_t( in.end() - in.current() ) + std::size_t( in.current() - in.begin() );
      n += std::size_t( in.peek_char( 0 ) ) + in.peek_uint8( 1 );
      in.bump( 1 );
      in.bump_in_this_line( 1 );
      in.bump_to_next_line( 1 );
      const auto p = in.position();
      n += p.byte + in.current_position().line;
      n += std::size_t( in.at( p ) - in.begin_of_line( p ) ) + std::size_t( in.end_of_line( p ) - in.at( p ) ) + in.line_at( p ).size();
      in.discard();
      in.require( 1 );
      in.private_set_end( in.current() );
      in.restart();
      {
         auto m = in.template auto_rewind< rewind_mode::required >();
         n += std::size_t( m( true ) );
         in.restart( m );
      }
      {
         auto m = in.template auto_rewind< rewind_mode::optional >();
         n += std::size_t( m( true ) );
      }
      n += in.source().size();
      return n;
   }

   template< typename... T > constexpr std::size_t touch() { return ( sizeof( T ) + ... + 0 ); }   // forces complete types; cfgx records their facts

   inline std::size_t all_inputs( In& in, InLazy& lz, InBuf& bin, const In::action_t& ai, const InLazy::action_t& lai, const InBuf::action_t& bai )
   {
      std::size_t n = use_action_input( ai ) + use_action_input( lai );
      touch< string_input<>, read_input<>, mmap_input<>, file_input<>, argv_input<>, istream_input<>, cstream_input<>, memory_input<>, InLazy, InBuf >();
      n += bai.size() + std::size_t( bai.end() - bai.begin() );
      n += use_memory_input( in ) + use_memory_input( lz );
      n += in.line() + in.column();
      in.restart( 10, 3, 4 );
      {
         const char* b = "abc";
         In i2( b, b + 3, "s", 10, 3, 4 );
         InLazy i3( b, b + 3, "s", 10, 3, 4 );
         In i4( b, 3, "s" );
         In i5( std::string_view( b ), "s" );
         In i6( b, "s" );
         n += i2.byte() + i3.byte() + i4.byte() + i5.byte() + i6.byte();
      }
      // buffer input
      n += bin.size( 2 ) + std::size_t( bin.empty() ) + bin.byte() + bin.line() + bin.column();
      n += std::size_t( bin.end( 1 ) - bin.current() ) + std::size_t( bin.peek_char( 0 ) ) + bin.peek_uint8( 0 );
      bin.bump( 1 );
      bin.bump_in_this_line( 1 );
      bin.bump_to_next_line( 1 );
      bin.discard();
      bin.require( 3 );
      n += bin.position().byte + bin.buffer_capacity() + bin.buffer_occupied() + bin.buffer_free_before_current() + bin.buffer_free_after_end();
      {
         auto m = bin.auto_rewind< rewind_mode::required >();
         n += std::size_t( m( false ) );
      }
      // guards
      {
         internal::bytes_guard< 5, In > bg( in );
         n += std::size_t( bg.m_end - in.current() );
         input_with_depth< In > din( "abc", "s" );
         const auto dg( din.make_depth_guard() );
         n += dg.current_depth();
      }
      return n;
   }

}  // namespace vu
