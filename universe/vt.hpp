// Placeholders with analyze traits and helpers for the grammar-analysis universe (C11).
#ifndef VERIF_UNIVERSE_VT_HPP
#define VERIF_UNIVERSE_VT_HPP

#include "vu.hpp"

#include <tao/pegtl/contrib/analyze.hpp>
#include <tao/pegtl/contrib/http.hpp>
#include <tao/pegtl/contrib/if_then.hpp>
#include <tao/pegtl/contrib/integer.hpp>
#include <tao/pegtl/contrib/predicates.hpp>
#include <tao/pegtl/contrib/raw_string.hpp>
#include <tao/pegtl/contrib/rep_one_min_max.hpp>
#include <tao/pegtl/contrib/rep_string.hpp>
#include <tao/pegtl/contrib/separated_seq.hpp>

namespace vu
{
   // consuming placeholder: always consumes when it succeeds
   template< int N >
   struct PC
   {
      using rule_t = PC;
      using subs_t = empty_list;
      template< apply_mode A, rewind_mode M, template< typename... > class Action, template< typename... > class Control, typename ParseInput, typename... States >
      [[nodiscard]] static bool match( ParseInput& in, States&&... st );
   };
   // nullable placeholder: may succeed without consuming
   template< int N >
   struct PN
   {
      using rule_t = PN;
      using subs_t = empty_list;
      template< apply_mode A, rewind_mode M, template< typename... > class Action, template< typename... > class Control, typename ParseInput, typename... States >
      [[nodiscard]] static bool match( ParseInput& in, States&&... st );
   };
}  // namespace vu

namespace tao::pegtl
{
   template< typename Name, int N > struct analyze_traits< Name, vu::PC< N > > : analyze_any_traits<> {};
   template< typename Name, int N > struct analyze_traits< Name, vu::PN< N > > : analyze_opt_traits<> {};
}  // namespace tao::pegtl

namespace vu
{
   template< typename T, typename = void > inline constexpr bool has_traits = false;
   template< typename T > inline constexpr bool has_traits< T, std::void_t< decltype( sizeof( analyze_traits< T, typename T::rule_t > ) ) > > = true;
   // rules that cannot be analysed at all (an incomplete analyze_traits is a compile error, never a certificate)
   static_assert( !has_traits< tao::pegtl::strict< PC< 1 > > > );
   static_assert( !has_traits< tao::pegtl::star_strict< PC< 1 > > > );
   static_assert( has_traits< tao::pegtl::seq< PC< 1 > > > );

   template< typename R >
   std::size_t t1( In& in )
   {
      const bool r = use< R, apply_mode::action, rewind_mode::required >( in );
      return tao::pegtl::analyze< R >( -1 ) + std::size_t( r );
   }

   template< typename R >
   std::size_t t0()
   {
      return tao::pegtl::analyze< R >( -1 );     // rules whose match() needs a state argument: trait graph only
   }

   struct TA1 { template< typename AI, typename... S > static void apply( const AI&, S&&... ); };

}  // namespace vu

#endif
