// Positive control for the "no mutable static state in library functions" scan (C05 X-state).
// It lives under a path containing /tao/pegtl/ so that the extractor dumps its body like a library function; the check recognises it by its name.
#pragma once
#include <cstddef>
namespace vu
{
   inline std::size_t static_state_control() { static std::size_t calls = 0; return ++calls; }
}
