// Universe: the central dispatch tao::pegtl::match<> for every action shape x apply mode x rewind mode
// x control with/without unwind x enable_control on/off, plus the shipped control wrappers and parse().
#include "vu.hpp"

#include <tao/pegtl/contrib/coverage.hpp>
#include <tao/pegtl/contrib/parse_tree.hpp>
#include <tao/pegtl/contrib/remove_first_state.hpp>
#include <tao/pegtl/contrib/remove_last_states.hpp>
#include <tao/pegtl/contrib/shuffle_states.hpp>
#include <tao/pegtl/contrib/state_control.hpp>
#include <tao/pegtl/contrib/trace.hpp>
#include <tao/pegtl/must_if.hpp>

namespace vu
{
   // opaque user rules with the two simpler match signatures (doc/Rules-and-Grammars.md "Simple Rules"): match( in ) and match( in, st... );
   // nothing is known about them beyond the rule contract - in particular they may throw like any other rule
   struct PS { using rule_t = PS; using subs_t = empty_list; template< typename I > [[nodiscard]] static bool match( I& in ); };
   struct PSS { using rule_t = PSS; using subs_t = empty_list; template< typename I, typename... S > [[nodiscard]] static bool match( I& in, S&&... st ); };

   // action shapes
   template< typename R > struct act : nothing< R > {};
   template<> struct act< P1 > { template< typename AI, typename... S > static void apply( const AI&, S&&... ); };
   template<> struct act< P2 > { template< typename AI, typename... S > static bool apply( const AI&, S&&... ); };
   template<> struct act< P3 > { template< typename... S > static void apply0( S&&... ); };
   template<> struct act< P4 > { template< typename... S > static bool apply0( S&&... ); };
   // P5: no action.  P6: hidden rule (enable_control false)

   // control with unwind; all hooks declared-only (events)
   template< typename R >
   struct ctl : normal< R >
   {
      static constexpr bool enable = !std::is_same_v< R, P6 >;
      template< typename I, typename... S > static void start( const I&, S&&... );
      template< typename I, typename... S > static void success( const I&, S&&... );
      template< typename I, typename... S > static void failure( const I&, S&&... );
      template< typename I, typename... S > static void unwind( const I&, S&&... );
   };
   // control without unwind
   template< typename R >
   struct ctl0 : normal< R >
   {
      static constexpr bool enable = !std::is_same_v< R, P6 >;
      template< typename I, typename... S > static void start( const I&, S&&... );
      template< typename I, typename... S > static void success( const I&, S&&... );
      template< typename I, typename... S > static void failure( const I&, S&&... );
   };

   // a control whose hooks are all declared-only (wrapped by the wrappers below)
   template< typename R >
   struct base_ctl
   {
      static constexpr bool enable = true;
      template< typename I, typename... S > static void start( const I&, S&&... );
      template< typename I, typename... S > static void success( const I&, S&&... );
      template< typename I, typename... S > static void failure( const I&, S&&... );
      template< typename I, typename... S > static void unwind( const I&, S&&... );
      template< typename I, typename... S > [[noreturn]] static void raise( const I&, S&&... );
      template< typename I, typename... S > [[noreturn]] static void raise_nested( const I&, S&&... );
      template< template< typename... > class Action, typename It, typename I, typename... S > static bool apply( const It&, const I&, S&&... );
      template< template< typename... > class Action, typename I, typename... S > static bool apply0( const I&, S&&... );
      template< apply_mode A, rewind_mode M, template< typename... > class Action, template< typename... > class Control, typename I, typename... S >
      [[nodiscard]] static bool match( I& in, S&&... st );
   };

   struct CtlState
   {
      template< typename R > static constexpr bool enable = true;
      template< typename R, typename I, typename... S > void raise_nested( const I&, S&&... );
      template< typename R, typename I, typename... S > void start( const I&, S&&... );
      template< typename R, typename I, typename... S > void success( const I&, S&&... );
      template< typename R, typename I, typename... S > void failure( const I&, S&&... );
      template< typename R, typename I, typename... S > void raise( const I&, S&&... );
      template< typename R, typename I, typename... S > void unwind( const I&, S&&... );
      template< typename R, typename I, typename... S > void apply( const I&, S&&... );
      template< typename R, typename I, typename... S > void apply0( const I&, S&&... );
   };

   // the same with control disabled for the rule (hidden internal rules): no hook of the wrapped control may be reached through a wrapper
   template< typename R >
   struct base_ctl0 : base_ctl< R >
   {
      static constexpr bool enable = false;
   };
   // a control state that is not interested in the rule
   struct CtlState0 : CtlState
   {
      template< typename R > static constexpr bool enable = false;
   };

   template< typename R > using sc = state_control< base_ctl >::type< R >;
   template< typename R > using sc0 = state_control< base_ctl0 >::type< R >;
   template< typename R > using rfs = remove_first_state< base_ctl< R > >;
   template< typename R > using rls = remove_last_states< base_ctl< R >, 1 >;
   template< typename R > using rot_l = rotate_states_left< base_ctl< R > >;
   template< typename R > using rot_r = rotate_states_right< base_ctl< R > >;
   template< typename R > using rev = reverse_states< base_ctl< R > >;

   struct P1m : P1 { static constexpr const char* error_message = "p1"; };                          // the pointer form of a custom message
   struct P1a : P1 { static constexpr const char error_message[] = "p1 as an array"; };             // the array form (what raise_message<> uses)
   template< typename > inline constexpr const char* errmsg = nullptr;
   template<> inline constexpr const char* errmsg< P1 > = "p1 failed";
   struct Errors { template< typename R > static constexpr const char* message = errmsg< R >; };
   template< typename R > using mif = must_if< Errors, normal, true >::control< R >;
   template< typename R > using mif_nr = must_if< Errors, normal, false >::control< R >;
   // an Errors class that asks for a raise without providing a message (the rule's own error_message is used)
   struct Errors2 { template< typename R > static constexpr const char* message = nullptr; template< typename R > static constexpr bool raise_on_failure = std::is_same_v< R, P1m >; };
   template< typename R > using mif2 = must_if< Errors2, normal, false >::control< R >;
   // messages for every rule, but the "turn local failure into global failure" feature switched off (doc/Errors-and-Exceptions.md)
   struct Errors3 { template< typename R > static constexpr const char* message = "failed"; template< typename R > static constexpr bool raise_on_failure = false; };
   template< typename R > using mif3 = must_if< Errors3, normal, true >::control< R >;
   // an explicit raise_on_failure that disagrees with the presence of a message in both directions
   struct Errors4 { template< typename R > static constexpr const char* message = errmsg< R >; template< typename R > static constexpr bool raise_on_failure = !std::is_same_v< R, P1 >; };
   template< typename R > using mif4 = must_if< Errors4, normal, false >::control< R >;

   template< template< typename... > class C, typename I, typename... S >
   void use_hooks( I& in, const I& cin, S&... st )
   {
      C< P1 >::start( cin, st... );
      C< P1 >::success( cin, st... );
      C< P1 >::failure( cin, st... );
      C< P1 >::unwind( cin, st... );
      (void)C< P1 >::template apply< act >( in.inputerator(), cin, st... );
      (void)C< P1 >::template apply0< act >( cin, st... );
      (void)C< P1 >::template match< apply_mode::action, rewind_mode::required, act, C >( in, st... );
      C< P1 >::raise( cin, st... );
   }

   template< typename... T > constexpr std::size_t touch() { return ( sizeof( T ) + ... + 0 ); }   // forces complete types; cfgx records their facts

   inline bool all_dispatch( In& in, const In& cin, St& st, St2& st2, CtlState& cs )
   {
      bool r = true;
#if VU_PART == 1
      touch< act< P1 >, act< P2 >, act< P3 >, act< P4 >, act< P5 >, act< P6 >, ctl< P1 >, ctl< P5 >, ctl< P6 >, ctl0< P1 >, ctl0< P6 >, normal< P1 > >();
      r = use4< P1, act, ctl >( in ) && r;
      r = use4< P2, act, ctl >( in ) && r;
      r = use4< P3, act, ctl >( in ) && r;
      r = use4< P4, act, ctl >( in ) && r;
      r = use4< P5, act, ctl >( in ) && r;
      r = use4< P6, act, ctl >( in ) && r;
      r = use4< P1, act, ctl0 >( in ) && r;
      r = use4< P2, act, ctl0 >( in ) && r;
      r = use4< P3, act, ctl0 >( in ) && r;
      r = use4< P4, act, ctl0 >( in ) && r;
      r = use4< P5, act, ctl0 >( in ) && r;
      r = use4< P6, act, ctl0 >( in ) && r;
      r = use4< P1, act, ctl >( in, st ) && r;
      r = use4< P2, act, ctl >( in, st ) && r;
      r = use4< P3, act, ctl >( in, st ) && r;
      r = use4< P4, act, ctl >( in, st ) && r;
      r = use4< P1, act, normal >( in, st ) && r;
      r = use4< P2, act, normal >( in, st ) && r;
      r = use4< P3, act, normal >( in, st ) && r;
      r = use4< P4, act, normal >( in, st ) && r;
      r = use4< P5, act, normal >( in, st ) && r;
      r = use4< internal::seq< P1, P2 >, act, ctl >( in ) && r;
      r = use4< PS, act, ctl >( in ) && r;
      r = use4< PS, act, ctl >( in, st ) && r;
      r = use4< PS, act, ctl0 >( in ) && r;
      r = use4< PSS, act, ctl >( in ) && r;
      r = use4< PSS, act, ctl >( in, st ) && r;
      r = parse< P1, act, ctl >( in ) && r;
      r = parse< P1, act, ctl >( in, st ) && r;
      r = parse_nested< P1, act, ctl >( in, in, st ) && r;
      r = parse_nested< P1, act, ctl >( in.position(), in, st ) && r;
#endif
#if VU_PART == 2
      use_hooks< sc >( in, cin, cs );
      {
         CtlState0 cs0;
         use_hooks< sc0 >( in, cin, cs );
         use_hooks< sc0 >( in, cin, st, cs );
         use_hooks< sc >( in, cin, cs0 );
         use_hooks< sc >( in, cin, st, cs0 );
      }
      use_hooks< sc >( in, cin, st, cs );
      use_hooks< rfs >( in, cin, st );
      use_hooks< rfs >( in, cin, st, st2 );
      use_hooks< rls >( in, cin, st );
      use_hooks< rls >( in, cin, st, st2 );
      use_hooks< rot_l >( in, cin, st, st2 );
      use_hooks< rot_r >( in, cin, st, st2 );
      use_hooks< rev >( in, cin, st, st2 );
      use_hooks< rot_l >( in, cin, st, st2, cs );
      use_hooks< rot_r >( in, cin, st, st2, cs );
      use_hooks< rev >( in, cin, st, st2, cs );
      mif< P1 >::failure( cin, st );
      mif< P2 >::failure( cin, st );
      mif_nr< P1 >::failure( cin, st );
      mif2< P1m >::failure( cin, st );
      mif2< P2 >::failure( cin, st );
      mif2< P1m >::raise( cin, st );
      mif3< P1 >::failure( cin, st );
      mif3< P2 >::failure( cin, st );
      mif4< P1 >::failure( cin, st );
      mif4< P1m >::failure( cin, st );
      mif< P1 >::raise( cin, st );
      r = use4< P1, act, mif >( in ) && r;
      normal< P1 >::raise( cin, st );
      normal< P1m >::raise( cin, st );
      normal< P1 >::raise_nested( cin, st );
      normal< P1m >::raise_nested( cin.position(), st );
      normal< P1a >::raise( cin, st );
      normal< P1a >::raise_nested( cin.position(), st );
#endif
      return r;
   }

}  // namespace vu
