// Universe support: opaque placeholder rules, inputs, and ODR-use helpers.
// Nothing in the universe is ever compiled to object code or executed; the extractor
// (tools/cfgx) type-checks these translation units and dumps the instantiated bodies
// of the library's templates.
#ifndef VERIF_UNIVERSE_VU_HPP
#define VERIF_UNIVERSE_VU_HPP

#include <tao/pegtl.hpp>
#include <tao/pegtl/buffer_input.hpp>

namespace vu
{
   using namespace tao::pegtl;

   // Opaque placeholder rule: declared-only match(), so the analysis knows nothing about it
   // beyond the rule-boundary contract.
   template< int N >
   struct P
   {
      using rule_t = P;
      using subs_t = empty_list;
      template< apply_mode A, rewind_mode M, template< typename... > class Action, template< typename... > class Control, typename ParseInput, typename... States >
      [[nodiscard]] static bool match( ParseInput& in, States&&... st );
   };
   using P1 = P< 1 >;
   using P2 = P< 2 >;
   using P3 = P< 3 >;
   using P4 = P< 4 >;
   using P5 = P< 5 >;
   using P6 = P< 6 >;

   using In = memory_input< tracking_mode::eager, eol::lf_crlf >;
   using InLazy = memory_input< tracking_mode::lazy, eol::lf_crlf >;

   struct Reader
   {
      std::size_t operator()( char* buffer, const std::size_t length );
   };
   using InBuf = buffer_input< Reader, eol::lf_crlf, std::string, 64 >;

   // A state type with a success() (for state<>, change_state<> ...)
   struct St
   {
      St() = default;
      template< typename I, typename... S >
      explicit St( const I&, S&&... );
      template< typename I, typename... S >
      void success( const I&, S&&... );
   };
   struct St2
   {
      St2() = default;
      template< typename I, typename... S >
      void success( const I&, S&&... );
   };
   struct Ex
   {};

   template< typename R, apply_mode A, rewind_mode M, template< typename... > class Action = nothing, template< typename... > class Control = normal, typename Input, typename... States >
   bool use( Input& in, States&&... st )
   {
      return Control< R >::template match< A, M, Action, Control >( in, st... );
   }

   template< typename R, template< typename... > class Action = nothing, template< typename... > class Control = normal, typename Input, typename... States >
   bool use4( Input& in, States&&... st )
   {
      bool r = use< R, apply_mode::action, rewind_mode::required, Action, Control >( in, st... );
      r = use< R, apply_mode::action, rewind_mode::optional, Action, Control >( in, st... ) && r;
      r = use< R, apply_mode::nothing, rewind_mode::required, Action, Control >( in, st... ) && r;
      r = use< R, apply_mode::nothing, rewind_mode::optional, Action, Control >( in, st... ) && r;
      return r;
   }

   // direct call of Rule::match with extra (non-state) parameters, all four modes
   template< typename R, typename Input, typename... Args >
   bool direct4( Input& in, Args&&... args )
   {
      bool r = R::template match< apply_mode::action, rewind_mode::required, nothing, normal >( in, args... );
      r = R::template match< apply_mode::action, rewind_mode::optional, nothing, normal >( in, args... ) && r;
      r = R::template match< apply_mode::nothing, rewind_mode::required, nothing, normal >( in, args... ) && r;
      r = R::template match< apply_mode::nothing, rewind_mode::optional, nothing, normal >( in, args... ) && r;
      return r;
   }

}  // namespace vu

#endif
