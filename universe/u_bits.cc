// Universe: unit decoders, character-class predicates, endian readers and unescape helpers (C10, C17).
// Every function here is a leaf over a few input units; sa/bits.py evaluates the instantiated bodies over exact sets of units.
#include "vu.hpp"
#include "tao/pegtl/vu_static_control.hpp"   // positive control of the C05 X-state scan

#include <utility>

#include <tao/pegtl/contrib/abnf.hpp>
#include <tao/pegtl/contrib/uint16.hpp>
#include <tao/pegtl/contrib/uint32.hpp>
#include <tao/pegtl/contrib/uint64.hpp>
#include <tao/pegtl/contrib/uint8.hpp>
#include <tao/pegtl/contrib/unescape.hpp>
#include <tao/pegtl/contrib/utf16.hpp>
#include <tao/pegtl/contrib/utf32.hpp>
#include <tao/pegtl/utf8.hpp>

namespace vu
{
   template< typename... T > constexpr std::size_t touch() { return ( sizeof( T ) + ... + 0 ); }   // cfgx records the facts of these classes
}

namespace vu::bits
{
   namespace I = tao::pegtl::internal;
   using namespace tao::pegtl;

   // ichar_equal< C > for every byte value C
   template< std::size_t... Is >
   bool all_ichar( const char c, std::index_sequence< Is... > )
   {
      return ( I::ichar_equal< static_cast< char >( static_cast< unsigned char >( Is ) ) >( c ) || ... );
   }

   template< typename... Rs >
   bool classes( const char c )
   {
      (void)vu::touch< Rs... >();
      return ( Rs::test_one( c ) || ... );
   }

   template< typename... Ps >
   std::size_t peeks( In& in )
   {
      return ( std::size_t( Ps::peek( in ).size ) + ... );
   }

   template< typename... Rs >
   std::size_t matches( In& in )
   {
      return ( std::size_t( Rs::match( in ) ) + ... );
   }

   inline std::size_t all_bits( In& in, const char c, std::string& s )
   {
      std::size_t n = all_ichar( c, std::make_index_sequence< 256 >() ) + vu::static_state_control();
      n += classes< alnum, alpha, blank, digit, identifier_first, identifier_other, lower, nul, odigit, print, seven, space, upper, xdigit,
                    one< 'a', 'Z', '\n' >, not_one< 'a', 'Z', '\n' >, range< 'a', 'f' >, not_range< 'a', 'f' >, ranges< 'a', 'f', '0', '9', '_' >, ranges< 'a', 'f' >,
                    one< '\x80', '\xff', 'b' >, range< '\x80', '\xfe' >, not_range< '\xf0', '\x7f' >,
                    abnf::ALPHA, abnf::BIT, abnf::CHAR, abnf::CR, abnf::CTL, abnf::DIGIT, abnf::DQUOTE, abnf::HEXDIG, abnf::HTAB, abnf::LF, abnf::SP, abnf::VCHAR, abnf::WSP >( c );
      n += peeks< I::peek_char, I::peek_utf8, I::peek_utf16_be, I::peek_utf16_le, I::peek_utf32_be, I::peek_utf32_le, I::peek_uint8, I::peek_mask_uint8< 0x5a >,
                  I::peek_uint16_be, I::peek_uint16_le, I::peek_uint32_be, I::peek_uint32_le, I::peek_uint64_be, I::peek_uint64_le,
                  I::peek_mask_uint16_be< 0x0ff0 >, I::peek_mask_uint16_le< 0x0ff0 >, I::peek_mask_uint32_be< 0x00ffff00 >, I::peek_mask_uint32_le< 0x00ffff00 >,
                  I::peek_mask_uint64_be< 0x00ffff0000ffff00ULL >, I::peek_mask_uint64_le< 0x00ffff0000ffff00ULL > >( in );
      n += vu::touch< one<>, not_one<>, utf8::one<>, utf8::not_one<> >();      // rules without a match of their own (an empty list): their facts name the base that has it
      n += matches< any, one<>, not_one<>, utf8::one<>, utf8::not_one<>, one< 'a', 'Z', '\n' >, not_one< 'a', '\r' >, range< 'a', 'f' >, not_range< '\xf0', '\x7f' >, ranges< 'a', 'f', '0', '9', '_' >, I::one< I::result_on_found::success, I::peek_char, '\x80', '\xff' >,
                    utf8::any, utf8::bom, utf8::one< 0xe4, 0x10000, 0x7f >, utf8::not_one< 0xe4, 0x10ffff >, utf8::range< 0x80, 0x7ff >, utf8::not_range< 0xd7ff, 0xe000 >, utf8::ranges< 0x20, 0x7e, 0x800, 0xffff, 0x10ffff >,
                    utf16_be::any, utf16_be::bom, utf16_be::one< 0xe4, 0x10000 >, utf16_be::not_one< 0xffff >, utf16_be::range< 0xd000, 0x10400 >, utf16_be::not_range< 0xd7ff, 0xe000 >, utf16_be::ranges< 0x20, 0x7e, 0xe000, 0x10ffff, 0x10 >,
                    utf16_le::any, utf16_le::bom, utf16_le::one< 0xe4, 0x10000 >, utf16_le::not_one< 0xffff >, utf16_le::range< 0xd000, 0x10400 >, utf16_le::not_range< 0xd7ff, 0xe000 >, utf16_le::ranges< 0x20, 0x7e, 0xe000, 0x10ffff, 0x10 >,
                    utf32_be::any, utf32_be::bom, utf32_be::one< 0xe4, 0x10ffff >, utf32_be::not_one< 0 >, utf32_be::range< 0xd000, 0xe100 >, utf32_be::not_range< 0x100, 0x10fffe >, utf32_be::ranges< 0, 0x7e, 0xe000, 0x10ffff, 0xd7ff >,
                    utf32_le::any, utf32_le::bom, utf32_le::one< 0xe4, 0x10ffff >, utf32_le::not_one< 0 >, utf32_le::range< 0xd000, 0xe100 >, utf32_le::not_range< 0x100, 0x10fffe >, utf32_le::ranges< 0, 0x7e, 0xe000, 0x10ffff, 0xd7ff >,
                    uint8::any, uint8::one< 0, 0x80, 0xff >, uint8::not_one< 0x7f >, uint8::range< 0x7f, 0x81 >, uint8::not_range< 1, 0xfe >, uint8::ranges< 0, 9, 0xf0, 0xff, 0x80 >,
                    uint8::mask_one< 0x0f, 0x03 >, uint8::mask_not_one< 0xf0, 0x30 >, uint8::mask_range< 0x3c, 0x04, 0x30 >, uint8::mask_not_range< 0x3c, 0x04, 0x30 >, uint8::mask_ranges< 0x7f, 1, 5, 0x70, 0x7f, 0x40 >,
                    uint16_be::any, uint16_be::one< 0x0102, 0xfffe >, uint16_be::not_one< 0x8000 >, uint16_be::range< 0x00ff, 0x0100 >, uint16_be::not_range< 0x7fff, 0x8000 >, uint16_be::ranges< 0, 0xff, 0xff00, 0xffff, 0x8000 >,
                    uint16_le::any, uint16_le::one< 0x0102, 0xfffe >, uint16_le::not_one< 0x8000 >, uint16_le::range< 0x00ff, 0x0100 >, uint16_le::not_range< 0x7fff, 0x8000 >, uint16_le::ranges< 0, 0xff, 0xff00, 0xffff, 0x8000 >,
                    uint16_be::mask_one< 0x0ff0, 0x0120 >, uint16_le::mask_range< 0x0ff0, 0x0100, 0x0200 >, uint16_be::mask_not_one< 0xff00, 0x1200 >, uint16_le::mask_not_range< 0x00ff, 0x10, 0x20 >,
                    uint32_be::any, uint32_be::one< 0x01020304, 0xfffffffe >, uint32_be::range< 0x00ffffff, 0x01000000 >, uint32_be::not_range< 0x7fffffff, 0x80000000 >, uint32_be::mask_one< 0x00ffff00, 0x00123400 >,
                    uint32_le::any, uint32_le::one< 0x01020304, 0xfffffffe >, uint32_le::range< 0x00ffffff, 0x01000000 >, uint32_le::not_range< 0x7fffffff, 0x80000000 >, uint32_le::mask_range< 0x00ffff00, 0x00010000, 0x00020000 >,
                    uint64_be::any, uint64_be::one< 0x0102030405060708ULL, 0xfffffffffffffffeULL >, uint64_be::range< 0x00ffffffffffffffULL, 0x0100000000000000ULL >, uint64_be::mask_one< 0x00ffff0000ffff00ULL, 0x0012340000567800ULL >,
                    uint64_le::any, uint64_le::one< 0x0102030405060708ULL, 0xfffffffffffffffeULL >, uint64_le::not_range< 0x7fffffffffffffffULL, 0x8000000000000000ULL >, uint64_le::mask_ranges< 0xff000000000000ffULL, 1, 0xff, 0x0100000000000000ULL, 0xff00000000000000ULL, 0 > >( in );
      n += unescape::utf8_append_utf32( s, unsigned( n ) );
      n += unescape::unhex_char< unsigned >( c ) + unescape::unhex_char< char >( c ) + unescape::unhex_char< unsigned long >( c );
      n += unescape::unhex_string< unsigned >( &c, &c ) + unescape::unhex_string< char >( &c, &c ) + unescape::unhex_string< unsigned long >( &c, &c );
      return n;
   }

   struct esc : one< 'n', 't', '\\', '0' > {};

   inline bool all_actions( const I::action_input< In >& ai, std::string& s )
   {
      unescape::append_all::apply( ai, s );
      unescape::unescape_c< esc, '\n', '\t', '\\', '\0' >::apply( ai, s );
      unescape::unescape_u::apply( ai, s );
      unescape::unescape_x::apply( ai, s );
      return unescape::unescape_j::apply( ai, s );
   }
}  // namespace vu::bits
