// Universe: every rule that advances the cursor through a position shortcut (bump_help, bump_in_this_line, bump_to_next_line),
// instantiated over eager inputs of all five end-of-line policies (C06).
#include "vu.hpp"

#include <tao/pegtl/contrib/predicates.hpp>
#include <tao/pegtl/contrib/rep_one_min_max.hpp>
#include <tao/pegtl/utf8.hpp>

namespace vu::pos
{
   namespace I = tao::pegtl::internal;
   using namespace tao::pegtl;

   using In_lf = memory_input< tracking_mode::eager, eol::lf >;
   using In_cr = memory_input< tracking_mode::eager, eol::cr >;
   using In_crlf = memory_input< tracking_mode::eager, eol::crlf >;
   using In_lf_crlf = memory_input< tracking_mode::eager, eol::lf_crlf >;
   using In_cr_crlf = memory_input< tracking_mode::eager, eol::cr_crlf >;

   template< typename Input, typename... Rs >
   std::size_t matches( Input& in )
   {
      return ( std::size_t( Rs::match( in ) ) + ... );
   }

   // combinators that advance the cursor themselves (until skips the bytes its condition does not match)
   template< typename Input >
   std::size_t combinators( Input& in )
   {
      using A = string< '*', '/' >;
      return std::size_t( normal< until< A > >::template match< apply_mode::action, rewind_mode::required, nothing, normal >( in ) )
             + std::size_t( normal< until< eolf > >::template match< apply_mode::action, rewind_mode::optional, nothing, normal >( in ) )
             + std::size_t( normal< until< A, any > >::template match< apply_mode::action, rewind_mode::required, nothing, normal >( in ) );
   }

   template< typename Input >
   std::size_t all_rules( Input& in )
   {
      return matches< Input, I::eol, I::eolf, any, I::everything< std::size_t >, one< 'a' >, one< '\n' >, one< '\r', 'x' >, not_one< 'a' >, not_one< '\n', '\r' >, not_one< '\n' >, not_one< '\r' >,
                      range< 'a', 'z' >, range< '\t', '\r' >, not_range< 'a', 'z' >, not_range< '\0', ' ' >, ranges< 'a', 'z', '\n' >, ranges< 'a', 'z', '0', '9' >, ranges< '\t', '\r', 'x' >,
                      string< 'a', 'b' >, string< 'a', '\n', 'b' >, string< '\r', '\n' >, string< '\r' >, string< 'a', '\0', 'b' >, istring< 'a', '\0', 'B' >, istring< 'a', 'B' >, istring< 'a', '\n' >, istring< '\r', 'x' >, bytes< 3 >, bytes< 1 >,
                      rep_one_min_max< 1, 3, 'x' >, rep_one_min_max< 0, 2, 'x' >, rep_one_min_max< 1, 3, '\n' >, rep_one_min_max< 0, 2, '\r' >, rep_one_min_max< 2, 2, '\n' >,
                      I::predicates< I::predicates_and_test, I::peek_char, range< 'a', 'z' >, not_one< 'q' > >, I::predicates< I::predicate_not_test, I::peek_char, one< 'a' > >,
                      I::predicates< I::predicates_or_test, I::peek_char, one< '\n' >, one< 'a' > >, I::predicates< I::predicate_not_test, I::peek_char, one< '\n', '\r' > >,
                      utf8::any, utf8::one< 0xe4, '\n' >, utf8::one< 0xe4, 0x10000 >, utf8::not_one< 0xe4 >, utf8::not_one< '\n', '\r' >, utf8::range< 0, 0x7ff >, utf8::range< 0x80, 0x10ffff >,
                      utf8::not_range< 0x80, 0x10ffff >, utf8::ranges< 0x20, 0x7e, 0x800, 0xffff >, utf8::ranges< 0, 0x7e, 0x800, 0xffff, 0x10ffff >, utf8::bom >( in );
   }

   template< typename Input >
   std::size_t input_ops( Input& in )
   {
      in.bump();
      in.bump_in_this_line();
      in.bump_to_next_line();
      return in.byte() + in.position().line;
   }

   template< typename Input >
   std::size_t line_ops( Input& in )
   {
      const auto p = in.position();
      return std::size_t( in.at( p ) - in.begin_of_line( p ) ) + std::size_t( in.end_of_line( p ) - in.at( p ) ) + in.line_at( p ).size();
   }

   template< typename Input >
   bool rematches( Input& in )
   {
      return normal< rematch< plus< alpha >, string< 'a', 'b' >, one< 'a' > > >::template match< apply_mode::action, rewind_mode::required, nothing, normal >( in );
   }

   template< typename Eol >
   std::size_t lazy_and_buffer( memory_input< tracking_mode::lazy, Eol >& a, buffer_input< Reader, Eol, std::string, 64 >& b )
   {
      return input_ops( a ) + input_ops( b ) + rematches( a ) + line_ops( a );
   }

   inline std::size_t all_inputs( memory_input< tracking_mode::lazy, eol::lf >& a1, buffer_input< Reader, eol::lf, std::string, 64 >& b1, memory_input< tracking_mode::lazy, eol::cr >& a2, buffer_input< Reader, eol::cr, std::string, 64 >& b2,
                                  memory_input< tracking_mode::lazy, eol::crlf >& a3, buffer_input< Reader, eol::crlf, std::string, 64 >& b3, memory_input< tracking_mode::lazy, eol::lf_crlf >& a4, buffer_input< Reader, eol::lf_crlf, std::string, 64 >& b4,
                                  memory_input< tracking_mode::lazy, eol::cr_crlf >& a5, buffer_input< Reader, eol::cr_crlf, std::string, 64 >& b5 )
   {
      return lazy_and_buffer( a1, b1 ) + lazy_and_buffer( a2, b2 ) + lazy_and_buffer( a3, b3 ) + lazy_and_buffer( a4, b4 ) + lazy_and_buffer( a5, b5 );
   }

   inline std::size_t all_pos( In_lf& a, In_cr& b, In_crlf& c, In_lf_crlf& d, In_cr_crlf& e )
   {
      return combinators( a ) + combinators( b ) + combinators( c ) + combinators( d ) + combinators( e ) + all_rules( a ) + all_rules( b ) + all_rules( c ) + all_rules( d ) + all_rules( e ) + input_ops( a ) + input_ops( b ) + input_ops( c ) + input_ops( d ) + input_ops( e ) + rematches( d ) + line_ops( a ) + line_ops( b ) + line_ops( c ) + line_ops( d ) + line_ops( e );
   }
}  // namespace vu::pos
