// Universe: the shipped grammars as data.  vu::touch names the root rules; cfgx records the facts of every class reachable
// through bases and template arguments, i.e. the complete type graph of each grammar.
#include "vu.hpp"

#include <tao/pegtl/contrib/abnf.hpp>
#include <tao/pegtl/contrib/http.hpp>
#include <tao/pegtl/contrib/integer.hpp>
#include <tao/pegtl/contrib/json.hpp>
#include <tao/pegtl/contrib/rep_one_min_max.hpp>
#include <tao/pegtl/contrib/rep_string.hpp>
#include <tao/pegtl/contrib/uri.hpp>

namespace vu
{
   template< typename... T > constexpr std::size_t touch() { return ( sizeof( T ) + ... + 0 ); }

   template< typename... R >
   bool match_all( In& in )
   {
      // instantiating the match functions completes every rule class reachable from the roots
      return ( use< R, apply_mode::action, rewind_mode::required >( in ) && ... );
   }

   inline std::size_t all_grammars( In& in )
   {
      using namespace tao::pegtl;
      (void)match_all< json::text, uri::URI, uri::URI_reference, uri::absolute_URI, uri::IPv4address, uri::IPv6address, unsigned_rule_new, signed_rule_new, signed_rule_bis, signed_rule_ter,
                       unsigned_rule_old, signed_rule_old, eolf, identifier, keyword< 'i', 'f' >, shebang, two< 'x' >, three< 'x' >, forty_two< 'x' >, everything, ellipsis, rep_string< 3, 'a', 'b' >,
                       rep_one_min_max< 1, 3, 'x' >, rep_one_min_max< 0, 2, 'x' >, abnf::LWSP, abnf::CRLF >( in );
      return touch< json::text, uri::URI, uri::URI_reference, uri::absolute_URI, uri::IPv4address, uri::IPv6address,
                    unsigned_rule_new, signed_rule_new, signed_rule_bis, signed_rule_ter, unsigned_rule_old, signed_rule_old,
                    eolf, identifier, keyword< 'i', 'f' >, shebang, two< 'x' >, three< 'x' >, forty_two< 'x' >, ranges< 'a', 'z', 'A', 'Z', '_' >, everything, ellipsis,
                    rep_string< 3, 'a', 'b' >, rep_one_min_max< 1, 3, 'x' >, rep_one_min_max< 0, 2, 'x' >, alnum, alpha, blank, digit, lower, upper, print, space, xdigit, odigit, seven, nul,
                    identifier_first, identifier_other, eol, eof, any, string< 'a', 'b', 'c' >, istring< 'a', '1', 'c' >,
                    abnf::ALPHA, abnf::BIT, abnf::CHAR, abnf::CR, abnf::CRLF, abnf::CTL, abnf::DIGIT, abnf::DQUOTE, abnf::HEXDIG, abnf::HTAB, abnf::LF, abnf::LWSP, abnf::OCTET, abnf::SP, abnf::VCHAR, abnf::WSP >();
   }
}  // namespace vu
