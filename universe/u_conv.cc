// Universe: convenience rules at the byte level together with their documented expansions (C09, byte-level part).
// eqv< R, E > names a pair: the type graph of R must have the same meaning as the documented expansion E.
#include "vu.hpp"

#include <tao/pegtl/contrib/rep_one_min_max.hpp>
#include <tao/pegtl/contrib/rep_string.hpp>

namespace vu
{
   template< typename... T > constexpr std::size_t touch() { return ( sizeof( T ) + ... + 0 ); }   // cfgx records the facts of these classes
}

namespace vu::conv
{
   using namespace tao::pegtl;
   template< typename R, typename E > struct eqv { R r; E e; };   // members force complete types: cfgx records the facts of R, E and everything below

   template< typename... P >
   struct pairs
   {
      template< typename R >
      static bool m( In& in )
      {
         return normal< R >::template match< apply_mode::action, rewind_mode::required, nothing, normal >( in );
      }
      template< typename R, typename E >
      static std::size_t one_pair( In& in, const eqv< R, E >* )
      {
         return std::size_t( m< R >( in ) ) + std::size_t( m< E >( in ) );      // instantiates (completes) every rule below R and E
      }
      static std::size_t all( In& in )
      {
         return vu::touch< P... >() + ( one_pair( in, static_cast< const P* >( nullptr ) ) + ... );
      }
   };

   inline std::size_t all_conv( In& in )
   {
      return pairs<
         eqv< eolf, sor< eof, eol > >,
         eqv< everything, until< eof, any > >,
         eqv< identifier_first, ranges< 'a', 'z', 'A', 'Z', '_' > >,
         eqv< identifier_other, ranges< 'a', 'z', 'A', 'Z', '0', '9', '_' > >,
         eqv< identifier, seq< identifier_first, star< identifier_other > > >,
         eqv< keyword< 'i', 'f' >, seq< string< 'i', 'f' >, not_at< identifier_other > > >,
         eqv< keyword< 'x' >, seq< string< 'x' >, not_at< identifier_other > > >,
         eqv< shebang, if_must< string< '#', '!' >, until< eolf > > >,
         eqv< two< 'a' >, string< 'a', 'a' > >,
         eqv< three< '\n' >, string< '\n', '\n', '\n' > >,
         eqv< forty_two< 'a', 'b' >, rep< 42, one< 'a', 'b' > > >,
         eqv< string< 'a', 'b', 'c' >, seq< one< 'a' >, one< 'b' >, one< 'c' > > >,
         eqv< string< 'a' >, seq< one< 'a' > > >,
         eqv< string< 'a', '\0', 'b' >, seq< one< 'a' >, one< '\0' >, one< 'b' > > >,      // a literal is a sequence of bytes, not a C string
         eqv< two< '\0' >, string< '\0', '\0' > >,
         eqv< ranges< 'a', 'f', '0', '9' >, sor< range< 'a', 'f' >, range< '0', '9' > > >,
         eqv< ranges< 'a', 'f', '0', '9', '_' >, sor< range< 'a', 'f' >, range< '0', '9' >, one< '_' > > >,
         eqv< rep_string< 3, 'a', 'b' >, rep< 3, string< 'a', 'b' > > >,
         eqv< rep_string< 0, 'a' >, rep< 0, string< 'a' > > >,
         eqv< rep_one_min_max< 1, 3, 'x' >, rep_min_max< 1, 3, one< 'x' > > >,
         eqv< rep_one_min_max< 0, 2, 'x' >, rep_min_max< 0, 2, one< 'x' > > >,
         eqv< rep_one_min_max< 2, 2, 'x' >, rep_min_max< 2, 2, one< 'x' > > >,
         eqv< ellipsis, string< '.', '.', '.' > > >::all( in );
   }
}  // namespace vu::conv
