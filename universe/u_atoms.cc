// Universe: atoms and peeks over every input family and every end-of-line policy.
#include "vu.hpp"

#include <tao/pegtl/contrib/integer.hpp>
#include <tao/pegtl/contrib/predicates.hpp>
#include <tao/pegtl/contrib/rep_one_min_max.hpp>
#include <tao/pegtl/contrib/uint16.hpp>
#include <tao/pegtl/contrib/uint32.hpp>
#include <tao/pegtl/contrib/uint64.hpp>
#include <tao/pegtl/contrib/uint8.hpp>
#include <tao/pegtl/contrib/utf16.hpp>
#include <tao/pegtl/contrib/utf32.hpp>

namespace vu
{
   namespace I = tao::pegtl::internal;

   template< typename R, typename Input >
   bool m1( Input& in )
   {
      return normal< R >::template match< apply_mode::action, rewind_mode::required, nothing, normal >( in );
   }

   template< typename Input >
   bool byte_atoms( Input& in )
   {
      bool r = m1< I::one< I::result_on_found::success, I::peek_char, 'a', 'b' > >( in );
      r = m1< I::one< I::result_on_found::failure, I::peek_char, 'a' > >( in ) && r;
      r = m1< I::range< I::result_on_found::success, I::peek_char, 'a', 'z' > >( in ) && r;
      r = m1< I::range< I::result_on_found::failure, I::peek_char, 'a', 'z' > >( in ) && r;
      r = m1< I::ranges< I::peek_char, 'a', 'z', 'A', 'Z', '_' > >( in ) && r;
      r = m1< I::any< I::peek_char > >( in ) && r;
      r = m1< I::string< 'a', 'b', 'c' > >( in ) && r;
      r = m1< I::string< 'a' > >( in ) && r;
      r = m1< I::istring< 'a', '1', 'c' > >( in ) && r;
      r = m1< I::bytes< 3 > >( in ) && r;
      r = m1< I::bytes< 1 > >( in ) && r;
      r = m1< I::eof >( in ) && r;
      r = m1< I::eol >( in ) && r;
      r = m1< I::eolf >( in ) && r;
      if constexpr( Input::tracking_mode_v == tracking_mode::eager ) {
         r = m1< I::bol >( in ) && r;   // bol needs column(), which lazy inputs do not have
      }
      r = m1< I::everything< std::size_t > >( in ) && r;
      r = m1< I::require< 3 > >( in ) && r;
      r = m1< I::rep_one_min_max< 1, 3, 'x' > >( in ) && r;
      r = m1< I::rep_one_min_max< 0, 3, 'x' > >( in ) && r;
      r = m1< I::predicates< I::predicates_and_test, I::peek_char, I::range< I::result_on_found::success, I::peek_char, 'a', 'z' >, I::one< I::result_on_found::failure, I::peek_char, 'q' > > >( in ) && r;
      r = m1< unsigned_rule >( in ) && r;
      r = m1< maximum_rule< unsigned char > >( in ) && r;
      r = m1< maximum_rule< unsigned long, 1000 > >( in ) && r;
      r = m1< signed_rule >( in ) && r;
      r = m1< tao::pegtl::identifier >( in ) && r;
      r = m1< tao::pegtl::keyword< 'i', 'f' > >( in ) && r;
      r = m1< tao::pegtl::shebang >( in ) && r;
      r = m1< I::until< I::eol > >( in ) && r;
      r = m1< I::until< I::at< I::eolf > > >( in ) && r;
      return r;
   }

   template< typename Peek, typename Peek::data_t A, typename Peek::data_t B, typename Input >
   bool peek_atoms( Input& in )
   {
      bool r = m1< I::any< Peek > >( in );
      r = m1< I::one< I::result_on_found::success, Peek, A, B > >( in ) && r;
      r = m1< I::one< I::result_on_found::failure, Peek, A > >( in ) && r;
      r = m1< I::range< I::result_on_found::success, Peek, A, B > >( in ) && r;
      r = m1< I::range< I::result_on_found::failure, Peek, A, B > >( in ) && r;
      r = m1< I::ranges< Peek, A, B, A > >( in ) && r;
      const auto t = Peek::peek( in );
      return r && bool( t );
   }

   template< typename Input >
   bool wide_atoms( Input& in )
   {
      bool r = peek_atoms< I::peek_utf8, U'ä', U'\U00010000' >( in );
      r = peek_atoms< I::peek_utf16_be, U'ä', U'\U00010000' >( in ) && r;
      r = peek_atoms< I::peek_utf16_le, U'ä', U'\U00010000' >( in ) && r;
      r = peek_atoms< I::peek_utf32_be, U'ä', U'\U00010000' >( in ) && r;
      r = peek_atoms< I::peek_utf32_le, U'ä', U'\U00010000' >( in ) && r;
      r = peek_atoms< I::peek_uint8, 1, 200 >( in ) && r;
      r = peek_atoms< I::peek_mask_uint8< 0x0f >, 1, 9 >( in ) && r;
      r = peek_atoms< I::peek_uint16_be, 1, 60000 >( in ) && r;
      r = peek_atoms< I::peek_uint16_le, 1, 60000 >( in ) && r;
      r = peek_atoms< I::peek_mask_uint16_be< 0x0ff0 >, 0x10, 0xff0 >( in ) && r;
      r = peek_atoms< I::peek_mask_uint16_le< 0x0ff0 >, 0x10, 0xff0 >( in ) && r;
      r = peek_atoms< I::peek_uint32_be, 1, 4000000000u >( in ) && r;
      r = peek_atoms< I::peek_uint32_le, 1, 4000000000u >( in ) && r;
      r = peek_atoms< I::peek_mask_uint32_be< 0x00ffff00u >, 0x100, 0xffff00 >( in ) && r;
      r = peek_atoms< I::peek_mask_uint32_le< 0x00ffff00u >, 0x100, 0xffff00 >( in ) && r;
      r = peek_atoms< I::peek_uint64_be, 1, 0xffffffffffffff00ull >( in ) && r;
      r = peek_atoms< I::peek_uint64_le, 1, 0xffffffffffffff00ull >( in ) && r;
      r = peek_atoms< I::peek_mask_uint64_be< 0x00ffffffffffff00ull >, 0x100, 0xffffffffffff00ull >( in ) && r;
      r = peek_atoms< I::peek_mask_uint64_le< 0x00ffffffffffff00ull >, 0x100, 0xffffffffffff00ull >( in ) && r;
      r = m1< utf8::bom >( in ) && r;
      r = m1< utf16_be::bom >( in ) && r;
      r = m1< utf32_le::bom >( in ) && r;
      r = m1< utf16_le::string< U'a', U'\U00010000' > >( in ) && r;
      r = m1< utf32_be::string< U'a', U'\U00010000' > >( in ) && r;
      r = m1< uint16_be::string< 1, 2 > >( in ) && r;
      r = m1< uint32_le::mask_string< 0xff, 1, 2 > >( in ) && r;
      return r;
   }

   template< typename Eol >
   bool eol_atoms()
   {
      memory_input< tracking_mode::eager, Eol >* e = nullptr;
      memory_input< tracking_mode::lazy, Eol >* l = nullptr;
      buffer_input< Reader, Eol >* b = nullptr;
      bool r = m1< I::eol >( *e ) && m1< I::eolf >( *e ) && m1< I::until< I::eol > >( *e ) && m1< I::bol >( *e ) && m1< I::any< I::peek_char > >( *e );
      r = m1< I::eol >( *l ) && m1< I::eolf >( *l ) && r;
      r = m1< I::eol >( *b ) && m1< I::eolf >( *b ) && r;
      r = bool( Eol::eol_match( *e ) ) && r;
      return r;
   }

   inline bool all_atoms( In& in, InLazy& lz, InBuf& bin )
   {
      bool r = true;
#if VU_PART == 1
      r = byte_atoms( in ) && r;
      r = byte_atoms( bin ) && r;
      r = byte_atoms( lz ) && r;
#endif
#if VU_PART == 2
      r = wide_atoms( in ) && r;
#endif
#if VU_PART == 3
      r = wide_atoms( bin ) && r;
      r = eol_atoms< eol::lf >() && r;
      r = eol_atoms< eol::cr >() && r;
      r = eol_atoms< eol::crlf >() && r;
      r = eol_atoms< eol::lf_crlf >() && r;
      r = eol_atoms< eol::cr_crlf >() && r;
#endif
      return r;
   }

}  // namespace vu
