// Compile-time witnesses for demangle< T >() (C05: "the error names exactly the failing rule"; the default message is
// "parse error matching " + demangle< Rule >()).  Checked with -fsyntax-only by the compiler of the build (g++) and by clang:
// a violated witness is a failed static_assert whose message names the witness.  The names contain the characters the
// implementations search for in __PRETTY_FUNCTION__ ( '=' ';' ']' '>' ) inside character literals.
#include <string_view>

#include <tao/pegtl.hpp>

namespace w
{
   using namespace tao::pegtl;
   struct my_rule : seq< one< ';' >, one< '=' > > {};
   constexpr bool eq( const std::string_view a, const std::string_view b ) { return a == b; }

#if defined( __clang__ )
#define W( Name, Type, Clang, Gcc ) static_assert( eq( demangle< Type >(), Clang ), "WITNESS " Name );
#else
#define W( Name, Type, Clang, Gcc ) static_assert( eq( demangle< Type >(), Gcc ), "WITNESS " Name );
#endif
#define COMMA ,

   // spelling-independent form: the name of wrap< T > is "w::wrap<" + the name of T + ">" (g++ writes " >" after a template argument list)
   template< typename T > struct wrap {};
   constexpr bool comp( const std::string_view whole, const std::string_view part )
   {
      return ( whole.size() > 8 + part.size() ) && ( whole.substr( 0, 8 ) == "w::wrap<" ) && ( whole.substr( 8, part.size() ) == part ) && ( ( whole.substr( 8 + part.size() ) == ">" ) || ( whole.substr( 8 + part.size() ) == " >" ) );
   }
#define WC( Name, Type ) static_assert( comp( demangle< wrap< Type > >(), demangle< Type >() ), "WITNESS " Name );

   W( "int", int, "int", "int" )
   W( "user-rule", my_rule, "w::my_rule", "w::my_rule" )
   W( "one-semicolon", one< ';' >, "tao::pegtl::one<';'>", "tao::pegtl::ascii::one<';'>" )
   W( "one-equals-semicolon", one< '=' COMMA ';' >, "tao::pegtl::one<'=', ';'>", "tao::pegtl::ascii::one<'=', ';'>" )
   W( "string-semicolons", string< ';' COMMA ';' >, "tao::pegtl::string<';', ';'>", "tao::pegtl::ascii::string<';', ';'>" )
   W( "seq-brackets", seq< one< '>' > COMMA one< ']' > >, "tao::pegtl::seq<tao::pegtl::one<'>'>, tao::pegtl::one<']'>>", "tao::pegtl::seq<tao::pegtl::ascii::one<'>'>, tao::pegtl::ascii::one<']'> >" )
   W( "must-semicolon", internal::must< one< ';' > >, "tao::pegtl::internal::must<tao::pegtl::one<';'>>", "tao::pegtl::internal::must<tao::pegtl::ascii::one<';'> >" )
   W( "nested-equals", seq< string< '=' COMMA '=' > COMMA my_rule >, "tao::pegtl::seq<tao::pegtl::string<'=', '='>, w::my_rule>", "tao::pegtl::seq<tao::pegtl::ascii::string<'=', '='>, w::my_rule>" )
   WC( "comp-int", int )
   WC( "comp-user-rule", my_rule )
   WC( "comp-one-semicolon", one< ';' > )
   WC( "comp-one-equals-semicolon", one< '=' COMMA ';' > )
   WC( "comp-string-semicolons", string< ';' COMMA ';' > )
   WC( "comp-seq-brackets", seq< one< '>' > COMMA one< ']' > > )
   WC( "comp-must-semicolon", internal::must< one< ';' > > )
}  // namespace w
