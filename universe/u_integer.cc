// Universe: the integer conversion helpers for every integer type and a list of maxima around powers of ten (RANGE),
// and the integer rules/scanners (SCAN).
#include "vu.hpp"

#include <tao/pegtl/contrib/integer.hpp>

namespace vu
{
   namespace I = tao::pegtl::internal;

   template< typename T, T... Ms >
   bool acc_all( T& r, const char c )
   {
      return ( I::accumulate_digit< T, Ms >( r, c ) && ... );
   }

   template< typename R, typename Input >
   bool m1( Input& in )
   {
      return normal< R >::template match< apply_mode::action, rewind_mode::required, nothing, normal >( in );
   }

   inline bool all_integer( In& in, const std::string_view sv, const In::action_t& ai )
   {
      bool r = true;
      {
         std::uint8_t u8 = 0; std::uint16_t u16 = 0; std::uint32_t u32 = 0; std::uint64_t u64 = 0;
         std::int8_t i8 = 0; std::int16_t i16 = 0; std::int32_t i32 = 0; std::int64_t i64 = 0;
         r = acc_all< std::uint8_t, 255, 128, 127, 100, 99, 10, 9, 1, 0 >( u8, 'x' ) && r;
         r = acc_all< std::uint16_t, 65535, 32768, 32767, 10000, 9999, 1000, 999, 256, 255 >( u16, 'x' ) && r;
         r = acc_all< std::uint32_t, 4294967295u, 2147483648u, 2147483647u, 1000000000u, 999999999u, 65536u, 65535u, 1000u >( u32, 'x' ) && r;
         r = acc_all< std::uint64_t, 18446744073709551615ull, 9223372036854775808ull, 9223372036854775807ull, 10000000000000000000ull, 9999999999999999999ull, 4294967296ull, 4294967295ull >( u64, 'x' ) && r;
         r = acc_all< std::int8_t, 127, 100, 99, 9 >( i8, 'x' ) && r;
         r = acc_all< std::int16_t, 32767, 10000, 9999 >( i16, 'x' ) && r;
         r = acc_all< std::int32_t, 2147483647, 1000000000, 999999999 >( i32, 'x' ) && r;
         r = acc_all< std::int64_t, 9223372036854775807ll, 1000000000000000000ll >( i64, 'x' ) && r;
         r = I::convert_unsigned( u8, sv ) && I::convert_unsigned( u16, sv ) && I::convert_unsigned( u32, sv ) && I::convert_unsigned( u64, sv ) && r;
         r = I::convert_positive( i8, sv ) && I::convert_positive( i16, sv ) && I::convert_positive( i32, sv ) && I::convert_positive( i64, sv ) && r;
         r = I::convert_negative( i8, sv ) && I::convert_negative( i16, sv ) && I::convert_negative( i32, sv ) && I::convert_negative( i64, sv ) && r;
         r = I::convert_signed( i8, sv ) && I::convert_signed( i16, sv ) && I::convert_signed( i32, sv ) && I::convert_signed( i64, sv ) && r;
         unsigned_action::apply( ai, u8 ); unsigned_action::apply( ai, u16 ); unsigned_action::apply( ai, u32 ); unsigned_action::apply( ai, u64 );
         signed_action::apply( ai, i8 ); signed_action::apply( ai, i16 ); signed_action::apply( ai, i32 ); signed_action::apply( ai, i64 );
         maximum_action< std::uint8_t, 100 >::apply( ai, u8 ); maximum_action< std::uint32_t, 1000 >::apply( ai, u32 );
         // scanners with a state
         r = unsigned_rule_with_action::match< apply_mode::action, rewind_mode::required, nothing, normal >( in, u8 ) && r;
         r = unsigned_rule_with_action::match< apply_mode::action, rewind_mode::required, nothing, normal >( in, u32 ) && r;
         r = unsigned_rule_with_action::match< apply_mode::action, rewind_mode::required, nothing, normal >( in, u64 ) && r;
         r = unsigned_rule_with_action::match< apply_mode::nothing, rewind_mode::required, nothing, normal >( in ) && r;
         r = maximum_rule_with_action< std::uint8_t >::match< apply_mode::action, rewind_mode::required, nothing, normal >( in, u8 ) && r;
         r = maximum_rule_with_action< std::uint16_t, 1000 >::match< apply_mode::action, rewind_mode::required, nothing, normal >( in, u16 ) && r;
         r = maximum_rule_with_action< std::uint8_t >::match< apply_mode::nothing, rewind_mode::required, nothing, normal >( in ) && r;
         r = maximum_rule_with_action< std::uint16_t, 1000 >::match< apply_mode::nothing, rewind_mode::required, nothing, normal >( in ) && r;      // an explicit maximum below the type's, actions disabled
         r = maximum_rule_with_action< std::uint32_t, 99 >::match< apply_mode::nothing, rewind_mode::required, nothing, normal >( in, u32 ) && r;
         r = signed_rule_with_action::match< apply_mode::action, rewind_mode::required, nothing, normal >( in, i8 ) && r;
         r = signed_rule_with_action::match< apply_mode::action, rewind_mode::required, nothing, normal >( in, i32 ) && r;
         r = signed_rule_with_action::match< apply_mode::nothing, rewind_mode::required, nothing, normal >( in ) && r;
      }
      r = m1< unsigned_rule >( in ) && r;
      r = m1< signed_rule >( in ) && r;
      r = m1< maximum_rule< std::uint8_t > >( in ) && r;
      r = m1< maximum_rule< std::uint16_t > >( in ) && r;
      r = m1< maximum_rule< std::uint32_t > >( in ) && r;
      r = m1< maximum_rule< std::uint64_t > >( in ) && r;
      r = m1< maximum_rule< std::uint32_t, 1000 > >( in ) && r;
      r = m1< maximum_rule< std::uint8_t, 99 > >( in ) && r;
      r = m1< unsigned_rule_new >( in ) && r;
      r = m1< signed_rule_new >( in ) && r;
      r = m1< signed_rule_bis >( in ) && r;
      r = m1< signed_rule_ter >( in ) && r;
      r = m1< unsigned_rule_old >( in ) && r;
      r = m1< signed_rule_old >( in ) && r;
      return r;
   }
}  // namespace vu
