// Universe: every rule template of the library instantiated over opaque placeholder sub-rules,
// in all four (apply_mode, rewind_mode) combinations, by ODR-use.
#include "vu.hpp"

#ifndef VU_PART
#error "define VU_PART=1..6"
#endif

#include <tao/pegtl/contrib/add_state.hpp>
#include <tao/pegtl/contrib/check_bytes.hpp>
#include <tao/pegtl/contrib/control_action.hpp>
#include <tao/pegtl/contrib/function.hpp>
#include <tao/pegtl/contrib/http.hpp>
#include <tao/pegtl/contrib/if_then.hpp>
#include <tao/pegtl/contrib/input_with_depth.hpp>
#include <tao/pegtl/contrib/instantiate.hpp>
#include <tao/pegtl/contrib/integer.hpp>
#include <tao/pegtl/contrib/limit_bytes.hpp>
#include <tao/pegtl/contrib/limit_depth.hpp>
#include <tao/pegtl/contrib/predicates.hpp>
#include <tao/pegtl/contrib/raw_string.hpp>
#include <tao/pegtl/contrib/rep_one_min_max.hpp>
#include <tao/pegtl/contrib/rep_string.hpp>
#include <tao/pegtl/contrib/separated_seq.hpp>
#include <tao/pegtl/contrib/trace.hpp>

namespace vu
{
   namespace I = tao::pegtl::internal;

   // ---- rule types ----
   // clang-format off
   using r_seq1 = I::seq< P1 >;
   using r_seq2 = I::seq< P1, P2 >;
   using r_seq3 = I::seq< P1, P2, P3 >;
   using r_sor1 = I::sor< P1 >;
   using r_sor2 = I::sor< P1, P2 >;
   using r_sor3 = I::sor< P1, P2, P3 >;
   using r_star1 = I::star< P1 >;
   using r_star2 = I::star< P1, P2 >;
   using r_starp1 = I::star_partial< P1 >;
   using r_starp2 = I::star_partial< P1, P2 >;
   using r_plus1 = I::plus< P1 >;
   using r_plus2 = I::plus< P1, P2 >;
   using r_opt1 = I::opt< P1 >;
   using r_opt2 = I::opt< P1, P2 >;
   using r_part1 = I::partial< P1 >;
   using r_part2 = I::partial< P1, P2 >;
   using r_part3 = I::partial< P1, P2, P3 >;
   using r_at1 = I::at< P1 >;
   using r_at2 = I::at< P1, P2 >;
   using r_not_at1 = I::not_at< P1 >;
   using r_not_at2 = I::not_at< P1, P2 >;
   using r_until1 = I::until< P1 >;
   using r_until2 = I::until< P1, P2 >;
   using r_until3 = I::until< P1, P2, P3 >;
   using r_rep0 = I::rep< 0, P1 >;
   using r_rep1 = I::rep< 1, P1 >;
   using r_rep3 = I::rep< 3, P1 >;
   using r_rep2_2 = I::rep< 2, P1, P2 >;
   using r_rmm00 = I::rep_min_max< 0, 0, P1 >;
   using r_rmm02 = I::rep_min_max< 0, 2, P1 >;
   using r_rmm13 = I::rep_min_max< 1, 3, P1 >;
   using r_rmm22 = I::rep_min_max< 2, 2, P1 >;
   using r_rmm24_2 = I::rep_min_max< 2, 4, P1, P2 >;
   using r_rmin0 = I::rep_min< 0, P1 >;
   using r_rmin2 = I::rep_min< 2, P1 >;
   using r_rmin2_2 = I::rep_min< 2, P1, P2 >;
   using r_ropt0 = I::rep_opt< 0, P1, P2 >;  // rep_opt< 0, R > with a single rule is an ambiguous specialisation (does not compile)
   using r_ropt2 = I::rep_opt< 2, P1 >;
   using r_ropt3_2 = I::rep_opt< 3, P1, P2 >;
   using r_ite = I::if_then_else< P1, P2, P3 >;
   using r_strict1 = I::strict< P1 >;
   using r_strict2 = I::strict< P1, P2 >;
   using r_strict3 = I::strict< P1, P2, P3 >;
   using r_sstrict1 = I::star_strict< P1 >;
   using r_sstrict2 = I::star_strict< P1, P2 >;
   using r_rematch1 = I::rematch< P1 >;
   using r_rematch2 = I::rematch< P1, P2 >;
   using r_rematch3 = I::rematch< P1, P2, P3 >;
   using r_tcrf = I::try_catch_return_false< Ex, P1 >;
   using r_tcrf2 = I::try_catch_return_false< Ex, P1, P2 >;
   using r_tcrfv = I::try_catch_return_false< void, P1 >;
   using r_tcrfv2 = I::try_catch_return_false< void, P1, P2 >;
   using r_tcrn = I::try_catch_raise_nested< Ex, P1 >;
   using r_tcrn2 = I::try_catch_raise_nested< Ex, P1, P2 >;
   using r_tcrnv = I::try_catch_raise_nested< void, P1 >;
   using r_tcrnv2 = I::try_catch_raise_nested< void, P1, P2 >;
   using r_must1 = I::must< P1 >;
   using r_must2 = I::must< P1, P2 >;
   using r_ifmust_f = I::if_must< false, P1, P2 >;
   using r_ifmust_f3 = I::if_must< false, P1, P2, P3 >;
   using r_ifmust_t = I::if_must< true, P1, P2 >;
   using r_ifmust_t3 = I::if_must< true, P1, P2, P3 >;
   using r_ifmustelse = I::if_must_else< P1, P2, P3 >;
   using r_raise = I::raise< P1 >;
   using r_starmust = I::star_must< P1, P2 >;
   using r_list = I::list< P1, P2 >;
   using r_listmust = I::list_must< P1, P2 >;
   using r_listtail = I::list_tail< P1, P2 >;
   using r_listtailpad = I::list_tail_pad< P1, P2, P3 >;
   using r_minus = I::minus< P1, P2 >;
   using r_pad = I::pad< P1, P2, P3 >;
   using r_padopt = I::pad_opt< P1, P2 >;
   using r_state = I::state< St, P1 >;
   using r_state2 = I::state< St, P1, P2 >;
   using r_state_d = I::state< St2, P1 >;   // default-constructed state
   using r_action = I::action< nothing, P1 >;
   using r_action2 = I::action< nothing, P1, P2 >;
   // a second control, so that "switched to the new control" and "still the old one" are different things
   // (with a match of its own, declared only: entering a rule through this control is then a different function from entering it through normal; UC() below
   // instantiates the combinators with it as their control, so that a combinator which hands its operand to the wrong control is visible)
   template< typename R > struct other_ctl : normal< R >
   {
      template< apply_mode A, rewind_mode M, template< typename... > class Action, template< typename... > class Control, typename ParseInput, typename... States >
      [[nodiscard]] static bool match( ParseInput& in, States&&... st );
   };
   using r_control = I::control< normal, P1 >;
   using r_control3 = I::control< other_ctl, P1 >;
   using r_control4 = I::control< other_ctl, P1, P2 >;
   using r_control2 = I::control< normal, P1, P2 >;
   using r_enable = I::enable< P1 >;
   using r_enable2 = I::enable< P1, P2 >;
   using r_disable = I::disable< P1 >;
   using r_disable2 = I::disable< P1, P2 >;
   using r_ifthen = tao::pegtl::if_then< P1, P2 >;
   using r_ifthen2 = tao::pegtl::if_then< P1, P2 >::else_if_then< P3, P4 >;
   using r_ifthen3 = tao::pegtl::if_then< P1, P2 >::else_if_then< P3, P4 >::else_then< P5 >;
   using r_sepseq = tao::pegtl::separated_seq< P1, P2, P3, P4 >;

   struct A1 { template< typename AI, typename... S > static void apply( const AI&, S&&... ); };
   struct A2 { template< typename AI, typename... S > static bool apply( const AI&, S&&... ); };
   struct A01 { template< typename... S > static void apply0( S&&... ); };
   struct A02 { template< typename... S > static bool apply0( S&&... ); };
   using r_apply = I::apply< A1, A2 >;
   using r_apply0 = I::apply0< A01, A02 >;
   using r_ifapply = I::if_apply< P1, A1, A2 >;
   using r_ifapply0 = I::if_apply< P1 >;

   using r_raw = raw_string< '[', '=', ']' >;
   using r_rawc = raw_string< '[', '=', ']', P1 >;
   using r_rawc2 = raw_string< '[', '=', ']', P1, P2 >;

   // atoms
   using r_one = I::one< I::result_on_found::success, I::peek_char, 'a', 'b' >;
   using r_one1 = I::one< I::result_on_found::success, I::peek_char, '\n' >;
   using r_notone = I::one< I::result_on_found::failure, I::peek_char, 'a' >;
   using r_range = I::range< I::result_on_found::success, I::peek_char, 'a', 'z' >;
   using r_notrange = I::range< I::result_on_found::failure, I::peek_char, 'a', 'z' >;
   using r_ranges = I::ranges< I::peek_char, 'a', 'z', 'A', 'Z', '_' >;
   using r_ranges2 = I::ranges< I::peek_char, 'a', 'z' >;
   using r_any = I::any< I::peek_char >;
   using r_anyu = I::any< I::peek_utf8 >;
   using r_oneu = I::one< I::result_on_found::success, I::peek_utf8, U'ä', U'€' >;
   using r_notoneu = I::one< I::result_on_found::failure, I::peek_utf8, U'ä' >;
   using r_rangeu = I::range< I::result_on_found::success, I::peek_utf8, U'ä', U'\U00010000' >;
   using r_rangesu = I::ranges< I::peek_utf8, U'a', U'z', U'ä', U'€', U'_' >;
   using r_bom = utf8::bom;
   using r_string0 = I::string<>;
   using r_string1 = I::string< 'a' >;
   using r_string3 = I::string< 'a', 'b', 'c' >;
   using r_string5 = I::string< 'a', '\n', 'c', 'd', 'e' >;
   using r_istring1 = I::istring< 'a' >;
   using r_istring3 = I::istring< 'a', '1', 'c' >;
   using r_bytes0 = I::bytes< 0 >;
   using r_bytes1 = I::bytes< 1 >;
   using r_bytes3 = I::bytes< 3 >;
   using r_eof = I::eof;
   using r_eol = I::eol;
   using r_eolf = I::eolf;
   using r_bof = I::bof;
   using r_bol = I::bol;
   using r_everything = I::everything< std::size_t >;
   using r_discard = I::discard;
   using r_require0 = I::require< 0 >;
   using r_require3 = I::require< 3 >;
   using r_success = I::success;
   using r_failure = I::failure;
   using r_identifier = tao::pegtl::identifier;
   using r_keyword = tao::pegtl::keyword< 'i', 'f' >;
   using r_shebang = tao::pegtl::shebang;
   using r_two = tao::pegtl::two< 'x' >;
   using r_three = tao::pegtl::three< 'x' >;
   using r_forty_two = tao::pegtl::forty_two< 'x' >;
   using r_r1mm13 = I::rep_one_min_max< 1, 3, 'x' >;
   using r_r1mm03 = I::rep_one_min_max< 0, 3, 'x' >;
   using r_r1mm00 = I::rep_one_min_max< 0, 0, 'x' >;
   using r_r1mm22 = I::rep_one_min_max< 2, 2, '\n' >;
   using r_repstring = tao::pegtl::rep_string< 2, 'a', 'b' >;
   using r_pred_and = I::predicates< I::predicates_and_test, I::peek_char, r_range, r_notone >;
   using r_pred_or = I::predicates< I::predicates_or_test, I::peek_char, r_range, r_one >;
   using r_pred_not = I::predicates< I::predicate_not_test, I::peek_char, r_range >;
   using r_pred_andu = I::predicates< I::predicates_and_test, I::peek_utf8, r_rangeu, r_notoneu >;
   using r_unsigned = unsigned_rule;
   using r_signed = signed_rule;
   using r_maximum8 = maximum_rule< unsigned char >;
   using r_maximum32 = maximum_rule< unsigned, 1000 >;
   using r_unsigned_wa = unsigned_rule_with_action;
   using r_maximum_wa = maximum_rule_with_action< unsigned char >;
   using r_signed_wa = signed_rule_with_action;
   // clang-format on

   bool fn_rule( In& in );
   bool fn_rule_st( In& in, St& st );
   using r_function = tao::pegtl::function< fn_rule >;

   // ---- action classes with their own match() (reached through normal<Rule>::match) ----
   struct R_cs : P1 {};     // change_state
   struct R_cs_d : P1 {};   // change_state, default-constructed state
   struct R_cas_d : P1 {};  // change_action_and_state, default-constructed state
   struct R_css : P1 {};    // change_states
   struct R_ca : P1 {};     // change_action
   struct R_cas : P1 {};    // change_action_and_state
   struct R_cass : P1 {};   // change_action_and_states
   struct R_cc : P1 {};     // change_control
   struct R_cc2 : P1 {};    // change_control to a control other than the current one
   struct R_da : P1 {};     // disable_action
   struct R_ea : P1 {};     // enable_action
   struct R_di : P1 {};     // discard_input
   struct R_dis : P1 {};    // discard_input_on_success
   struct R_dif : P1 {};    // discard_input_on_failure
   struct R_as : P1 {};     // add_state
   struct R_as2 : P1 {};    // add_state (default constructed)
   struct R_inst : P1 {};   // instantiate
   struct R_lb : P1 {};     // limit_bytes
   struct R_ld : P1 {};     // limit_depth
   struct R_tr : P1 {};     // trace (action that switches to state_control< Control > and appends a tracer)
   struct R_cb : P1 {};     // check_bytes
   struct R_cact : P1 {};   // control_action (with unwind)
   struct R_cact0 : P1 {};  // control_action (without unwind)

   template< typename R > struct act2 : nothing< R > {};
   template< typename R > struct act : nothing< R > {};
   template<> struct act< R_cs > : change_state< St > {};
   template<> struct act< R_cs_d > : change_state< St2 > {};
   template<> struct act< R_cas_d > : change_action_and_state< act2, St2 > {};
   template<> struct act< R_css > : change_states< St, St2 > { template< typename I, typename... S > static void success( const I&, S&&... ); };
   template<> struct act< R_ca > : change_action< act2 > {};
   template<> struct act< R_cas > : change_action_and_state< act2, St > {};
   template<> struct act< R_cass > : change_action_and_states< act2, St, St2 > { template< typename I, typename... S > static void success( const I&, S&&... ); };
   template<> struct act< R_cc > : change_control< normal > {};
   template<> struct act< R_cc2 > : change_control< other_ctl > {};
   template<> struct act< R_da > : disable_action {};
   template<> struct act< R_ea > : enable_action {};
   template<> struct act< R_di > : discard_input {};
   template<> struct act< R_dis > : discard_input_on_success {};
   template<> struct act< R_dif > : discard_input_on_failure {};
   struct AddSt { template< typename I, typename... S > explicit AddSt( const I&, S&&... ); template< typename I, typename... S > void success( const I&, S&&... ); };
   struct AddSt2 { AddSt2() = default; template< typename I, typename... S > void success( const I&, S&&... ); };
   template<> struct act< R_as > : add_state< AddSt > {};
   template<> struct act< R_as2 > : add_state< AddSt2 > {};
   struct Inst { template< typename I, typename... S > explicit Inst( const I&, S&&... ); ~Inst(); };
   template<> struct act< R_inst > : instantiate< Inst > {};
   template<> struct act< R_lb > : limit_bytes< 5 > {};
   template<> struct act< R_ld > : limit_depth< 3 > {};
   template<> struct act< R_tr > : trace_standard {};
   template<> struct act< R_cb > : check_bytes< 5 > {};
   template<> struct act< R_cact > : control_action
   {
      template< typename I, typename... S > static void start( const I&, S&&... );
      template< typename I, typename... S > static void success( const I&, S&&... );
      template< typename I, typename... S > static void failure( const I&, S&&... );
      template< typename I, typename... S > static void unwind( const I&, S&&... );
   };
   template<> struct act< R_cact0 > : control_action {};

   using InDepth = input_with_depth< In >;

   // *_with_action integer rules: the state-taking overload exists only for apply_mode::action,
   // the state-less one only for apply_mode::nothing.
   template< typename R, typename Input, typename State >
   bool direct_wa( Input& in, State& st )
   {
      bool r = R::template match< apply_mode::action, rewind_mode::required, nothing, normal >( in, st );
      r = R::template match< apply_mode::action, rewind_mode::optional, nothing, normal >( in, st ) && r;
      r = R::template match< apply_mode::nothing, rewind_mode::required, nothing, normal >( in ) && r;
      r = R::template match< apply_mode::nothing, rewind_mode::optional, nothing, normal >( in ) && r;
      return r;
   }

   // Rule::match called directly with other_ctl as the control of the run, all four modes
   template< typename R, typename Input, typename... Args >
   bool directc4( Input& in, Args&&... args )
   {
      bool r = R::template match< apply_mode::action, rewind_mode::required, nothing, other_ctl >( in, args... );
      r = R::template match< apply_mode::action, rewind_mode::optional, nothing, other_ctl >( in, args... ) && r;
      r = R::template match< apply_mode::nothing, rewind_mode::required, nothing, other_ctl >( in, args... ) && r;
      r = R::template match< apply_mode::nothing, rewind_mode::optional, nothing, other_ctl >( in, args... ) && r;
      return r;
   }

#define U4( R ) r = use4< R >( in ) && r;
#define U4S( R ) r = use4< R >( in, st ) && r;
#define UC( R ) r = directc4< R >( in ) && r;

   inline bool all_rules( In& in, St& st, InBuf& bin, InDepth& din )
   {
      bool r = true;
#if VU_PART == 1
      U4( r_seq1 ) U4( r_seq2 ) U4( r_seq3 ) U4( r_sor1 ) U4( r_sor2 ) U4( r_sor3 )
      U4( r_star1 ) U4( r_star2 ) U4( r_starp1 ) U4( r_starp2 ) U4( r_plus1 ) U4( r_plus2 ) U4( r_opt1 ) U4( r_opt2 )
      U4( r_part1 ) U4( r_part2 ) U4( r_part3 ) U4( r_at1 ) U4( r_at2 ) U4( r_not_at1 ) U4( r_not_at2 )
      U4( r_until1 ) U4( r_until2 ) U4( r_until3 )
      U4( r_rep0 ) U4( r_rep1 ) U4( r_rep3 ) U4( r_rep2_2 )
      UC( r_seq2 ) UC( r_sor2 ) UC( r_star1 ) UC( r_plus1 ) UC( r_opt1 ) UC( r_at1 ) UC( r_at2 ) UC( r_not_at1 ) UC( r_not_at2 ) UC( r_until2 ) UC( r_rep3 )
#endif
#if VU_PART == 2
      U4( r_rmm00 ) U4( r_rmm02 ) U4( r_rmm13 ) U4( r_rmm22 ) U4( r_rmm24_2 )
      U4( r_rmin0 ) U4( r_rmin2 ) U4( r_rmin2_2 ) U4( r_ropt0 ) U4( r_ropt2 ) U4( r_ropt3_2 )
      UC( r_ite ) UC( r_rmm13 ) UC( r_rmin2 ) UC( r_ropt2 ) UC( r_strict2 )
      U4( r_ite ) U4( r_strict1 ) U4( r_strict2 ) U4( r_strict3 ) U4( r_sstrict1 ) U4( r_sstrict2 )
      U4( r_rematch1 ) U4( r_rematch2 ) U4( r_rematch3 )
      U4( r_tcrf ) U4( r_tcrf2 ) U4( r_tcrfv ) U4( r_tcrfv2 ) U4( r_tcrn ) U4( r_tcrn2 ) U4( r_tcrnv ) U4( r_tcrnv2 )
#endif
#if VU_PART == 3
      U4( r_must1 ) U4( r_must2 ) U4( r_ifmust_f ) U4( r_ifmust_f3 ) U4( r_ifmust_t ) U4( r_ifmust_t3 ) U4( r_ifmustelse )
      U4( r_raise ) U4( r_starmust ) U4( r_list ) U4( r_listmust ) U4( r_listtail ) U4( r_listtailpad )
      U4( r_minus ) U4( r_pad ) U4( r_padopt )
      // (not the must family: that a must<> never returns false is a fact about must::match, which an opaque control's match hides)
      UC( r_minus ) UC( r_enable ) UC( r_disable ) UC( r_action ) UC( r_state ) UC( r_tcrf ) UC( r_rematch2 )
      U4( r_state ) U4( r_state2 ) U4S( r_state ) U4( r_state_d ) U4S( r_state_d ) U4( r_action ) U4( r_action2 ) U4( r_control ) U4( r_control2 ) U4( r_control3 ) U4( r_control4 )
      U4( r_enable ) U4( r_enable2 ) U4( r_disable ) U4( r_disable2 )
      U4( r_ifthen ) U4( r_ifthen2 ) U4( r_ifthen3 ) U4( r_sepseq )
      U4( r_apply ) U4( r_apply0 ) U4( r_ifapply ) U4( r_ifapply0 ) U4S( r_apply ) U4S( r_apply0 ) U4S( r_ifapply )
#endif
#if VU_PART == 4
      U4( r_raw ) U4( r_rawc ) U4( r_rawc2 ) U4S( r_rawc )
#endif
#if VU_PART == 5
      // atoms
      U4( r_one ) U4( r_one1 ) U4( r_notone ) U4( r_range ) U4( r_notrange ) U4( r_ranges ) U4( r_ranges2 ) U4( r_any ) U4( r_anyu )
      U4( r_oneu ) U4( r_notoneu ) U4( r_rangeu ) U4( r_rangesu ) U4( r_bom )
      U4( r_string0 ) U4( r_string1 ) U4( r_string3 ) U4( r_string5 ) U4( r_istring1 ) U4( r_istring3 )
      U4( r_bytes0 ) U4( r_bytes1 ) U4( r_bytes3 ) U4( r_eof ) U4( r_eol ) U4( r_eolf ) U4( r_bof ) U4( r_bol )
      U4( r_everything ) U4( r_discard ) U4( r_require0 ) U4( r_require3 ) U4( r_success ) U4( r_failure )
      U4( r_identifier ) U4( r_keyword ) U4( r_shebang ) U4( r_two ) U4( r_three ) U4( r_forty_two )
      U4( r_r1mm13 ) U4( r_r1mm03 ) U4( r_r1mm00 ) U4( r_r1mm22 ) U4( r_repstring )
      U4( r_pred_and ) U4( r_pred_or ) U4( r_pred_not ) U4( r_pred_andu )
      U4( r_unsigned ) U4( r_signed ) U4( r_maximum8 ) U4( r_maximum32 )
      U4( r_function )
#endif
#if VU_PART == 4
      // rules with extra parameters
      {
         std::size_t ms = 0;
         r = direct4< I::raw_string_open< '[', '=' > >( in, ms ) && r;
         r = direct4< I::at_raw_string_close< '=', ']' > >( in, ms ) && r;
         r = direct4< r_raw::content >( in, ms ) && r;
         r = direct4< r_rawc::content >( in, ms ) && r;
         r = direct4< r_rawc2::content >( in, ms ) && r;
         r = direct4< r_rawc::content >( in, ms, st ) && r;
         r = direct4< http::chunk_size >( in, ms ) && r;
         r = direct4< http::chunk_data >( in, ms ) && r;
         U4( http::chunk )
         unsigned u = 0;
         unsigned char uc = 0;
         int si = 0;
         signed char sc = 0;
         r = direct_wa< r_unsigned_wa >( in, u ) && r;
         r = direct_wa< r_maximum_wa >( in, uc ) && r;
         r = direct_wa< r_signed_wa >( in, si ) && r;
         r = direct_wa< r_signed_wa >( in, sc ) && r;
      }
#endif
#if VU_PART == 6
      // action classes with match()
      r = use4< R_cs, act >( in ) && r;
      r = use4< R_cs, act >( in, st ) && r;
      r = use4< R_cs_d, act >( in ) && r;
      r = use4< R_cs_d, act >( in, st ) && r;
      r = use4< R_cas_d, act >( in ) && r;
      r = use4< R_cas_d, act >( in, st ) && r;
      r = use4< R_css, act >( in ) && r;
      r = use4< R_css, act >( in, st ) && r;
      r = use4< R_ca, act >( in ) && r;
      r = use4< R_cas, act >( in ) && r;
      r = use4< R_cas, act >( in, st ) && r;
      r = use4< R_cass, act >( in ) && r;
      r = use4< R_cass, act >( in, st ) && r;
      r = use4< R_cc, act >( in ) && r;
      r = use4< R_cc2, act >( in ) && r;
      r = use4< R_cc2, act >( in, st ) && r;
      r = use4< R_da, act >( in ) && r;
      r = use4< R_ea, act >( in ) && r;
      r = use4< R_di, act >( bin ) && r;
      r = use4< R_dis, act >( bin ) && r;
      r = use4< R_dif, act >( bin ) && r;
      r = use4< R_di, act >( in ) && r;
      r = use4< R_dis, act >( in ) && r;
      r = use4< R_dif, act >( in ) && r;
      r = use4< R_as, act >( in ) && r;
      r = use4< R_as, act >( in, st ) && r;
      r = use4< R_as2, act >( in ) && r;
      r = use4< R_inst, act >( in ) && r;
      r = use4< R_inst, act >( in, st ) && r;
      r = use4< R_lb, act >( in ) && r;
      r = use4< R_ld, act >( din ) && r;
      r = use4< R_cb, act >( in ) && r;
      r = use4< R_tr, act >( in ) && r;
      r = use4< R_tr, act >( in, st ) && r;
      r = use4< R_cact, act >( in ) && r;
      r = use4< R_cact0, act >( in ) && r;
#endif
      return r;
   }

}  // namespace vu
