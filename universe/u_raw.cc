// Universe: raw_string over eager inputs of all five end-of-line policies, custom bracket characters, with and without content rules (C16, C06).
#include "vu.hpp"

#include <tao/pegtl/contrib/http.hpp>
#include <tao/pegtl/contrib/raw_string.hpp>

namespace vu::raw
{
   namespace I = tao::pegtl::internal;
   using namespace tao::pegtl;

   using In_lf = memory_input< tracking_mode::eager, eol::lf >;
   using In_cr = memory_input< tracking_mode::eager, eol::cr >;
   using In_crlf = memory_input< tracking_mode::eager, eol::crlf >;
   using In_lf_crlf = memory_input< tracking_mode::eager, eol::lf_crlf >;
   using In_cr_crlf = memory_input< tracking_mode::eager, eol::cr_crlf >;

   template< typename Rule, typename Input, typename... States >
   bool m( Input& in, States&&... st )
   {
      return normal< Rule >::template match< apply_mode::action, rewind_mode::required, nothing, normal >( in, st... );
   }

   // the same with actions disabled (inside at<>, not_at<>, disable<>): what a raw string matches does not depend on the apply mode
   template< typename Rule, typename Input, typename... States >
   bool m0( Input& in, States&&... st )
   {
      return normal< Rule >::template match< apply_mode::nothing, rewind_mode::required, nothing, normal >( in, st... );
   }

   using lua = raw_string< '[', '=', ']' >;
   using custom = raw_string< '(', '*', ')' >;
   using custom8 = raw_string< '\xab', '\xb7', '\xbb' >;      // 8-bit bracket characters (Latin-1 guillemets and middle dot): negative as char
   using lua_alpha = raw_string< '[', '=', ']', not_one< 'x' > >;        // content restricted by a sub-rule that can also eat bracket characters
   using lua_two = raw_string< '[', '=', ']', one< 'a' >, opt< one< '=' > > >;

   template< typename Input >
   std::size_t all_raw( Input& in )
   {
      std::size_t ms = 0;
      std::size_t n = m< lua >( in ) + m< custom >( in ) + m< lua_alpha >( in ) + m< lua_two >( in );
      n += m0< lua >( in ) + m0< lua_two >( in );
      n += m< custom8 >( in );
      n += m< I::raw_string_open< '[', '=' > >( in, ms );
      n += m< I::at_raw_string_close< '=', ']' > >( in, ms );
      n += m< I::raw_string_until< I::at_raw_string_close< '=', ']' > > >( in, ms );
      return n;
   }

   inline std::size_t all( In_lf& a, In_cr& b, In_crlf& c, In_lf_crlf& d, In_cr_crlf& e )
   {
      std::size_t sz = 0;
      return all_raw( a ) + all_raw( b ) + all_raw( c ) + all_raw( d ) + all_raw( e ) + m< http::chunk_size >( d, sz ) + m< http::chunk_data >( d, sz );
   }
}  // namespace vu::raw
