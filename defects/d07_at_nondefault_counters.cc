// D07 (C19): at() / begin_of_line() / line_at() for an input constructed with non-default initial counters point outside the data.
// memory_input( begin, end, source, byte, line, column ) is documented for parsing a fragment of a larger text; positions then carry
// byte = initial byte + offset, but at( p ) computes begin() + p.byte and begin_of_line( p ) subtracts p.column - 1 from that.
#include <tao/pegtl.hpp>
#include <iostream>
using namespace tao::pegtl;
int main() {
   const char data[] = "hello";
   memory_input<> in( data, data + 5, "src", 10, 3, 4 );   // fragment starting at byte 10, line 3, column 4 of some larger text
   (void)parse< seq< one< 'h' >, one< 'e' > > >( in );
   const auto p = in.position();                            // byte 12, line 3, column 6
   const long at_off = in.at( p ) - data;
   const long bol_off = in.begin_of_line( p ) - data;
   std::cout << "position " << p.byte << ":" << p.line << ":" << p.column << "  at() = data+" << at_off << "  begin_of_line() = data+" << bol_off << "  (data has 5 bytes)" << std::endl;
   return ( at_off == 2 && bol_off >= 0 && bol_off <= 5 ) ? 0 : 1;
}
