// Defect 10 (C20): uri::host tried IPv4address before reg_name and committed to it: "0.6.6.6V" (a valid RFC 3986
// reg-name) made "s://0.6.6.6V" fail.
#include <tao/pegtl.hpp>
#include <tao/pegtl/contrib/uri.hpp>
#include <cstdio>
using namespace tao::pegtl;
struct g : seq< uri::URI, eof > {};
int main()
{
   int bad = 0;
   for( const char* s : { "s://0.6.6.6V", "s://1.2.3.4.example.org/x", "s://1.2.3.4", "s://1.2.3.4:80/p" } ) {
      memory_input<> in( s, s );
      bool r = false;
      try { r = parse< g >( in ); } catch( const parse_error& ) {}
      if( !r ) { std::printf( "URI rejects %s\n", s ); ++bad; }
   }
   return bad ? 1 : 0;
}
