// Known finding D11 (C08): an exception thrown by a rule's own action (through Control::apply / apply0) leaves
// tao::pegtl::match() after start() without unwind(): the unwind_guard only spans match_control_unwind().
// Exits 1 on the current tree (recorded, not repaired: the repair restructures the central dispatch).
#include <tao/pegtl.hpp>
#include <cstdio>
#include <stdexcept>
#include <string>
#include <vector>
using namespace tao::pegtl;
struct A1 : one< 'a' > {};
struct G : seq< A1, one< 'b' > > {};
template< typename R > struct act : nothing< R > {};
template<> struct act< A1 > { static void apply0() { throw std::runtime_error( "action" ); } };
std::vector< std::string > log_;
template< typename R >
struct ctl : normal< R >
{
   template< typename I, typename... S > static void start( const I&, S&&... ) { log_.push_back( "start " + std::string( demangle< R >() ) ); }
   template< typename I, typename... S > static void success( const I&, S&&... ) { log_.push_back( "success " + std::string( demangle< R >() ) ); }
   template< typename I, typename... S > static void failure( const I&, S&&... ) { log_.push_back( "failure " + std::string( demangle< R >() ) ); }
   template< typename I, typename... S > static void unwind( const I&, S&&... ) { log_.push_back( "unwind " + std::string( demangle< R >() ) ); }
};
int main()
{
   memory_input<> in( "ab", "t" );
   try { (void)parse< G, act, ctl >( in ); } catch( const std::runtime_error& ) {}
   int starts = 0, closes = 0;
   for( const auto& l : log_ ) { if( l.rfind( "start", 0 ) == 0 ) ++starts; else ++closes; }
   if( starts != closes ) {
      for( const auto& l : log_ ) std::printf( "  %s\n", l.c_str() );
      std::printf( "%d start hooks but %d success/failure/unwind hooks\n", starts, closes );
      return 1;
   }
   return 0;
}
