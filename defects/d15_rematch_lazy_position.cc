#include <tao/pegtl.hpp>
#include <iostream>
using namespace tao::pegtl;
struct inner : seq< one<'b'>, one<'c'> > {};
struct g : seq< one<'a'>, eol, rematch< plus< alpha >, inner > > {};
template< typename R > struct act : nothing< R > {};
template<> struct act< inner > {
   template< typename AI > static void apply( const AI& in, position& p ) { p = in.position(); }
};
template< tracking_mode M > position run() {
   memory_input< M > in( "a\nbc", "src" );
   position p( internal::inputerator( nullptr ), "" );
   parse< g, act >( in, p );
   return p;
}
int main() {
   const auto e = run< tracking_mode::eager >();
   const auto l = run< tracking_mode::lazy >();
   std::cout << "eager " << e.byte << ":" << e.line << ":" << e.column << "  lazy " << l.byte << ":" << l.line << ":" << l.column << std::endl;
   return ( e.byte == l.byte && e.line == l.line && e.column == l.column ) ? 0 : 1;
}
