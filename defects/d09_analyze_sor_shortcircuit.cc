// Defect 9 (C11): analyze_cycles_impl::work() stopped visiting the alternatives of a sor after the first one
// that does not consume; the left recursion  S: sor< at< one<'a'> >, L >,  L: seq< S, one<'b'> >  (infinite
// recursion on "b") was certified with 0 problems.
#include <tao/pegtl.hpp>
#include <tao/pegtl/contrib/analyze.hpp>
#include <cstdio>
using namespace tao::pegtl;
struct L;
struct S : sor< at< one< 'a' > >, L > {};
struct L : seq< S, one< 'b' > > {};
int main()
{
   const std::size_t n = analyze< S >( -1 );
   if( n == 0 ) { std::printf( "analyze< S >() == 0 for a left-recursive grammar\n" ); return 1; }
   return 0;
}
