// Defect 5 (C03): match_and_convert_unsigned_with_maximum_nothrow() (maximum_rule) peeked at offset b >= 1
// guarded only by !in.empty().  Shown without undefined behaviour: the input's logical end lies inside a
// larger buffer ("12" followed by '3'); the rule must not see the '3'.
#include <tao/pegtl.hpp>
#include <tao/pegtl/contrib/integer.hpp>
#include <cstdio>
using namespace tao::pegtl;
int main()
{
   const char buf[] = "123";
   memory_input<> in( buf, buf + 2, "t" );   // logical input is "12"
   const bool r = normal< maximum_rule< unsigned char > >::match< apply_mode::action, rewind_mode::required, nothing, normal >( in );
   // reading the byte beyond the end makes the rule see "123"... and then peek offset 3 (the terminator)
   if( !r || in.byte() != 2 ) { std::printf( "maximum_rule on \"12\" inside \"123\": result %d byte %zu (expected 1, 2)\n", int( r ), in.byte() ); return 1; }
   return 0;
}
