// Defect 6 (C18): bytes_guard computed the limited end from begin() instead of current(): a 3-byte match
// starting at offset 2 under limit_bytes< 5 > hit the limit.
#include <tao/pegtl.hpp>
#include <tao/pegtl/contrib/limit_bytes.hpp>
#include <cstdio>
using namespace tao::pegtl;
struct three_x : rep< 3, one< 'x' > > {};
struct grammar : seq< string< 'a', 'b' >, three_x, string< 'c', 'd', 'e', 'f' >, eof > {};
template< typename R > struct act : nothing< R > {};
template<> struct act< three_x > : limit_bytes< 5 > {};
int main()
{
   memory_input<> in( "abxxxcdef", "t" );
   try {
      const bool r = parse< grammar, act >( in );
      if( !r ) { std::printf( "limit_bytes<5> on a 3-byte match at offset 2: parse failed\n" ); return 1; }
   }
   catch( const parse_error& e ) { std::printf( "limit_bytes<5> on a 3-byte match at offset 2: %s\n", e.what() ); return 1; }
   return 0;
}
