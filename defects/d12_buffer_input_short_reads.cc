// Defect 12 (C07): buffer_input::require() called the reader once; a reader that legally returns fewer bytes
// than requested (here 1 per call) made string< 'a', 'b', 'c' > fail on "abc".
#include <tao/pegtl.hpp>
#include <tao/pegtl/buffer_input.hpp>
#include <cstdio>
#include <cstring>
using namespace tao::pegtl;
struct one_byte_reader
{
   const char* p; const char* e;
   explicit one_byte_reader( const char* s ) : p( s ), e( s + std::strlen( s ) ) {}
   std::size_t operator()( char* buffer, const std::size_t length )
   {
      if( p == e || length == 0 ) return 0;
      *buffer = *p++;
      return 1;
   }
};
int main()
{
   buffer_input< one_byte_reader > in( "t", 16, "abc" );
   const bool r = parse< seq< string< 'a', 'b', 'c' >, eof > >( in );
   if( !r ) { std::printf( "string<'a','b','c'> fails on \"abc\" through a 1-byte-per-call reader\n" ); return 1; }
   return 0;
}
