// Defect 4 (C09/C02): opt_must< Cond, ... > (= internal::if_must< true, ... >) returned true after Cond failed
// *with input consumed* when it inherited rewind_mode::optional from an enclosing seq.
// Documented: opt_must< R, S... > is equivalent to opt< if_must< R, S... > >.
#include <tao/pegtl.hpp>
#include <cstdio>
using namespace tao::pegtl;
struct g1 : seq< one< 'x' >, opt_must< seq< one< 'a' >, one< 'b' > >, one< 'c' > >, one< 'a' >, one< 'c' >, eof > {};
struct g2 : seq< one< 'x' >, opt< if_must< seq< one< 'a' >, one< 'b' > >, one< 'c' > > >, one< 'a' >, one< 'c' >, eof > {};
int main()
{
   memory_input<> i1( "xac", "t" );
   memory_input<> i2( "xac", "t" );
   const bool r1 = parse< g1 >( i1 );
   const bool r2 = parse< g2 >( i2 );
   if( r1 != r2 ) { std::printf( "opt_must: %d, documented expansion: %d on \"xac\"\n", int( r1 ), int( r2 ) ); return 1; }
   return 0;
}
