// Defect 2 (C02): signed_rule / signed_rule_with_action delegated through parse<>() with its default
// rewind_mode::optional, so "-x" returned false with the sign consumed.
#include <tao/pegtl.hpp>
#include <tao/pegtl/contrib/integer.hpp>
#include <cstdio>
using namespace tao::pegtl;
int main()
{
   int bad = 0;
   {
      memory_input<> in( "-x", "t" );
      const bool r = normal< signed_rule >::match< apply_mode::action, rewind_mode::required, nothing, normal >( in );
      if( r || in.byte() != 0 ) { std::printf( "signed_rule on \"-x\": result %d byte %zu (expected 0, 0)\n", int( r ), in.byte() ); ++bad; }
   }
   {
      memory_input<> in( "-x", "t" );
      int v = 0;
      const bool r = signed_rule_with_action::match< apply_mode::action, rewind_mode::required, nothing, normal >( in, v );
      if( r || in.byte() != 0 ) { std::printf( "signed_rule_with_action on \"-x\": result %d byte %zu\n", int( r ), in.byte() ); ++bad; }
   }
   {
      memory_input<> in( "-12", "t" );
      int v = 0;
      const bool r = signed_rule_with_action::match< apply_mode::action, rewind_mode::required, nothing, normal >( in, v );
      if( !r || v != -12 ) { std::printf( "signed_rule_with_action on \"-12\": result %d value %d\n", int( r ), v ); ++bad; }
   }
   return bad ? 1 : 0;
}
