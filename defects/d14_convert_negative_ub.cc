// Defect 14 (C15): internal::convert_negative< Signed >() computed static_cast< Signed >( ~temporary ) + 1: for the minimum value of
// int / long long this is INT_MAX + 1, signed overflow (undefined behaviour). Build with
//   clang++ -std=c++17 -I/repo/include -fsanitize=undefined -fno-sanitize-recover=undefined
// the pre-fix tree aborts with "signed integer overflow: 2147483647 + 1 cannot be represented in type int".
#include <tao/pegtl.hpp>
#include <tao/pegtl/contrib/integer.hpp>
#include <cstdio>
using namespace tao::pegtl;
int main()
{
   int v = 0; long long w = 0;
   bool a = internal::convert_negative< int >( v, "2147483648" );
   bool b = internal::convert_negative< long long >( w, "9223372036854775808" );
   std::printf( "%d %d  %d %lld\n", int( a ), v, int( b ), w );
   memory_input<> in( "-2147483648", "t" );
   int s = 0;
   bool c = parse< seq< signed_rule_with_action, eof > >( in, s );
   std::printf( "%d %d\n", int( c ), s );
}
