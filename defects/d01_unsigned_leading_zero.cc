// Defect 1 (C02/C15): unsigned_rule / unsigned_rule_with_action / maximum_rule_with_action consumed '0'
// before looking at the next digit and then returned false.  Expected: false with nothing consumed.
#include <tao/pegtl.hpp>
#include <tao/pegtl/contrib/integer.hpp>
#include <cstdio>
using namespace tao::pegtl;
int main()
{
   int bad = 0;
   {
      memory_input<> in( "01", "t" );
      const bool r = normal< unsigned_rule >::match< apply_mode::action, rewind_mode::required, nothing, normal >( in );
      if( r || in.byte() != 0 ) { std::printf( "unsigned_rule on \"01\": result %d byte %zu (expected 0, 0)\n", int( r ), in.byte() ); ++bad; }
   }
   {
      memory_input<> in( "01", "t" );
      unsigned v = 0;
      const bool r = unsigned_rule_with_action::match< apply_mode::action, rewind_mode::required, nothing, normal >( in, v );
      if( r || in.byte() != 0 ) { std::printf( "unsigned_rule_with_action on \"01\": result %d byte %zu\n", int( r ), in.byte() ); ++bad; }
   }
   {
      memory_input<> in( "0", "t" );
      const bool r = normal< unsigned_rule >::match< apply_mode::action, rewind_mode::required, nothing, normal >( in );
      if( !r || in.byte() != 1 ) { std::printf( "unsigned_rule on \"0\": result %d byte %zu (expected 1, 1)\n", int( r ), in.byte() ); ++bad; }
   }
   return bad ? 1 : 0;
}
