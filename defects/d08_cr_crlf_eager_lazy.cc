// D08 (C06): with eol::cr_crlf the eager and the lazy position after "\r\n" differ.
// cr_crlf_eol consumes both bytes with bump_to_next_line( 2 ) although Eol::ch == '\r': eager tracking reports line 2, column 1,
// lazy tracking (internal::bump over the prefix, which counts '\r' as the line ending and '\n' as an ordinary byte) line 2, column 2.
#include <tao/pegtl.hpp>
#include <iostream>
using namespace tao::pegtl;
struct g : seq< one< 'a' >, eol > {};
template< tracking_mode M > position run() {
   memory_input< M, eol::cr_crlf > in( "a\r\nb", "src" );
   (void)parse< g >( in );
   return in.position();
}
int main() {
   const auto e = run< tracking_mode::eager >();
   const auto l = run< tracking_mode::lazy >();
   std::cout << "eager " << e.byte << ":" << e.line << ":" << e.column << "  lazy " << l.byte << ":" << l.line << ":" << l.column << std::endl;
   return ( e.line == l.line && e.column == l.column ) ? 0 : 1;
}
