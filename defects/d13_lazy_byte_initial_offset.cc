// Defect 13 (C06): with lazy tracking, byte() ignored the initial byte offset given to the constructor while
// position().byte included it (and eager byte() included it).
#include <tao/pegtl.hpp>
#include <cstdio>
using namespace tao::pegtl;
int main()
{
   const char buf[] = "abcdef";
   memory_input< tracking_mode::lazy > lz( buf, buf + 6, "t", 10, 3, 4 );
   memory_input< tracking_mode::eager > eg( buf, buf + 6, "t", 10, 3, 4 );
   lz.bump( 2 ); eg.bump( 2 );
   if( lz.byte() != eg.byte() || lz.byte() != lz.position().byte ) {
      std::printf( "lazy byte() %zu, lazy position().byte %zu, eager byte() %zu\n", lz.byte(), lz.position().byte, eg.byte() );
      return 1;
   }
   return 0;
}
