// Defect 3 (C02/C16): raw_string returned false on an unterminated literal with the opening bracket consumed.
#include <tao/pegtl.hpp>
#include <tao/pegtl/contrib/raw_string.hpp>
#include <cstdio>
using namespace tao::pegtl;
using rs = raw_string< '[', '=', ']' >;
int main()
{
   int bad = 0;
   {
      memory_input<> in( "[==[abc]=]", "t" );
      const bool r = normal< rs >::match< apply_mode::action, rewind_mode::required, nothing, normal >( in );
      if( r || in.byte() != 0 ) { std::printf( "raw_string on unterminated literal: result %d byte %zu (expected 0, 0)\n", int( r ), in.byte() ); ++bad; }
   }
   {
      memory_input<> in( "[==[abc]==]x", "t" );
      const bool r = normal< rs >::match< apply_mode::action, rewind_mode::required, nothing, normal >( in );
      if( !r || in.byte() != 11 ) { std::printf( "raw_string on a closed literal: result %d byte %zu (expected 1, 11)\n", int( r ), in.byte() ); ++bad; }
   }
   return bad ? 1 : 0;
}
