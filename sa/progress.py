"""PROGRESS (DESIGN.md 4.5): what a rule body can do without consuming input, and the abstract grammar analyze() sees.

For a rule instantiated over consuming (vu::PC<n>) and nullable (vu::PN<n>) placeholders the body is executed in linked
mode under the answer oracle of sa/equiv.py (PC: fail / succeed consuming / raise; PN: additionally succeed empty; atoms of
the library - rules without sub-rules - answer what their own cursor-typestate analysis allows).  Facts:
  N     the rule can return true with the cursor where it started
  L     the sub-rules that can be entered at the position where the rule started (on the main or on a re-match input)
  idle  some loop can complete an iteration without any change of state (an infinite loop)
The trait graph (Name, type_v, subs) is read off the instantiations of internal::analyze_insert< Name >."""
import collections
from . import core, equiv, rewind
from .exec import *
from .mon_base import *
from .spec import analyze_model as AM

T = 'tao::pegtl::'


class Atoms:
    """library rules without sub-rules are opaque; their possible answers come from their own REWIND analysis"""
    def __init__(self, db):
        self.db = db; self.an = rewind.Analyzer(db); self.cache = {}
        self.by_cls = collections.defaultdict(list)
        for f in db.order:
            if f['n'] == 'match' and is_match_root(f):
                self.by_cls[(f.get('cls') or {}).get('s')].append(f)

    def bases(self, cls):
        out = [cls]; i = 0
        while i < len(out):
            out.extend((self.db.records.get(out[i]) or {}).get('bases', [])); i += 1
        return out

    def subs_empty(self, cls):
        for c in self.bases(cls):
            r = self.db.records.get(c)
            if r and 'subs_t' in r.get('aliases', {}):
                return r['aliases']['subs_t'].get('s') == T + 'type_list<>'
        return None

    def kinds(self, rule):
        if rule in self.cache: return self.cache[rule]
        k = None
        if rule and rule.startswith(T) and self.subs_empty(rule):
            fns = []
            for c in self.bases(rule):
                if self.by_cls.get(c): fns = self.by_cls[c]; break
            ks = set()
            for f in fns:
                res = self.an.get(f)[0]
                if not isinstance(res, collections.Counter): continue
                for (kind, val, pos), n in res.items():
                    if kind == 'throw': ks.add('raise')
                    elif kind == 'return':
                        if val in (False, '?'): ks.add('fail')
                        if val in (True, '?'):
                            if pos in ('E', 'A?'): ks.add('same')
                            if pos in ('A', 'A?'): ks.add('new')
            if ks: k = tuple(x for x in ('fail', 'same', 'new', 'raise') if x in ks)
        self.cache[rule] = k
        return k


class ProgressMonitor(equiv.LinkMonitor):
    def __init__(self, db, maxq, atoms):
        equiv.LinkMonitor.__init__(self, db, maxq)
        self.atoms = atoms
        self.left = set(); self.idle = []; self.root = ()

    def opaque(self, rule):
        if rule is None or rule in self.root: return False      # the rule under analysis (and the base its match() lives in) is always looked into
        if rule.startswith('vu::PC<') or rule.startswith('vu::PN<'): return True
        return self.atoms.kinds(rule) is not None

    def answers_for(self, key, n):
        who = key[0]
        if who.startswith('vu::PC<'): kinds = ('fail', 'new', 'raise')
        elif who.startswith('vu::PN<'): kinds = ('fail', 'same', 'new', 'raise')
        elif who == '@any': kinds = ('fail', 'new')
        else: kinds = self.atoms.kinds(who) or ('fail', 'same', 'new', 'raise')
        return [{'fail': 'fail', 'raise': 'raise', 'same': ('succ', key[1]), 'new': ('succ', n + 1)}[k] for k in kinds]

    def ask(self, ex, e, who, inp, mode, st, commit=True):
        p = st.heap[inp.addr]['m_current'].pos
        if p == 0 and who.startswith('vu::P'): self.left.add(who)      # only sub-rule parameters can close a recursion
        return equiv.LinkMonitor.ask(self, ex, e, who, inp, mode, st, commit)

    def on_cycle(self, ex, st, loop, fr):
        # loops of rule bodies that match sub-rules (byte scanners advance an index the abstract state does not keep apart)
        if fr.fn.get('n') == 'match' and is_match_root(fr.fn) and calls_match(loop):
            self.idle.append(core.rel(loop.get('loc') or ''))

    def call(self, ex, e, cu, cq, cn, ob, objloc, av, st, fr):
        inp = self.input_of(ex, ob, st) if ob is not None else None
        if inp is not None and st.heap[inp.addr].get('__main') and cn in ('bump', 'bump_in_this_line', 'bump_to_next_line'):
            n = ex.argval(av[0], st) if av else 1
            amt = self.amount(st, n)
            o = st.heap[inp.addr]
            if o.get('__anynext') is not None and amt != 'zero':
                # a byte is known to be available (in.empty() answered false): the advance reaches the next position
                o['m_current'] = Cur(o['__anynext']); o['__anynext'] = None
                def g0(): yield None, st
                return g0()
            def g():
                outs = []
                if amt in ('pos', 'maybe'):
                    s1 = st.copy(); s1.x['npos'] += 1; s1.heap[inp.addr]['m_current'] = Cur(s1.x['npos']); outs.append(s1)
                if amt in ('zero', 'maybe'):
                    outs.append(st.copy())
                for s in outs: yield None, s
            return g()
        if inp is not None and cn in ('peek_char', 'peek_uint8', 'size', 'current', 'end', 'begin', 'byte', 'line', 'column', 'discard', 'require', 'position'):
            def g(): yield Unknown(cn), st
            return g()
        if cq in BUMPS:
            return None
        return equiv.LinkMonitor.call(self, ex, e, cu, cq, cn, ob, objloc, av, st, fr)


def facts(db, fn, atoms, maxq=7):
    """linked execution of normal< R >::match over PC/PN placeholders -> dict(N, L, idle, histories, truncated)"""
    mon = ProgressMonitor(db, maxq, atoms); ex = Exec(db, mon); ex.maxsteps = 3000000; ex.maxwall = 90.0
    mon.root = set(atoms.bases(((fn.get('cls') or {}).get('a') or [{}])[0].get('s')))
    st = State()
    st.x.update({'orc': {}, 'qs': (), 'npos': 0, 'trunc': False, '__sig': ('orc', 'npos')})
    inp = Obj(st.alloc({'__type': 'input', '__input': True, '__main': True, 'm_current': Cur(0), 'private_depth': 0}))
    f = Frame(fn); ex.frames.append(f)
    EnvView(st, f.fid)[fn['params'][0]['id']] = inp
    N = False; n = 0; trunc = 0
    for comp in ex.run_fn(fn, f, st):
        s = comp[-1]
        if s.x.get('trunc') or (comp[0] == 'throw' and comp[1] == 'TRUNC'): trunc += 1; continue
        n += 1
        if comp[0] == 'return' and comp[1] is not False and s.heap[inp.addr]['m_current'].pos == 0: N = True
    return {'N': N, 'L': sorted(mon.left), 'idle': sorted(set(mon.idle)), 'histories': n, 'truncated': trunc}


def trait_graph(db):
    """{name: (type, [subs])} from the instantiations of internal::analyze_insert< Name >"""
    g = {}
    for f in db.order:
        if f['q'] != T + 'internal::analyze_insert': continue
        name = f['ta'][0].get('s')
        found = {'t': None, 'subs': None}
        def walk(n):
            if isinstance(n, dict):
                if n.get('cn') == 'try_emplace':
                    for a in n.get('args', []):
                        if a.get('k') == 'ref' and 'v' in a and 'analyze_type' in (a.get('t') or ''): found['t'] = a['v']
                if n.get('cn') == 'analyze_insert_impl':
                    subs = []
                    for ta in n.get('cta', []):
                        if ta.get('k') == 'pack': subs = [x.get('s') for x in ta.get('a', [])]
                        elif ta.get('k') == 'type': subs.append(ta.get('s'))
                    found['subs'] = subs
                for v in n.values(): walk(v)
            elif isinstance(n, list):
                for v in n: walk(v)
        walk(f.get('body'))
        if found['t'] is None or found['subs'] is None:
            raise Unmodelled('cannot read the traits of %s from analyze_insert (%s)' % (name, f['loc']))
        g[name] = (found['t'], found['subs'])
    return g


def closure(g, root):
    out = {}; todo = [root]
    while todo:
        x = todo.pop()
        if x in out or x not in g: continue
        out[x] = g[x]; todo.extend(g[x][1])
    return out


def calls_match(node):
    if isinstance(node, dict):
        if node.get('k') == 'call' and node.get('cn') == 'match': return True
        return any(calls_match(v) for v in node.values())
    if isinstance(node, list):
        return any(calls_match(v) for v in node)
    return False
