"""HOOKS: protocol of the control hooks around one rule attempt (DESIGN.md 4.3).

The analysed function is an instantiation of tao::pegtl::match<> (with match_control_unwind and
match_no_control inlined).  Events: start, rule (the inner Rule::match boundary), apply/apply0,
success, failure, unwind, raise; exits: return b / exception.  The executor enumerates the complete
finite table of (event sequence, exit, result, cursor class); the assertions H1-H7 are checked on it."""
import collections
from . import core
from .exec import *
from .mon_base import *


class HooksMonitor(BaseMonitor):
    def __init__(self, db, never_false=frozenset(), linked=None):
        BaseMonitor.__init__(self, db, never_false, linked)
        self.record_events = True
        self.hooks_opaque = True
        self.hook_classes = {}     # hook name -> class string of the callee
        self.apply_args = []       # (hook, begin value, input is main?, cursor pos at call)

    def on_hook(self, ex, e, cn, vals, st, fr):
        cc = e.get('cc') or {}
        self.hook_classes.setdefault(cn, cc.get('s'))
        if cn == 'apply':
            begin = vals[0] if vals else None
            inp = vals[1] if len(vals) > 1 else None
            self.apply_args.append((begin.pos if isinstance(begin, Cur) else repr(begin), self.input_of(ex, inp, st) is not None))
        elif cn in ('apply0', 'start', 'success', 'failure', 'unwind'):
            inp = vals[0] if vals else None
            if self.input_of(ex, inp, st) is None:
                st.viol.append(('H-arg', '%s hook not called with the parse input as first argument' % cn, e.get('loc')))


def methods_of(db, cls, seen=None):
    """method names of a class including inherited ones; None when the class is unknown"""
    r = db.records.get(cls)
    if r is None: return None
    out = {}
    for b in r.get('bases', []):
        m = methods_of(db, b)
        if m: out.update(m)
    for m in r.get('methods', []):
        out[m['n']] = m
    return out


def table(db, fn, never_false=frozenset(), linked=None):
    mon = HooksMonitor(db, never_false, linked)
    ex = Exec(db, mon)
    st = State()
    inp = new_input(st)
    f = Frame(fn); ex.frames.append(f)
    bind_params(ex, fn, f, st, inp)
    if not any(v is inp for v in EnvView(st, f.fid).values()): raise Unmodelled('no parse input among the parameters of ' + fn['disp'][:120])
    out = collections.Counter(); viol = []
    for comp in ex.run_fn(fn, f, st):
        s = comp[-1]; p = s.heap[inp.addr]['m_current'].pos
        val = comp[1] if comp[0] == 'return' else None
        out[(tuple(s.events), comp[0], val if isinstance(val, bool) else ('?' if comp[0] == 'return' else None), p)] += 1
        for v in s.viol: viol.append(v)
    return out, mon, viol, ex.steps


def check_dispatch(db, fn, out, mon, enabled_by_class=None):
    """assertions H1-H7 on the enumerated table; returns list of (rule, message, row).  enabled_by_class: the folded Control< Rule >::enable when the
    caller knows it (entry points other than the central dispatch): an enabled control must see the start of the attempt on every path"""
    ta = fn['ta']
    A = ta[1]['v']; M = ta[2]['v']
    rule = ta[0].get('s'); action_t = ta[3].get('s'); control_t = ta[4].get('s')
    probs = []
    ctl_cls = mon.hook_classes.get('start')
    ctl_methods = methods_of(db, ctl_cls) if ctl_cls else None
    has_unwind = None if ctl_methods is None else ('unwind' in ctl_methods)
    act_methods = methods_of(db, '%s<%s>' % (action_t, rule))
    enabled = any(x.split(':')[0] == 'start' for (ev, k, v, p) in out for x in ev)
    info = {'A': A, 'M': M, 'rule': rule, 'action': action_t, 'control': control_t, 'control_has_unwind': has_unwind,
            'action_members': sorted(m for m in (act_methods or {}) if m in ('apply', 'apply0')) if act_methods is not None else None, 'enabled': enabled}
    for (ev, kind, val, pos), n in out.items():
        names = [x.split(':')[0] for x in ev]
        row = {'events': list(ev), 'exit': kind, 'value': val, 'cursor': pos}
        if 'start' not in names:
            if enabled_by_class and 'rule' in names:
                probs.append(('H1', 'control is enabled for the rule, but the rule is attempted without start (and so without success, failure or unwind)', row))
            if any(x in names for x in ('success', 'failure', 'unwind', 'apply', 'apply0')):
                probs.append(('H1', 'hook %s without a preceding start' % [x for x in names if x != 'rule'], row))
            # H5: without hooks the result is the rule's
            if kind == 'return' and names == ['rule'] and ((ev[0] == 'rule:T') != (val is True)):
                probs.append(('H5', 'control disabled: result %s differs from the rule result' % val, row))
            continue
        if names.count('start') != 1 or names[0] != 'start':
            probs.append(('H1', 'start is not called exactly once, first', row))
        if ev[0] == 'start:throw': continue
        closing = [x for x in names if x in ('success', 'failure')]
        unw = names.count('unwind')
        rulev = [x for x in ev if x.startswith('rule:')]
        if len(rulev) != 1 and not (len(rulev) == 0 and kind == 'throw'):
            probs.append(('H1', 'the rule is attempted %d times in one dispatch' % len(rulev), row))
        if rulev and names.index('rule') < names.index('start'):
            probs.append(('H1', 'rule attempted before start', row))
        ai = [i for i, x in enumerate(names) if x in ('apply', 'apply0')]
        if kind == 'return':
            if len(closing) != 1: probs.append(('H2', 'closing hooks on a normal exit: %s (exactly one of success/failure expected)' % closing, row))
            if unw: probs.append(('H4', 'unwind called on a normal exit', row))
            if closing and ((closing[0] == 'success') != (val is True)): probs.append(('H6', 'returned %s after calling %s' % (val, closing[0]), row))
            ok = rulev == ['rule:T'] and not any(x in ('apply:F', 'apply0:F') for x in ev)
            if closing and ((closing[0] == 'success') != ok): probs.append(('H2', '%s called although rule matched and action accepted is %s' % (closing[0], ok), row))
            if closing and names[-1] not in ('success', 'failure'): probs.append(('H2', 'events after the closing hook: %s' % names, row))
            if val is False and M == 0 and pos != 'E': probs.append(('H7', 'returns false in rewind_mode::required with the cursor %s' % pos, row))
            if val is True and pos == 'D': probs.append(('H7', 'returns true with a DIRTY cursor', row))
            # H3 the action must have been called when the shape has one and the rule matched
            if act_methods is not None and A == 1 and rulev == ['rule:T']:
                want = [m for m in ('apply', 'apply0') if m in act_methods]
                if core.is_repo_unit(fn.get('_unit')):
                    # user actions of the tests and examples: an apply / apply0 only counts when it is callable with the states of this parse
                    # (the dispatch's own folded has_apply... constants); in the universe every declared member is callable, so the strict form applies there
                    from .exc import walk
                    folded = {d.get('n'): d.get('init', {}).get('v') for s2 in walk(fn.get('body'), lambda n: n.get('k') == 'Decl', []) for d in s2.get('decls', []) if (d.get('n') or '').startswith('has_apply')}
                    if folded:
                        want = [m for m in want if any(v for k, v in folded.items() if k.startswith('has_' + m + '_'))]
                got = [names[i] for i in ai]
                if want and got != want[:1]: probs.append(('H3', 'rule matched with actions enabled and Action has %s, but the calls were %s' % (want, got), row))
        else:
            hook_threw = [x for x in ev if x.endswith(':throw') and not x.startswith('rule')]
            src = 'rule' if 'rule:throw' in ev else (hook_threw[0].split(':')[0] if hook_threw else 'other')
            if src in ('success', 'failure', 'start', 'unwind'):
                # a hook itself threw (must_if raises from failure by design): the control has been told success / failure - or, for start, nothing has begun
                # from the library's side - so no unwind may follow for this attempt
                if src in ('success', 'failure', 'start') and unw:
                    probs.append(('H4', 'the %s hook threw and unwind is called as well: %s' % (src, 'two closing events for one start' if src != 'start' else 'an attempt whose start did not complete is unwound'), row))
                continue
            if closing: probs.append(('H4', 'closing hook %s and an exceptional exit' % closing, row))
            if has_unwind is not None:
                want = 1 if has_unwind else 0
                if unw != want:
                    probs.append(('H4', 'exception from %s after start: unwind called %d times, expected %d' % (src, unw, want), row))
        if ai:
            if A != 1: probs.append(('H3', 'action hook called while apply_mode::nothing', row))
            if len(ai) > 1: probs.append(('H3', 'action hook called twice', row))
            if 'rule:T' not in ev or ev.index('rule:T') > ai[0]: probs.append(('H3', 'action hook called before/without the rule having matched', row))
            if closing and names.index(closing[0]) < ai[0]: probs.append(('H3', 'action hook after the closing hook', row))
    # H3: begin iterator of apply = saved position of a guard armed at ENTRY; input = in
    for beginpos, is_in in mon.apply_args:
        if beginpos != 'E': probs.append(('H3', 'apply() begin iterator is %s, not the position at the start of the match' % beginpos, {}))
        if not is_in: probs.append(('H3', 'apply() is not given the parse input', {}))
    return probs, info
