"""FRAME + SCOPE: what a rule-boundary call may change (DESIGN.md 4.2) and the scoping of state objects.

For every boundary call inside a rule body the callee's evaluated (A', Action', Control'), the input argument
and the state pack are compared with the caller's own; allowed deviations come from a table keyed by the caller's
class template (filled from doc/Rule-Reference.md and doc/Actions-and-States.md).  For the state/action switching
rules the table also fixes when `success` is called and with which arguments."""
import collections
from . import core
from .exec import *
from .mon_base import *

T = 'tao::pegtl::'
I = 'tao::pegtl::internal::'


def targs_of(ta_list):
    """-> dict(A, M, tmpl=[template-template names in order], types=[...])"""
    d = {'A': None, 'M': None, 'tmpl': [], 'types': []}
    for ta in ta_list or []:
        k = ta.get('k')
        if k == 'int' and ta.get('t') == 'tao::pegtl::apply_mode': d['A'] = ta['v']
        elif k == 'int' and ta.get('t') == 'tao::pegtl::rewind_mode': d['M'] = ta['v']
        elif k == 'tmpl': d['tmpl'].append(ta.get('s'))
        elif k == 'type': d['types'].append(ta.get('s'))
    return d


def control_rule(cc):
    r = _control_rule1(cc.get('s') or '', cc)
    # control wrappers nest: state_control< C >::type< Rule > is shuffle_states< state_control< C >::control< Rule >, rotate_right< 1 > >
    import re
    for _ in range(6):
        if r and (re.match(r'^tao::pegtl::(shuffle_states|remove_first_state|remove_last_states|normal)<', r) or re.search(r'>::(control|state_handler|type)<', r) or re.match(r'^[\w:]*?(\w+_control|control_\w+)<', r)):
            r = _control_rule1(r, None)
        else: break
    return r


def _control_rule1(s, cc):
    """the rule a control class is instantiated for: the first argument of the last template argument list of Control< Rule >, also for controls that
    are member templates ( state_control< normal >::control< Rule >, must_if< Errors >::control< Rule > ); character literals may contain < > , '"""
    if not s.endswith('>'): return (cc['a'][0].get('s') if cc and cc.get('a') else None)
    # forward scan: positions of top-level '<' that open an argument list, with character literals skipped
    depth = 0; i = 0; opens = []; n = len(s); commas = {}
    while i < n:
        ch = s[i]
        if ch == "'":
            j = i + 1
            while j < n and not (s[j] == "'" and s[j - 1] != '\\' or (s[j] == "'" and s[j - 2:j] == '\\\\')): j += 1
            i = j + 1; continue
        if ch == '<':
            if depth == 0: opens.append(i); commas[i] = []
            depth += 1
        elif ch == '>': depth -= 1
        elif ch == ',' and depth == 1 and opens: commas[opens[-1]].append(i)
        i += 1
    if not opens: return None
    o = opens[-1]
    end = commas[o][0] if commas[o] else n - 1
    return s[o + 1:end].strip()


class FrameMonitor(BaseMonitor):
    def desc(self, ex, v, st):
        if isinstance(v, Obj):
            o = st.heap.get(v.addr)
            if isinstance(o, dict):
                if o.get('__state'): return ('param', o.get('__idx'))
                if o.get('__input'): return ('input', 'main' if o.get('__main') else 'second')
                if '__local' in o: return ('local', o.get('__type'))
                return ('tmp', o.get('__type'))
        if isinstance(v, tuple) and v and v[0] == 'refto': return ('ref',)
        return ('val', type(v).__name__)

    def own_frame(self, ex, fr):
        root = ex.frames[0]
        return fr is root or ((fr.fn.get('cls') or {}).get('s') == (root.fn.get('cls') or {}).get('s') and fr.fn.get('n') == root.fn.get('n'))

    def on_decl(self, ex, st, fr, d, v):
        if isinstance(v, Obj) and 'rq' in d:
            o = st.heap.get(v.addr)
            if isinstance(o, dict) and not o.get('__state') and not o.get('__input'):
                o['__local'] = d['n']
                if 'rewind_guard<tao::pegtl::rewind_mode::required' in d['t'] and self.own_frame(ex, fr):
                    o['__guard_site'] = core.rel(d.get('loc') or '')
                if self.own_frame(ex, fr) and 'rewind_guard' not in d['t'] and 'unwind_guard' not in d['t']:
                    st.events.append(('new', d['t'], d.get('static', False)))

    def on_boundary(self, ex, e, cq, inp, mode, st, fr):
        av = self.boundary_args
        vals = [ex.argval(a, st) for a in av]
        cta = targs_of(e.get('cta'))
        cc = e.get('cc') or {}
        descs = [self.desc(ex, v, st) for v in vals]
        # split: input argument and the rest
        ii = next((i for i, d in enumerate(descs) if d[0] == 'input'), None)
        rest = tuple(descs[ii + 1:]) if ii is not None else tuple(descs)
        callee_rule = cc.get('s') or (cta['types'][0] if cta['types'] else cq)
        guards = tuple(sorted(set(st.heap[o[2].addr].get('__guard_site') for o in st.live
                                  if isinstance(o[2], Obj) and isinstance(st.heap.get(o[2].addr), dict) and st.heap[o[2].addr].get('__guard_site'))))
        entry = 'free' if cq == 'tao::pegtl::match' else 'member'
        return ('call', cta['A'], mode, tuple(cta['tmpl']), callee_rule, descs[ii] if ii is not None else None, rest, core.rel(e.get('loc') or ''), guards, entry)

    def call(self, ex, e, cu, cq, cn, ob, objloc, av, st, fr):
        if cn == 'operator()' and isinstance(ob, Obj) and isinstance(st.heap.get(ob.addr), dict) and st.heap[ob.addr].get('__guard_site'):
            st.events.append(('release', st.heap[ob.addr]['__guard_site']))
        if cn in ('raise', 'raise_nested') and e.get('static') and e.get('cc'):
            vals = [ex.argval(a, st) for a in av]
            descs = tuple(self.desc(ex, v, st) for v in vals)
            cc = e['cc']
            who = control_rule(cc)
            p = None
            for a, o in st.heap.items():
                if isinstance(o, dict) and o.get('__main'): p = o['m_current'].pos
            st.events.append(('raise', cn, who, cc.get('tn') or cc.get('q'), descs, p))
            def g(): yield Thrown('raise:' + str(who)), st
            return g()
        if cn == 'success' and self.own_frame(ex, fr):
            vals = [ex.argval(a, st) for a in av]
            descs = tuple(self.desc(ex, v, st) for v in vals)
            od = self.desc(ex, ob, st) if ob is not None else None
            cc = e.get('cc') or {}
            p = None
            for a, o in st.heap.items():
                if isinstance(o, dict) and o.get('__main'): p = o['m_current'].pos
            def g():
                s1 = st.copy(); s1.events.append(('success', bool(e.get('static')), cc.get('s'), od, descs, p)); yield None, s1
                s2 = st.copy(); s2.events.append(('success-throw',)); yield Thrown('success'), s2
            return g()
        return BaseMonitor.call(self, ex, e, cu, cq, cn, ob, objloc, av, st, fr)


def paths(db, fn, never_false=frozenset()):
    mon = FrameMonitor(db, never_false)
    ex = Exec(db, mon); st = State(); inp = new_input(st)
    f = Frame(fn); ex.frames.append(f)
    bind_params(ex, fn, f, st, inp)
    out = collections.Counter()
    nstates = sum(1 for o in st.heap.values() if isinstance(o, dict) and o.get('__state'))
    for comp in ex.run_fn(fn, f, st):
        s = comp[-1]
        val = comp[1] if comp[0] == 'return' and isinstance(comp[1], bool) else None
        out[(tuple(s.events), comp[0], val)] += 1
    return out, nstates


# ---------------------------------------------------------------------------------------------------
# expected frame per caller class template.  Each entry: function(caller info, call index, call event) -> expected dict
# with keys A, tmpl (Action, Control), states, input ; absent key = "same as the caller".

def class_targs(fn):
    cls = fn.get('cls') or {}
    return cls.get('tn') or cls.get('q') or '', cls.get('a') or []


def first_tmpl(cls_a):
    for a in cls_a:
        if a.get('k') == 'tmpl': return a.get('s')
    return None


def first_type(cls_a):
    for a in cls_a:
        if a.get('k') == 'type': return a.get('s')
        if a.get('k') == 'pack':
            for b in a.get('a', []):
                if b.get('k') == 'type': return b.get('s')
    return None


def types_of(cls_a):
    out = []
    for a in cls_a:
        if a.get('k') == 'type': out.append(a.get('s'))
        if a.get('k') == 'pack': out.extend(b.get('s') for b in a.get('a', []) if b.get('k') == 'type')
    return out


STATE_RULES = {   # caller class template -> (kind of new state pack, success protocol)
    I + 'state': 'rule-state',
    T + 'change_state': 'action-state',
    T + 'change_action_and_state': 'action-state',
    T + 'change_states': 'action-states',
    T + 'change_action_and_states': 'action-states',
    T + 'add_state': 'action-addstate',
}


def expected_frame(fn, own, ncall, ev, nstates):
    """own = targs_of(fn ta); returns dict of expected values for this boundary call"""
    tn, ca = class_targs(fn)
    exp = {'A': own['A'], 'tmpl': tuple(own['tmpl'][-2:]) if len(own['tmpl']) >= 2 else tuple(own['tmpl']),
           'states': tuple(('param', i) for i in range(nstates)), 'input': ('input', 'main')}
    if tn in (I + 'at', I + 'not_at', I + 'disable', T + 'disable_action'): exp['A'] = 0
    elif tn in (I + 'enable', T + 'enable_action'): exp['A'] = 1
    elif tn == I + 'action': exp['tmpl'] = (first_tmpl(ca), exp['tmpl'][1])
    elif tn == I + 'control': exp['tmpl'] = (exp['tmpl'][0], first_tmpl(ca))
    elif tn in (T + 'change_action', T + 'change_action_and_state', T + 'change_action_and_states'):
        exp['tmpl'] = (first_tmpl(ca), exp['tmpl'][1])
    elif tn == T + 'change_control': exp['tmpl'] = (exp['tmpl'][0], first_tmpl(ca))
    elif tn == T + 'signed_rule_with_action':
        # documented design of this rule: it parses signed_rule_new with its own conversion action under the default control
        exp['tmpl'] = ('tao::pegtl::internal::signed_action_action' if own['A'] == 1 else 'tao::pegtl::nothing', 'tao::pegtl::normal')
    elif tn == T + 'signed_rule':
        exp['tmpl'] = ('tao::pegtl::nothing', 'tao::pegtl::normal'); exp['A'] = 1
    elif tn == T + 'trace':
        # documented design of the trace action (contrib/trace.hpp, doc/Control-and-Debug.md): unless the tracer already is the last state, the rule is
        # matched under state_control< Control > with a fresh tracer appended to the states
        tracer = first_type(ca)
        last = (fn['params'][-1]['t'] if len(fn['params']) > 1 else '').replace(' &', '').strip()
        if last != tracer:
            exp['tmpl'] = (exp['tmpl'][0], 'tao::pegtl::state_control<%s>::type' % exp['tmpl'][1])
            exp['states'] = exp['states'] + (('tmp', tracer),)
    if tn in (I + 'state', T + 'change_state', T + 'change_action_and_state'):
        exp['states'] = (('local', first_type(ca)),)
    elif tn in (T + 'change_states', T + 'change_action_and_states'):
        exp['states'] = tuple(('tmp', t) for t in types_of(ca))
    elif tn == T + 'add_state':
        exp['states'] = (('local', first_type(ca)),) + exp['states']
    elif tn == I + 'if_apply':
        pass
    elif tn == I + 'rematch':
        if ncall > 0: exp['input'] = ('input', 'second')
    return exp


ACTION_CLASSES = {T + 'change_state', T + 'change_states', T + 'change_action', T + 'change_action_and_state', T + 'change_action_and_states', T + 'change_control',
                  T + 'enable_action', T + 'disable_action', T + 'add_state', T + 'instantiate', T + 'limit_bytes', T + 'limit_depth', T + 'check_bytes',
                  T + 'discard_input', T + 'discard_input_on_success', T + 'discard_input_on_failure', T + 'control_action'}

SPECIAL_STATE_PARAMS = {   # callers that thread an extra non-state parameter (checked by their own property)
    T + 'raw_string', I + 'raw_string_until', T + 'http::chunk', T + 'http::internal::chunk_helper::control',
}


FUNDAMENTAL = {'int', 'unsigned int', 'long', 'unsigned long', 'short', 'unsigned short', 'char', 'signed char', 'unsigned char', 'bool', 'long long', 'unsigned long long',
               'float', 'double', 'long double', 'wchar_t', 'char16_t', 'char32_t'}


def scalar_states(fn):
    """a state rule / action instantiated with states of fundamental type (int, ...): the executor keeps such values as numbers, not as objects with an
    identity, so who receives them cannot be traced; these instantiations (they occur in the repository's tests only) are counted but not judged"""
    tn, ca = class_targs(fn)
    if tn not in STATE_RULES and tn not in ACTION_CLASSES: return False
    ts = [t.replace('const ', '').replace('&', '').strip() for t in types_of(ca or [])]
    return any(t in FUNDAMENTAL for t in ts)


def is_rule_class(db, fn):
    """is the function the match of a rule (a class with rule_t / subs_t), as opposed to a control (normal< Rule >::match enters through the free function by design)"""
    cls = (fn.get('cls') or {}).get('s')
    seen = set(); todo = [cls]
    while todo:
        c = todo.pop(0)
        if not c or c in seen: continue
        seen.add(c)
        r = db.records.get(c) or {}
        if 'subs_t' in r.get('aliases', {}) or 'rule_t' in r.get('aliases', {}): return True
        todo.extend(r.get('bases', []))
    return False


def new_control_has_own_match(db, ctl, callee_class):
    rule = _control_rule1(callee_class, None)
    r = db.records.get('%s<%s>' % (ctl, rule)) if rule else None
    return bool(r) and any(m.get('n') == 'match' for m in r.get('methods', []))


def check_fn(db, fn, never_false=frozenset()):
    """returns (problems [(rule, msg)], number of boundary calls seen, rows)"""
    out, nstates = paths(db, fn, never_false)
    own = targs_of(fn.get('ta'))
    tn, ca = class_targs(fn)
    probs = []; ncalls = 0
    kind = STATE_RULES.get(tn)
    if scalar_states(fn):
        return [], sum(1 for (evs, ek, v) in out for e in evs if isinstance(e, tuple) and e[0] == 'call'), out
    released = set(e[1] for (evs, ek, v) in out for e in evs if isinstance(e, tuple) and e[0] == 'release')
    for (evs, exit_kind, val), n in out.items():
        calls = [e for e in evs if isinstance(e, tuple) and e[0] == 'call']
        for i, c in enumerate(calls):
            ncalls += 1
            _, A2, M2, tm2, rule2, inp2, states2, loc, guards, entry, res = c
            for g in guards:
                if g not in released and A2 != 0:
                    probs.append(('F-lookahead', 'sub-rule %s is matched with apply_mode::%s under the rewind guard declared at %s, which is never released on any path (a look-ahead): actions must be disabled inside it' % (short(rule2), amode(A2), g)))
            if tn in ACTION_CLASSES and len(tm2) >= 2 and len(own['tmpl']) >= 2:
                # an action class' match must re-enter through Control< Rule >::match exactly when it switches the action
                # (so that NewAction< Rule >::match is honoured); with the action unchanged it must use the free match<>()
                # (Control< Rule >::match would dispatch to Action< Rule >::match, i.e. to itself, again)
                switched = tm2[-2] != own['tmpl'][-2]
                if switched and entry != 'member':
                    probs.append(('F-entry', 'the action is switched to %s but the sub-match does not go through Control< Rule >::match, so %s< Rule >::match is never consulted' % (tm2[-2], tm2[-2])))
                if not switched and entry != 'free':
                    probs.append(('F-entry', 'the action is unchanged but the sub-match goes through Control< Rule >::match, which dispatches to Action< Rule >::match again'))
            if entry == 'member' and len(tm2) >= 2 and len(own['tmpl']) >= 2 and tm2[-1] != own['tmpl'][-1] and isinstance(rule2, str) and rule2.startswith(own['tmpl'][-1] + '<') and new_control_has_own_match(db, tm2[-1], rule2):
                # a rule or action that switches the control enters the attached rule through the NEW control's match.  The callee is known by the class that
                # declares it, so this is only decidable when the new control declares a match of its own (one that merely inherits normal< Rule >::match
                # is the same function whichever way it is named)
                probs.append(('F-entry', 'the control is switched to %s but the sub-rule is entered through %s< Rule >::match, the match of the old control: a match() customised by the new control is skipped for the attached rule, one customised by the old control still runs for it' % (tm2[-1], own['tmpl'][-1])))
            if entry == 'free' and tn not in ACTION_CLASSES and is_rule_class(db, fn):
                # a rule hands its sub-rules to Control< Rule >::match, which is where an Action< Rule >::match (change_state, change_action, disable_action ...)
                # and a control's own match are consulted; the free match<>() skips both
                probs.append(('F-entry', 'sub-rule %s is attempted through the free function match<>() instead of Control< Rule >::match: a switch attached to it (an action class with a match of its own, a control with its own match) is silently skipped' % short(rule2)))
            exp = expected_frame(fn, own, i, c, nstates)
            if A2 is not None and exp['A'] is not None and A2 != exp['A']:
                if not (tn == I + 'if_apply' and A2 == 1 and own['A'] == 1):
                    probs.append(('F-A', 'sub-rule %s is matched with apply_mode::%s, expected apply_mode::%s' % (short(rule2), amode(A2), amode(exp['A']))))
            if len(tm2) >= 2 and len(exp['tmpl']) == 2 and tn not in SPECIAL_STATE_PARAMS:
                if tm2[-2] != exp['tmpl'][0]: probs.append(('F-Action', 'sub-rule %s is matched with action %s, expected %s' % (short(rule2), tm2[-2], exp['tmpl'][0])))
                if tm2[-1] != exp['tmpl'][1]: probs.append(('F-Control', 'sub-rule %s is matched with control %s, expected %s' % (short(rule2), tm2[-1], exp['tmpl'][1])))
            if inp2 != exp['input'] and inp2 is not None:
                probs.append(('F-input', 'sub-rule %s is matched on %s, expected %s' % (short(rule2), inp2, exp['input'])))
            if tn not in SPECIAL_STATE_PARAMS and not fn['q'].startswith('tao::pegtl::http::'):
                st_only = tuple(s for s in states2 if s[0] in ('param', 'local', 'tmp'))
                if st_only != exp['states']:
                    probs.append(('F-states', 'sub-rule %s is matched with the states %s, expected %s' % (short(rule2), list(st_only), list(exp['states']))))
        if kind:
            probs.extend(check_scope(fn, kind, tn, ca, own, evs, exit_kind, val, nstates))
    return sorted(set(probs)), ncalls, out


def check_scope(fn, kind, tn, ca, own, evs, exit_kind, val, nstates):
    probs = []
    succ = [e for e in evs if isinstance(e, tuple) and e[0] == 'success']
    calls = [e for e in evs if isinstance(e, tuple) and e[0] == 'call']
    news = [e for e in evs if isinstance(e, tuple) and e[0] == 'new']
    names = [e[0] for e in evs if isinstance(e, tuple)]
    if any(e == ('success-throw',) for e in evs): return probs
    outer = tuple(('param', i) for i in range(nstates))
    want_success = (exit_kind == 'return' and val is True and calls and calls[-1][-1] in ('T+', 'T0'))
    if kind.startswith('action') and own['A'] != 1: want_success = False
    if exit_kind == 'throw' or val is False: want_success = False
    if kind in ('rule-state', 'action-state', 'action-addstate'):
        new_t = first_type(ca)
        if calls and not any(n[1] == new_t and not n[2] for n in news):
            probs.append(('S-new', 'the new state %s is not an automatic local of the match function' % new_t))
        if 'new' in names and 'call' in names and names.index('new') > names.index('call'):
            probs.append(('S-new', 'the sub-rule is matched before the new state is constructed'))
    if want_success:
        if len(succ) != 1:
            probs.append(('S-success', 'success() is called %d times on a path where the rule matched%s (exactly once expected)' % (len(succ), ' and actions are enabled' if kind.startswith('action') else '')))
        else:
            s = succ[0]
            if names.index('success') < max(i for i, n in enumerate(names) if n == 'call'):
                probs.append(('S-success', 'success() is called before the sub-rule has been matched'))
            args = tuple(a for a in s[4] if a[0] in ('param', 'local', 'tmp'))
            if kind == 'rule-state':
                if s[3] != ('local', first_type(ca)): probs.append(('S-success', 'success() is not called on the new state object'))
                if args != outer: probs.append(('S-success', 'success() receives the states %s, expected the outer states %s' % (list(args), list(outer))))
            elif kind in ('action-state', 'action-addstate'):
                exp = (('local', first_type(ca)),) + outer
                if args != exp: probs.append(('S-success', 'Action< Rule >::success receives %s, expected %s' % (list(args), list(exp))))
            elif kind == 'action-states':
                exp_n = len(types_of(ca)) + nstates
                if len(args) != exp_n: probs.append(('S-success', 'Action< Rule >::success receives %d states, expected the %d new and outer ones' % (len(args), exp_n)))
            if s[4] and s[4][0][0] != 'input': probs.append(('S-success', 'success() is not given the parse input'))
            if s[5] == 'D': probs.append(('S-success', 'success() is called with a DIRTY cursor'))
    else:
        if succ:
            why = 'the rule did not match' if not (calls and calls[-1][-1] in ('T+', 'T0')) else ('actions are disabled' if kind.startswith('action') and own['A'] != 1 else 'the exit is %s %s' % (exit_kind, val))
            probs.append(('S-success', 'success() is called although %s' % why))
    return probs


def short(s):
    return (s or '?').replace('tao::pegtl::', '')


def amode(a):
    return {0: 'nothing', 1: 'action'}.get(a, str(a))
