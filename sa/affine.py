"""Piecewise-affine modular evaluation of a small integer expression over one symbolic input t in [lo, hi]
(used for two's-complement identities such as convert_negative).  A value is a list of pieces (t_lo, t_hi, a, b): on that
sub-range the mathematical value is a*t + b and lies within the range of the value's C++ type.  Unsigned arithmetic and all
integral conversions wrap modulo 2^w (splitting pieces where needed); signed arithmetic that leaves the range is undefined
behaviour and is reported."""
from .ranges import trange


class UB(Exception):
    pass


def norm(pieces, t, signed_arith=False, what=''):
    """bring every piece into the range of type t; signed_arith: out-of-range is UB instead of wrapping"""
    lo_t, hi_t = trange(t)
    M = hi_t - lo_t + 1
    out = []
    for (a0, a1, a, b) in pieces:
        todo = [(a0, a1)]
        while todo:
            x0, x1 = todo.pop()
            v0 = a * x0 + b; v1 = a * x1 + b
            k0 = (v0 - lo_t) // M; k1 = (v1 - lo_t) // M
            if k0 == k1:
                if k0 != 0 and signed_arith:
                    raise UB('%s: for t in [%d, %d] the mathematical result is in [%d, %d], outside %s [%d, %d]' % (what, x0, x1, min(v0, v1), max(v0, v1), t, lo_t, hi_t))
                out.append((x0, x1, a, b - k0 * M))
            else:
                if a == 0: raise Exception('constant piece cannot cross a boundary')
                # split at the first t where the wrap count changes (a is +-1 in practice; general a handled by bisection)
                lo_, hi_ = x0, x1
                while hi_ - lo_ > 1:
                    mid = (lo_ + hi_) // 2
                    if ((a * mid + b) - lo_t) // M == k0: lo_ = mid
                    else: hi_ = mid
                todo.append((x0, lo_)); todo.append((hi_, x1))
    return sorted(out)


PROMOTE = {'unsigned char': 'int', 'signed char': 'int', 'char': 'int', 'short': 'int', 'unsigned short': 'int', 'bool': 'int'}


def is_signed(t):
    return trange(t)[0] < 0


def evaluate(e, env):
    """e: cfgx expression node; env: {decl id or name: (type, pieces)} -> (type, pieces)"""
    k = e.get('k')
    t = (e.get('t') or '').replace('const ', '').strip()
    if 'v' in e and k in ('lit', 'cast', 'un', 'bin') and not has_ref(e):
        v = e['v']
        if isinstance(v, str): v = int(v)
        return t, norm([(env['__lo'], env['__hi'], 0, v)], t)
    if k == 'ref':
        if e.get('d') in env: return env[e['d']]
        if e.get('n') in env: return env[e['n']]
        raise Exception('unknown variable %s' % e.get('n'))
    if k == 'cast':
        st, sp = evaluate(e['e'], env)
        if trange(t) is None: raise Exception('conversion to %s' % t)
        return t, norm(sp, t)
    if k == 'un' and e.get('op') == '~':
        st, sp = evaluate(e['e'], env)
        return t, norm([(x0, x1, -a, -b - 1) for (x0, x1, a, b) in sp], t, signed_arith=is_signed(t), what='~')
    if k == 'un' and e.get('op') == '-':
        st, sp = evaluate(e['e'], env)
        return t, norm([(x0, x1, -a, -b) for (x0, x1, a, b) in sp], t, signed_arith=is_signed(t), what='unary minus')
    if k == 'bin' and e.get('op') in ('+', '-'):
        lt, lp = evaluate(e['l'], env); rt, rp = evaluate(e['r'], env)
        sgn = 1 if e['op'] == '+' else -1
        out = []
        for (x0, x1, a, b) in lp:
            for (y0, y1, c, d) in rp:
                z0, z1 = max(x0, y0), min(x1, y1)
                if z0 <= z1: out.append((z0, z1, a + sgn * c, b + sgn * d))
        return t, norm(out, t, signed_arith=is_signed(t), what='%s in type %s' % ('addition' if sgn > 0 else 'subtraction', t))
    raise Exception('expression form %s not supported by the affine evaluator' % k)


def has_ref(e):
    if isinstance(e, dict):
        if e.get('k') == 'ref' and e.get('dk') in ('Var', 'ParmVar'): return True
        return any(has_ref(v) for v in e.values())
    if isinstance(e, list): return any(has_ref(v) for v in e)
    return False
