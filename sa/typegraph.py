"""Grammar as data: a rule *type* (as recorded by cfgx: template name, structured arguments, bases) -> byte-level PEG
expression for the language engine (sa/lang.py).

Every internal rule template has a formal meaning over bytes.  Public rules and named grammar rules (`struct x : seq< ... > {}`)
are resolved through their bases.  Recursion (json::value) is unfolded to a nesting depth; beyond it the rule fails on both
the PEG and the reference side.

Expression forms (shared with sa/lang.py):
  ('cls', frozenset(bytes))  ('succ',) ('fail',) ('eof',) ('seq', [e]) ('sor', [e]) ('opt', e) ('star', e) ('at', e)
  ('not_at', e) ('must', e)"""
from . import core

T = 'tao::pegtl::'; I = T + 'internal::'
ALLB = frozenset(range(256))


class Unsupported(Exception):
    pass


def cls(*xs):
    s = set()
    for x in xs:
        if isinstance(x, tuple): s.update(range(x[0], x[1] + 1))
        elif isinstance(x, (set, frozenset, list)): s.update(x)
        else: s.add(x)
    return ('cls', frozenset(s))


def seq(*x): return ('seq', list(x))
def sor(*x): return ('sor', list(x))
def one_or_seq(xs): return xs[0] if len(xs) == 1 else ('seq', list(xs))
def star(e): return ('star', e)
def plus(e): return ('seq', [e, ('star', e)])
def opt(e): return ('opt', e)
def rep(n, e): return ('seq', [e] * n) if n else ('succ',)
def rep_opt(n, e): return ('seq', [('opt', e)] * n) if n else ('succ',)
def string(bs): return ('seq', [cls(b) for b in bs]) if bs else ('succ',)


# ---- UTF-8: the set of well-formed encodings of a set of code point ranges -----------------------------
def utf8_ranges(ranges):
    """ranges: list of (lo, hi) code points (surrogates are never encodable) -> expression accepting exactly the well-formed
    UTF-8 encodings of those scalar values (Unicode Table 3-7)"""
    alts = []
    def add(lo, hi):
        if lo > hi: return
        lo_b = enc(lo); hi_b = enc(hi)
        assert len(lo_b) == len(hi_b)
        alts.extend(byte_range_seq(lo_b, hi_b))
    for lo, hi in ranges:
        for a, b in ((0, 0x7f), (0x80, 0x7ff), (0x800, 0xd7ff), (0xe000, 0xffff), (0x10000, 0x10ffff)):
            add(max(lo, a), min(hi, b))
    if not alts: return ('fail',)
    return alts[0] if len(alts) == 1 else ('sor', alts)


def enc(cp):
    if cp < 0x80: return [cp]
    if cp < 0x800: return [0xc0 | (cp >> 6), 0x80 | (cp & 0x3f)]
    if cp < 0x10000: return [0xe0 | (cp >> 12), 0x80 | ((cp >> 6) & 0x3f), 0x80 | (cp & 0x3f)]
    return [0xf0 | (cp >> 18), 0x80 | ((cp >> 12) & 0x3f), 0x80 | ((cp >> 6) & 0x3f), 0x80 | (cp & 0x3f)]


def byte_range_seq(lo, hi):
    """all byte sequences of the same length between lo and hi (lexicographic, continuation bytes 80..BF) as alternatives"""
    n = len(lo)
    if n == 1: return [cls((lo[0], hi[0]))]
    if lo[0] == hi[0]:
        return [('seq', [cls(lo[0]), x]) for x in byte_range_seq(lo[1:], hi[1:])]
    out = []
    lo_rest_min = [0x80] * (n - 1); hi_rest_max = [0xbf] * (n - 1)
    first_lo = lo[0]; first_hi = hi[0]
    if lo[1:] != lo_rest_min:
        out.extend(('seq', [cls(lo[0]), x]) for x in byte_range_seq(lo[1:], hi_rest_max)); first_lo += 1
    tail = None
    if hi[1:] != hi_rest_max:
        tail = [('seq', [cls(hi[0]), x]) for x in byte_range_seq(lo_rest_min, hi[1:])]; first_hi -= 1
    if first_lo <= first_hi:
        out.append(('seq', [cls((first_lo, first_hi))] + [cls((0x80, 0xbf))] * (n - 1)))
    if tail: out.extend(tail)
    return out


def decimal_le(maximum):
    """decimal numerals without superfluous leading zeros whose value is <= maximum, as maximal-munch PEG: all consecutive
    digits are consumed, the rule fails when the value exceeds the maximum (contrib/integer.hpp maximum_rule)"""
    DIG = cls((48, 57))
    s = str(maximum); alts = []
    # numerals with fewer digits than the maximum: any [1-9][0-9]{k-1}
    for k in range(1, len(s)):
        alts.append(('seq', [cls((49, 57))] + [DIG] * (k - 1)))
    # numerals with the same number of digits and value <= maximum
    def same(prefix_fixed, i):
        res = []
        d = int(s[i])
        lo = 1 if i == 0 else 0
        if i == len(s) - 1:
            if d >= lo: res.append([cls((48 + lo, 48 + d))])
            return res
        if d - 1 >= lo: res.append([cls((48 + lo, 48 + d - 1))] + [DIG] * (len(s) - 1 - i))
        if d >= lo:
            for r in same(prefix_fixed, i + 1): res.append([cls(48 + d)] + r)
        return res
    for r in same(0, 0): alts.append(('seq', r))
    zero = ('seq', [cls(48)])
    return ('seq', [('sor', [zero] + list(reversed(alts))), ('not_at', DIG)])


class Translator:
    def __init__(self, db, depth=2, eol='lf_crlf', cut=None):
        self.cut = set(cut) if cut else None
        self.db = db; self.depth = depth; self.memo = {}; self.eol = eol; self.cyc = []
        self.used = set()

    # ---- helpers over the recorded template arguments ----
    def flat(self, a):
        out = []
        for x in a:
            if x.get('k') == 'pack': out.extend(self.flat(x.get('a', [])))
            else: out.append(x)
        return out

    def ints(self, a): return [x['v'] for x in self.flat(a) if x.get('k') == 'int']
    def types(self, a): return [x for x in self.flat(a) if x.get('k') == 'type']

    def rules(self, a, stack): return [self.resolve(x['s'], stack) for x in self.types(a)]

    def type_refs(self, tstr):
        r = self.db.records.get(tstr) or {}
        out = [x['s'] for x in self.types(r.get('a') or [])] + list(r.get('bases', []))
        return [x for x in out if x in self.db.records]

    def cyclic_types(self, root):
        """rule types that lie on a reference cycle reachable from root (recursive grammar rules)"""
        index = {}; low = {}; onst = set(); st = []; out = set(); counter = [0]
        import sys
        sys.setrecursionlimit(max(sys.getrecursionlimit(), 50000))
        def sc(v):
            index[v] = low[v] = counter[0]; counter[0] += 1; st.append(v); onst.add(v)
            for w in self.type_refs(v):
                if w not in index: sc(w); low[v] = min(low[v], low[w])
                elif w in onst: low[v] = min(low[v], index[w])
            if low[v] == index[v]:
                comp = []
                while True:
                    w = st.pop(); onst.discard(w); comp.append(w)
                    if w == v: break
                if len(comp) > 1 or v in self.type_refs(v): out.update(comp)
        sc(root)
        return out

    def translate(self, root):
        self.cyc = sorted(self.cyclic_types(root))
        return self.resolve(root, ())

    def resolve(self, tstr, stack=()):
        if tstr == 'void': raise Unsupported('void as a rule')
        if self.cut is not None:
            if tstr in self.cut and sum(stack.count(t) for t in self.cut) >= self.depth:
                return ('fail',)      # nesting deeper than the bound: rejected on both sides
        elif tstr in self.cyc and stack.count(tstr) >= self.depth:
            return ('fail',)
        key = (tstr, tuple(stack.count(t) for t in self.cyc))
        if key in self.memo: return self.memo[key]
        r = self.db.records.get(tstr)
        if r is None: raise Unsupported('no record for the rule type ' + tstr)
        self.used.add(tstr)
        tn = r.get('tn') or r.get('q')
        stack2 = stack + (tstr,)
        b = self.builtin(tn, r.get('a') or [], stack2, tstr)
        if b is None:
            for base in r.get('bases', []):
                if base in self.db.records:
                    b = self.resolve(base, stack2); break
        if b is None:
            raise Unsupported('rule type %s has no formal meaning in the table and no base to resolve through' % tstr)
        self.memo[key] = b
        return b

    def recursive_hint(self, t): return True

    def peek(self, a):
        for x in self.types(a):
            if x['s'].startswith(I + 'peek_'): return x['s'][len(I):]
        return None

    def codepoints(self, peek, values, negate=False):
        """set of single-unit values -> expression"""
        if peek == 'peek_char':
            s = frozenset(v & 0xff for v in values)
            return ('cls', (ALLB - s) if negate else s)
        if peek == 'peek_utf8':
            vs = sorted(set(values))
            if negate:
                rs = []; prev = 0
                for v in vs:
                    if v - 1 >= prev: rs.append((prev, v - 1))
                    prev = v + 1
                rs.append((prev, 0x10ffff))
            else:
                rs = [(v, v) for v in vs]
            return utf8_ranges(rs)
        raise Unsupported('peek class ' + str(peek))

    def ranges_expr(self, peek, rs, negate=False):
        if peek == 'peek_char':
            s = set()
            for lo, hi in rs: s.update(range(lo & 0xff, (hi & 0xff) + 1))
            return ('cls', (ALLB - frozenset(s)) if negate else frozenset(s))
        if peek == 'peek_utf8':
            if negate:
                out = []; prev = 0
                for lo, hi in sorted(rs):
                    if lo - 1 >= prev: out.append((prev, lo - 1))
                    prev = max(prev, hi + 1)
                out.append((prev, 0x10ffff)); rs = out
            return utf8_ranges(rs)
        raise Unsupported('peek class ' + str(peek))

    def builtin(self, tn, a, stack, tstr):
        if tn is None or not tn.startswith(T): return None
        n = tn[len(T):]
        R = lambda: self.rules(a, stack)
        if n == 'internal::seq': return ('seq', R())
        if n == 'internal::sor': return ('sor', R())
        if n in ('internal::star',): return star(one_or_seq(R()))
        if n == 'internal::plus': return plus(one_or_seq(R()))
        if n == 'internal::opt': return opt(one_or_seq(R()))
        if n == 'internal::at': return ('at', one_or_seq(R()))
        if n == 'internal::not_at': return ('not_at', one_or_seq(R()))
        if n == 'internal::must': return ('seq', [('must', x) for x in R()])
        if n == 'internal::if_must':
            d = self.ints(a)[0]; rs = R()
            e = ('seq', [rs[0]] + [('must', x) for x in rs[1:]])
            return opt(e) if d else e
        if n == 'internal::if_then_else':
            c, t, e = R(); return ('sor', [('seq', [c, t]), ('seq', [('not_at', c), e])])
        if n == 'internal::rep': return rep(self.ints(a)[0], one_or_seq(R()))
        if n == 'internal::rep_opt': return rep_opt(self.ints(a)[0], one_or_seq(R()))
        if n == 'internal::rep_min_max':
            lo, hi = self.ints(a)[:2]; e = one_or_seq(R())
            return ('seq', [rep(lo, e), rep_opt(hi - lo, e), ('not_at', e)])
        if n == 'internal::until':
            rs = R()
            body = ('seq', [('not_at', rs[0])] + (rs[1:] if len(rs) > 1 else [('cls', ALLB)]))
            return ('seq', [star(body), rs[0]])
        if n == 'internal::partial':
            rs = R(); e = ('succ',)
            for x in reversed(rs): e = opt(('seq', [x, e]))
            return e
        if n == 'internal::star_partial':
            rs = R()
            if len(rs) == 1: return star(rs[0])
            tail = ('succ',)
            for x in reversed(rs[:-1]): tail = opt(('seq', [x, tail]))
            return ('seq', [star(('seq', rs)), tail])
        if n == 'internal::success': return ('succ',)
        if n == 'internal::failure': return ('fail',)
        if n == 'internal::eof': return ('eof',)
        if n == 'internal::eol':
            crlf = ('seq', [cls(13), cls(10)])
            pol = {'lf_crlf': ('sor', [cls(10), crlf]), 'lf': cls(10), 'cr': cls(13), 'crlf': crlf, 'cr_crlf': ('sor', [crlf, cls(13)])}
            if self.eol in pol: return pol[self.eol]
            raise Unsupported('eol policy ' + self.eol)
        if n == 'internal::eolf': return ('sor', [self.builtin(T + 'internal::eol', [], stack, tstr), ('eof',)])
        if n == 'internal::any':
            p = self.peek(a)
            return ('cls', ALLB) if p == 'peek_char' else utf8_ranges([(0, 0x10ffff)])
        if n == 'internal::one':
            res = self.ints(a)[0]; vals = self.ints(a)[1:]
            return self.codepoints(self.peek(a), vals, negate=(res == 0))
        if n == 'internal::range':
            iv = self.ints(a); res = iv[0]; lo, hi = iv[1], iv[2]
            return self.ranges_expr(self.peek(a), [(lo, hi)], negate=(res == 0))
        if n == 'internal::ranges':
            iv = self.ints(a); rs = [(iv[i], iv[i + 1]) for i in range(0, len(iv) - 1, 2)]
            if len(iv) % 2: rs.append((iv[-1], iv[-1]))
            return self.ranges_expr(self.peek(a), rs)
        if n == 'internal::string': return string([v & 0xff for v in self.ints(a)])
        if n == 'internal::istring':
            out = []
            for v in self.ints(a):
                v &= 0xff
                if 65 <= v <= 90 or 97 <= v <= 122: out.append(cls(v | 0x20, v & ~0x20))
                else: out.append(cls(v))
            return ('seq', out) if out else ('succ',)
        if n == 'internal::bytes': return rep(self.ints(a)[0], ('cls', ALLB))
        if n == 'internal::everything': return star(('cls', ALLB))
        if n == 'internal::rep_one_min_max':
            lo, hi, c = self.ints(a)[:3]; e = cls(c & 0xff)
            return ('seq', [rep(lo, e), rep_opt(hi - lo, e), ('not_at', e)])
        if n == 'maximum_rule':
            iv = self.ints(a); return decimal_le(iv[-1] & 0xffffffffffffffff if iv[-1] >= 0 else iv[-1] & 0xff)
        if n in ('internal::action', 'internal::control', 'internal::disable', 'internal::enable', 'internal::state'):
            return ('seq', R())
        if n == 'internal::discard': return ('succ',)
        return None
