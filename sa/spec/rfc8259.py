"""RFC 8259 (JSON), section 2-7, with RFC 3629 well-formed UTF-8, classical semantics; value nesting unfolded to a depth."""
from ..typegraph import cls, seq, sor, star, opt, string


def R(a, b): return (ord(a), ord(b))
def C(*xs):
    out = []
    for x in xs:
        if isinstance(x, str): out.extend(ord(c) for c in x)
        else: out.append(x)
    return cls(*out)
def B(a, b=None): return cls((a, b if b is not None else a))
def S(s): return string([ord(c) for c in s])


cont = B(0x80, 0xBF)
# RFC 3629 UTF8-2 / UTF8-3 / UTF8-4
utf8_multi = [seq(B(0xC2, 0xDF), cont), seq(B(0xE0), B(0xA0, 0xBF), cont), seq(B(0xE1, 0xEC), cont, cont), seq(B(0xED), B(0x80, 0x9F), cont),
              seq(B(0xEE, 0xEF), cont, cont), seq(B(0xF0), B(0x90, 0xBF), cont, cont), seq(B(0xF1, 0xF3), cont, cont, cont), seq(B(0xF4), B(0x80, 0x8F), cont, cont)]
DIGIT = C(R('0', '9')); HEXDIG = C(R('0', '9'), R('a', 'f'), R('A', 'F'))
ws = star(C(' \t\n\r'))
# unescaped = %x20-21 / %x23-5B / %x5D-10FFFF
unescaped = sor(B(0x20, 0x21), B(0x23, 0x5B), B(0x5D, 0x7F), *utf8_multi)
char = sor(unescaped, seq(C('\\'), sor(C('"\\/bfnrt'), seq(C('u'), HEXDIG, HEXDIG, HEXDIG, HEXDIG))))
string_ = seq(C('"'), star(char), C('"'))
int_ = sor(C('0'), seq(C(R('1', '9')), star(DIGIT)))
number = seq(opt(C('-')), int_, opt(seq(C('.'), DIGIT, star(DIGIT))), opt(seq(C('eE'), opt(C('-+')), DIGIT, star(DIGIT))))


def value(d):
    alts = [S('false'), S('null'), S('true'), number, string_]
    if d > 0:
        v = value(d - 1)
        vs = seq(ws, C(','), ws)
        array = seq(seq(ws, C('['), ws), opt(seq(v, star(seq(vs, v)))), seq(ws, C(']'), ws))
        member = seq(string_, seq(ws, C(':'), ws), v)
        obj = seq(seq(ws, C('{'), ws), opt(seq(member, star(seq(vs, member)))), seq(ws, C('}'), ws))
        alts += [obj, array]
    return sor(*alts)


def text(depth):
    """JSON-text = ws value ws, with at most `depth` levels of array/object nesting"""
    return seq(ws, value(depth), ws)
