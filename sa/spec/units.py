"""Reference partitions for unit decoders, written from the standards (not from the code):

UTF-8    Unicode 15, Table 3-7 "Well-Formed UTF-8 Byte Sequences" and Table 3-6 (bit distribution)
UTF-16   Unicode 15, Table 3-5 and D91: a code unit outside D800..DFFF is the scalar value itself; a pair of a high surrogate
         (D800..DBFF) and a low surrogate (DC00..DFFF) is  0x10000 + ( ( hi - 0xD800 ) << 10 ) + ( lo - 0xDC00 ); anything else is ill-formed
UTF-32   D90: one unit, a Unicode scalar value (0..D7FF, E000..10FFFF)
uintN    N/8 bytes in the stated byte order; mask rules compare ( value & mask )

A row is ( size, tuple set, value ): on every input in the tuple set the decoder must report exactly `size` units consumed
and the value.  Everything outside all rows must be reported as "no match" (size 0)."""
from ..bits import *

TABLE_3_7 = [
    # (first byte, second, third, fourth) ranges
    [(0x00, 0x7F)],
    [(0xC2, 0xDF), (0x80, 0xBF)],
    [(0xE0, 0xE0), (0xA0, 0xBF), (0x80, 0xBF)],
    [(0xE1, 0xEC), (0x80, 0xBF), (0x80, 0xBF)],
    [(0xED, 0xED), (0x80, 0x9F), (0x80, 0xBF)],
    [(0xEE, 0xEF), (0x80, 0xBF), (0x80, 0xBF)],
    [(0xF0, 0xF0), (0x90, 0xBF), (0x80, 0xBF), (0x80, 0xBF)],
    [(0xF1, 0xF3), (0x80, 0xBF), (0x80, 0xBF), (0x80, 0xBF)],
    [(0xF4, 0xF4), (0x80, 0x8F), (0x80, 0xBF), (0x80, 0xBF)],
]
# Table 3-6: payload bits of the first byte by length, continuation bytes carry 6 bits
LEAD_BITS = {1: 0x7F, 2: 0x1F, 3: 0x0F, 4: 0x07}
SCALARS = ((0, 0xD7FF), (0xE000, 0x10FFFF))


def lv(sp, name): return sp.byname[name].level


def box(sp, cons):
    """tuple set: every named variable within its interval set"""
    r = sp.full()
    for name, iset in cons.items(): r = sp.AND(r, sp.restrict(lv(sp, name), tuple(iset)))
    return r


def avail_ge(sp, n): return sp.restrict(lv(sp, 'avail'), ((n, sp.byname['avail'].size - 1),))


def utf8_rows(sp):
    rows = []
    for row in TABLE_3_7:
        n = len(row)
        cond = sp.AND(avail_ge(sp, n), box(sp, {'b%d' % i: (r,) for i, r in enumerate(row)}))
        tabs = {}
        for i in range(n):
            mask = LEAD_BITS[n] if i == 0 else 0x3F
            tabs[lv(sp, 'b%d' % i)] = [(x & mask) << (6 * (n - 1 - i)) for x in range(256)]
        rows.append((n, cond, Val(tabs, 0)))
    return rows


def word(sp, first, nbytes, big):
    """value of the nbytes-byte unit starting at byte `first`"""
    tabs = {}
    for j in range(nbytes):
        sh = 8 * (nbytes - 1 - j) if big else 8 * j
        tabs[lv(sp, 'b%d' % (first + j))] = [x << sh for x in range(256)]
    return Val(tabs, 0)


def in_set(sp, val, iset):
    return sp.sumset(val.tabs, ishift(tuple(iset), -val.off))


def utf16_rows(sp, big):
    w0 = word(sp, 0, 2, big); w1 = word(sp, 2, 2, big)
    rows = [(2, sp.AND(avail_ge(sp, 2), in_set(sp, w0, ((0, 0xD7FF), (0xE000, 0xFFFF)))), w0)]
    pair = sp.AND(avail_ge(sp, 4), sp.AND(in_set(sp, w0, ((0xD800, 0xDBFF),)), in_set(sp, w1, ((0xDC00, 0xDFFF),))))
    val = binop('+', binop('*', binop('-', w0, Val.const(0xD800)), Val.const(1024)), binop('+', binop('-', w1, Val.const(0xDC00)), Val.const(0x10000)))
    rows.append((4, pair, val))
    return rows


def utf32_rows(sp, big):
    w = word(sp, 0, 4, big)
    return [(4, sp.AND(avail_ge(sp, 4), in_set(sp, w, SCALARS)), w)]


def uint_rows(sp, nbytes, big, mask=None):
    w = word(sp, 0, nbytes, big)
    if mask is not None: w = Val({l: [x & mask for x in t] for l, t in w.tabs.items()}, 0)
    return [(nbytes, avail_ge(sp, nbytes), w)]


def char_rows(sp, signed):
    l = lv(sp, 'b0')
    return [(1, avail_ge(sp, 1), Val({l: [x - 256 if signed and x >= 128 else x for x in range(256)]}, 0))]
