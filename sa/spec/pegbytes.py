"""Concrete evaluation of a byte-level PEG expression (the forms of sa/typegraph.py) on a byte string - specification side only."""


def ev(e, b, p):
    """-> ('ok', newpos) | ('fail',) | ('raise',)"""
    t = e[0]
    if t == 'cls':
        return ('ok', p + 1) if p < len(b) and b[p] in e[1] else ('fail',)
    if t == 'succ': return ('ok', p)
    if t == 'fail': return ('fail',)
    if t == 'eof': return ('ok', p) if p == len(b) else ('fail',)
    if t == 'seq':
        for x in e[1]:
            r = ev(x, b, p)
            if r[0] != 'ok': return r
            p = r[1]
        return ('ok', p)
    if t == 'sor':
        for x in e[1]:
            r = ev(x, b, p)
            if r[0] != 'fail': return r
        return ('fail',)
    if t == 'opt':
        r = ev(e[1], b, p)
        return ('ok', p) if r[0] == 'fail' else r
    if t == 'star':
        while True:
            r = ev(e[1], b, p)
            if r[0] == 'fail': return ('ok', p)
            if r[0] != 'ok': return r
            if r[1] == p: return ('ok', p)
            p = r[1]
    if t == 'at':
        r = ev(e[1], b, p)
        return ('ok', p) if r[0] == 'ok' else r
    if t == 'not_at':
        r = ev(e[1], b, p)
        if r[0] == 'ok': return ('fail',)
        if r[0] == 'fail': return ('ok', p)
        return r
    if t == 'must':
        r = ev(e[1], b, p)
        return ('raise',) if r[0] == 'fail' else r
    raise Exception('unknown expression ' + str(t))
