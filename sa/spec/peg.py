"""PEG formalism (Ford 2004) extended with must/raise, evaluated over an *answer oracle* for opaque sub-rules.

An expression is a nested tuple:
  ('P', name)            opaque sub-rule (placeholder)         ('success',) ('failure',)
  ('seq', [e...])  ('sor', [e...])  ('star', e)  ('at', e)  ('not_at', e)
  ('raise', name)        global failure naming `name`
  ('partial', [e...])    PEGTL partial<>: match in order, stop (successfully, without rewinding) at the first failure
  ('star_partial', [e...])  ('strict', [e...])  ('star_strict', [e...])   per doc prose (see equivalents.py)
  ('rematch', head, [e...])  head, then each tail on the input head matched (tails never influence consumption)
The oracle maps (name, pos) -> 'fail' | ('succ', newpos) | 'raise'.  Results: ('ok', pos) | ('fail',) | ('raise', who) | ('loop',)"""


class Need(Exception):
    def __init__(self, key):
        self.key = key


def P(n): return ('P', 'vu::P<%d>' % n)
def seq(*x): return x[0] if len(x) == 1 else ('seq', list(x))
def seqn(xs): return ('seq', list(xs))
def sor(*x): return ('sor', list(x))
def star(*x): return ('star', seq(*x))
def plus(*x): return ('seq', [seq(*x), ('star', seq(*x))])
def opt(*x): return ('sor', [seq(*x), ('success',)])
def at(*x): return ('at', seq(*x))
def not_at(*x): return ('not_at', seq(*x))
def name_of(r): return r[1] if r[0] == 'P' else show(r)
def must1(r): return ('sor', [r, ('raise', name_of(r))])
def must(*x): return ('seq', [must1(r) for r in x])
def rep(n, *x): return ('seq', [seq(*x)] * n)
def rep_opt(n, *x): return ('seq', [opt(*x)] * n)
def rep_min_max(lo, hi, *x): return ('seq', [rep(lo, *x), rep_opt(hi - lo, *x), not_at(*x)])
def rep_min(lo, *x): return ('seq', [rep(lo, *x), star(*x)])
def if_then_else(r, s, t): return ('sor', [('seq', [r, s]), ('seq', [not_at(r), t])])
def if_must(r, *s): return ('seq', [r, must(*s)])
def pad(r, s, t=None): return ('seq', [star(s), r, star(t if t is not None else s)])
def lst(r, s): return ('seq', [r, star(s, r)])
SUCCESS = ('success',)
FAILURE = ('failure',)


def show(e):
    k = e[0]
    if k == 'P': return e[1].replace('vu::', '')
    if k in ('success', 'failure'): return k
    if k == 'raise': return 'raise<%s>' % e[1].replace('vu::', '')
    if k in ('seq', 'sor', 'partial', 'star_partial', 'strict', 'star_strict'): return '%s<%s>' % (k, ', '.join(show(x) for x in e[1]))
    if k == 'rematch': return 'rematch<%s; %s>' % (show(e[1]), ', '.join(show(x) for x in e[2]))
    return '%s<%s>' % (k, show(e[1]))


ANY = ('P', '@any')      # one byte available (in.empty() false; consumed by in.bump())
EOF = ('P', 'tao::pegtl::internal::eof')
ANSWERS = {'@any': ('fail', 'new'), 'tao::pegtl::internal::eof': ('fail', 'same')}


def ev(e, pos, A, orc, asked, dom='m'):
    """A: apply mode under which the sub-rules are asked (1 action, 0 nothing); asked: set collecting (name, pos, A)"""
    k = e[0]
    if k == 'P':
        key = (e[1], pos, dom)
        asked.add((e[1], pos, dom, A))
        if key not in orc: raise Need(key)
        a = orc[key]
        if a == 'fail': return ('fail',)
        if a == 'raise': return ('raise', 'raise:' + e[1])
        return ('ok', a[1])
    if k == 'success': return ('ok', pos)
    if k == 'failure': return ('fail',)
    if k == 'raise': return ('raise', 'must:' + e[1])
    if k == 'seq':
        p = pos
        for x in e[1]:
            r = ev(x, p, A, orc, asked, dom)
            if r[0] != 'ok': return r
            p = r[1]
        return ('ok', p)
    if k == 'sor':
        for x in e[1]:
            r = ev(x, pos, A, orc, asked, dom)
            if r[0] != 'fail': return r
        return ('fail',)
    if k == 'star':
        p = pos; n = 0
        while True:
            r = ev(e[1], p, A, orc, asked, dom)
            if r[0] == 'fail': return ('ok', p)
            if r[0] != 'ok': return r
            if r[1] == p: return ('loop',)      # nullable body: the formalism diverges (C11's business)
            p = r[1]; n += 1
            if n > 40: return ('loop',)
    if k == 'at':
        r = ev(e[1], pos, 0, orc, asked, dom)
        return ('ok', pos) if r[0] == 'ok' else r
    if k == 'not_at':
        r = ev(e[1], pos, 0, orc, asked, dom)
        if r[0] == 'ok': return ('fail',)
        if r[0] == 'fail': return ('ok', pos)
        return r
    if k == 'partial':
        p = pos
        for x in e[1]:
            r = ev(x, p, A, orc, asked, dom)
            if r[0] == 'fail': return ('ok', p)
            if r[0] != 'ok': return r
            p = r[1]
        return ('ok', p)
    if k == 'star_partial':
        p = pos; n = 0
        while True:
            q = p
            for i, x in enumerate(e[1]):
                r = ev(x, q, A, orc, asked, dom)
                if r[0] == 'fail': return ('ok', q)       # the final, partial iteration is kept
                if r[0] != 'ok': return r
                q = r[1]
            if q == p: return ('loop',)
            p = q; n += 1
            if n > 40: return ('loop',)
    if k == 'strict':
        r = ev(e[1][0], pos, A, orc, asked, dom)
        if r[0] == 'fail': return ('ok', pos)
        if r[0] != 'ok': return r
        p = r[1]
        for x in e[1][1:]:
            r = ev(x, p, A, orc, asked, dom)
            if r[0] != 'ok': return r
            p = r[1]
        return ('ok', p)
    if k == 'star_strict':
        p = pos; n = 0
        while True:
            r = ev(e[1][0], p, A, orc, asked, dom)
            if r[0] == 'fail': return ('ok', p)
            if r[0] != 'ok': return r
            q = r[1]
            for x in e[1][1:]:
                r = ev(x, q, A, orc, asked, dom)
                if r[0] != 'ok': return r
                q = r[1]
            if q == p: return ('loop',)
            p = q; n += 1
            if n > 40: return ('loop',)
    if k == 'rematch':
        r = ev(e[1], pos, A, orc, asked, dom)
        if r[0] != 'ok': return r
        for x in e[2]:
            t = ev(x, pos, A, orc, asked, '2')     # every tail sees the matched region from its start, on its own input
            if t[0] != 'ok': return t
        return r
    raise Exception('unknown expression ' + str(k))


def all_results(e, orc, npos, budget=4000):
    """evaluate e under the oracle; questions that have no answer yet are enumerated (fail / empty / consuming / raise)"""
    out = set(); asked_all = set()
    stack = [(dict(orc), npos)]
    n = 0
    while stack:
        o, np = stack.pop(); n += 1
        if n > budget: out.add(('budget',)); break
        asked = set()
        try:
            out.add(ev(e, 0, 1, o, asked)); asked_all |= asked
        except Need as nd:
            asked_all |= asked
            for ans in answers_for(nd.key, np):
                o2 = dict(o); o2[nd.key] = ans
                stack.append((o2, np + (1 if ans == ('succ', np + 1) else 0)))
    return out, asked_all


def answers_for(key, npos):
    kinds = ANSWERS.get(key[0], ('fail', 'same', 'new', 'raise'))
    out = []
    for k in kinds:
        out.append({'fail': 'fail', 'raise': 'raise', 'same': ('succ', key[1]), 'new': ('succ', npos + 1)}[k])
    return out
