"""RFC 3986, Appendix A "Collected ABNF for URI", transcribed with classical (backtracking) semantics for sa/lang.py.
Names follow the RFC; `rep(lo, hi, e)` is the ABNF repetition lo*hi."""
from ..typegraph import cls, seq, sor, star, opt, string


def R(a, b): return (ord(a), ord(b))
def C(*xs):
    out = []
    for x in xs:
        if isinstance(x, str): out.extend(ord(c) for c in x)
        else: out.append(x)
    return cls(*out)
def rep(lo, hi, e): return ('seq', [e] * lo + [('opt', e)] * (hi - lo))     # backtracking makes opt^k == {0..k}
def S(s): return string([ord(c) for c in s])


ALPHA = C(R('a', 'z'), R('A', 'Z')); DIGIT = C(R('0', '9')); HEXDIG = C(R('0', '9'), R('a', 'f'), R('A', 'F'))
# dec-octet = DIGIT / %x31-39 DIGIT / "1" 2DIGIT / "2" %x30-34 DIGIT / "25" %x30-35
dec_octet = sor(DIGIT, seq(C(R('1', '9')), DIGIT), seq(C('1'), DIGIT, DIGIT), seq(C('2'), C(R('0', '4')), DIGIT), seq(S('25'), C(R('0', '5'))))
IPv4address = seq(dec_octet, C('.'), dec_octet, C('.'), dec_octet, C('.'), dec_octet)
h16 = rep(1, 4, HEXDIG)
ls32 = sor(seq(h16, C(':'), h16), IPv4address)
hc = seq(h16, C(':'))
def pre(n): return opt(seq(rep(0, n, hc), h16))          # [ *n( h16 ":" ) h16 ]
IPv6address = sor(seq(rep(6, 6, hc), ls32),
                  seq(S('::'), rep(5, 5, hc), ls32),
                  seq(opt(h16), S('::'), rep(4, 4, hc), ls32),
                  seq(pre(1), S('::'), rep(3, 3, hc), ls32),
                  seq(pre(2), S('::'), rep(2, 2, hc), ls32),
                  seq(pre(3), S('::'), hc, ls32),
                  seq(pre(4), S('::'), ls32),
                  seq(pre(5), S('::'), h16),
                  seq(pre(6), S('::')))
unreserved = C(R('a', 'z'), R('A', 'Z'), R('0', '9'), '-._~')
sub_delims = C("!$&'()*+,;=")
pct_encoded = seq(C('%'), HEXDIG, HEXDIG)
IPvFuture = seq(C('v'), HEXDIG, star(HEXDIG), C('.'), sor(unreserved, sub_delims, C(':')), star(sor(unreserved, sub_delims, C(':'))))
# RFC 3986 writes "v" as a case-insensitive ABNF literal
IPvFuture = seq(C('vV'), HEXDIG, star(HEXDIG), C('.'), sor(unreserved, sub_delims, C(':')), star(sor(unreserved, sub_delims, C(':'))))
IP_literal = seq(C('['), sor(IPv6address, IPvFuture), C(']'))
pchar = sor(unreserved, pct_encoded, sub_delims, C(':@'))
query = star(sor(pchar, C('/?'))); fragment = query
segment = star(pchar); segment_nz = seq(pchar, star(pchar))
_nc = sor(unreserved, pct_encoded, sub_delims, C('@')); segment_nz_nc = seq(_nc, star(_nc))
path_abempty = star(seq(C('/'), segment))
path_absolute = seq(C('/'), opt(seq(segment_nz, star(seq(C('/'), segment)))))
path_noscheme = seq(segment_nz_nc, star(seq(C('/'), segment)))
path_rootless = seq(segment_nz, star(seq(C('/'), segment)))
path_empty = ('succ',)
reg_name = star(sor(unreserved, pct_encoded, sub_delims))
host = sor(IP_literal, IPv4address, reg_name)
port = star(DIGIT)
userinfo = star(sor(unreserved, pct_encoded, sub_delims, C(':')))
authority = seq(opt(seq(userinfo, C('@'))), host, opt(seq(C(':'), port)))
scheme = seq(ALPHA, star(C(R('a', 'z'), R('A', 'Z'), R('0', '9'), '+-.')))
hier_part = sor(seq(S('//'), authority, path_abempty), path_absolute, path_rootless, path_empty)
relative_part = sor(seq(S('//'), authority, path_abempty), path_absolute, path_noscheme, path_empty)
relative_ref = seq(relative_part, opt(seq(C('?'), query)), opt(seq(C('#'), fragment)))
URI = seq(scheme, C(':'), hier_part, opt(seq(C('?'), query)), opt(seq(C('#'), fragment)))
URI_reference = sor(URI, relative_ref)
absolute_URI = seq(scheme, C(':'), hier_part, opt(seq(C('?'), query)))

ROOTS = {'URI': URI, 'URI_reference': URI_reference, 'absolute_URI': absolute_URI, 'IPv4address': IPv4address, 'IPv6address': IPv6address}
