"""Grammar analysis: the specified semantics of the abstract grammar (clean model) and the reference DFS.

Abstract grammar: nodes of type any | opt | seq | sor with an ordered list of sub-nodes (analyze_traits).
  any : always consumes when it succeeds; its subs are matched in order (bounded repetition of their conjunction)
  opt : may succeed without consuming; subs in order
  seq : consumes iff some sub consumes; subs in order
  sor : consumes iff every alternative consumes; any alternative may be tried at the start position

Clean model (left-recursion well-formedness, Ford 2004):
  nullable( X )  - least fixpoint of: any -> False, opt -> True, seq -> all subs nullable, sor -> some sub nullable
  left( X )      - subs that may be entered at the position where X was entered:
                   any/opt/seq: sub i if every sub before i is nullable;  sor: every sub
  a grammar can loop without progress only if the left-call graph has a cycle.

Reference DFS: the algorithm of contrib/analyze.hpp as specified (every entry is used as a root, every alternative of a
sor is visited); tied to the C++ by the truth table extracted in sa/checks/c11.py."""
import itertools

ANY, OPT, SEQ, SOR = 0, 1, 2, 3
TNAME = {0: 'any', 1: 'opt', 2: 'seq', 3: 'sor'}


def nullable(g):
    """g: {name: (type, [subs])} -> {name: bool}"""
    nul = {k: False for k in g}
    changed = True
    while changed:
        changed = False
        for k, (t, subs) in g.items():
            if nul[k]: continue
            if t == ANY: v = False
            elif t == OPT: v = True
            elif t == SEQ: v = all(nul[s] for s in subs)
            else: v = any(nul[s] for s in subs)
            if v: nul[k] = True; changed = True
    return nul


def left_edges(g, nul=None):
    nul = nul or nullable(g)
    out = {k: [] for k in g}
    for k, (t, subs) in g.items():
        if t == SOR:
            out[k] = list(subs)
        else:
            for s in subs:
                out[k].append(s)
                if not nul[s]: break
    return out


def left_reach(g, src):
    le = left_edges(g)
    seen = set(); todo = list(le[src])
    while todo:
        x = todo.pop()
        if x in seen: continue
        seen.add(x); todo.extend(le[x])
    return seen


def has_cycle(g):
    le = left_edges(g)
    color = {}
    def dfs(u):
        color[u] = 1
        for v in le[u]:
            c = color.get(v, 0)
            if c == 1: return True
            if c == 0 and dfs(v): return True
        color[u] = 2
        return False
    return any(color.get(k, 0) == 0 and dfs(k) for k in g)


def dfs_problems(g, sor_shortcircuit=False):
    """the reference algorithm: returns (number of problems, {name: consumes})"""
    problems = [0]; stack = set(); results = {}
    def work(name, accum):
        if name not in stack:
            stack.add(name)
            try:
                t, subs = g[name]
                if t in (ANY, OPT, SEQ):
                    a = False
                    for r in subs:
                        a = a or work(r, accum or a)
                    return True if t == ANY else (False if t == OPT else a)
                a = True
                for r in subs:
                    if sor_shortcircuit: a = a and work(r, accum)
                    else: a = work(r, accum) and a
                return a
            finally:
                stack.discard(name)
        if not accum: problems[0] += 1
        return accum
    for k in g:
        results[k] = work(k, False)
    return problems[0], results


def small_graphs(n, maxsubs):
    """all abstract grammars over n nodes with at most maxsubs subs per node"""
    names = list(range(n))
    sublists = [()]
    for k in range(1, maxsubs + 1): sublists += list(itertools.product(names, repeat=k))
    choices = [(t, list(s)) for t in (ANY, OPT, SEQ, SOR) for s in sublists]
    for combo in itertools.product(choices, repeat=n):
        yield {i: combo[i] for i in range(n)}


def check_algorithm(n, maxsubs, sor_shortcircuit=False, limit=None):
    """bounded-exhaustive: every small grammar with a left-call cycle must get >= 1 problem from the reference DFS, and
    'consumes' must never be claimed for a nullable rule.  Returns (graphs, cyclic, counterexamples[:5])"""
    cnt = 0; cyc = 0; bad = []
    for g in small_graphs(n, maxsubs):
        cnt += 1
        if limit and cnt > limit: break
        c = has_cycle(g)
        p, res = dfs_problems(g, sor_shortcircuit)
        if c:
            cyc += 1
            if p == 0 and len(bad) < 5: bad.append(('cycle without a reported problem', g))
        else:
            nul = nullable(g)
            for k in g:
                if res[k] and nul[k] and len(bad) < 5: bad.append(('consumes claimed for the nullable node %s' % k, g))
    return cnt, cyc, bad


def show(g):
    return '; '.join('%s = %s<%s>' % (k, TNAME[t], ', '.join(map(str, s))) for k, (t, s) in sorted(g.items(), key=lambda kv: str(kv[0])))
