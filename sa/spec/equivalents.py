"""The [Equivalent] clauses of doc/Rule-Reference.md (and the prose of the rules documented without one),
transcribed as PEG expressions over placeholders.  Every entry carries the exact doc clause(s) it was transcribed
from; check_doc() verifies that the doc still says so (a changed doc is analysis-broken, not a pass).

Key: name of the public rule template in namespace tao::pegtl.  Value: (doc section title, [doc clauses], builder)
where builder( ints, rules ) -> expression; ints = evaluated non-type arguments, rules = list of sub-rule expressions."""
from .peg import *


def _seq(rs): return ('seq', list(rs)) if len(rs) != 1 else rs[0]


TABLE = {
    # --- classical combinators (PEG formalism itself; C01) ---
    'seq': ('seq< R... >', [], lambda n, r: ('seq', list(r))),
    'sor': ('sor< R... >', [], lambda n, r: ('sor', list(r))),
    'star': ('star< R... >', [], lambda n, r: ('star', _seq(r))),
    'plus': ('plus< R... >', ['`rep_min< 1, R... >`'], lambda n, r: ('seq', [_seq(r), ('star', _seq(r))])),
    'opt': ('opt< R... >', ['`sor< seq< R... >, success >`'], lambda n, r: ('sor', [_seq(r), SUCCESS])),
    'at': ('at< R... >', [], lambda n, r: ('at', _seq(r))),
    'not_at': ('not_at< R... >', [], lambda n, r: ('not_at', _seq(r))),
    # --- convenience (C09) ---
    'if_must': ('if_must< R, S... >', ['`seq< R, must< S... > >`', '`if_then_else< R, must< S... >, failure >`'],
                lambda n, r: ('seq', [r[0], must(*r[1:])])),
    'if_must_else': ('if_must_else< R, S, T >', ['`if_then_else< R, must< S >, must< T > >`'], lambda n, r: if_then_else(r[0], must(r[1]), must(r[2]))),
    'if_then_else': ('if_then_else< R, S, T >', ['`sor< seq< R, S >, seq< not_at< R >, T > >`'], lambda n, r: if_then_else(r[0], r[1], r[2])),
    'list': ('list< R, S >', ['`seq< R, star< S, R > >`'], lambda n, r: lst(r[0], r[1]) if len(r) == 2 else lst(r[0], pad(r[1], r[2]))),
    'list_must': ('list_must< R, S >', ['`seq< R, star< if_must< S, R > > >`'],
                  lambda n, r: ('seq', [r[0], ('star', if_must(r[1], r[0]))]) if len(r) == 2 else ('seq', [r[0], ('star', if_must(pad(r[1], r[2]), r[0]))])),
    'list_tail': ('list_tail< R, S >', ['`seq< list< R, S >, opt< S > >`', '`seq< R, star_partial< S, R > >`'],
                  lambda n, r: ('seq', [lst(r[0], r[1]), opt(r[1])]) if len(r) == 2 else ('seq', [lst(r[0], pad(r[1], r[2])), opt(star(r[2]), r[1])])),
    'minus': ('minus< M, S >', ['`rematch< M, not_at< S, eof > >`'], lambda n, r: ('rematch', r[0], [not_at(r[1], EOF)])),
    'must': ('must< R... >', ['`seq< sor< R, raise< R > >... >`'], lambda n, r: must(*r)),
    'opt_must': ('opt_must< R, S... >', ['`opt< if_must< R, S... > >`', '`if_then_else< R, must< S... >, success >`'],
                 lambda n, r: ('sor', [('seq', [r[0], must(*r[1:])]), SUCCESS])),
    'pad': ('pad< R, S, T = S >', ['`seq< star< S >, R, star< T > >`'], lambda n, r: pad(r[0], r[1], r[2] if len(r) > 2 else r[1])),
    'pad_opt': ('pad_opt< R, P >', ['`seq< star< P >, opt< R, star< P > > >`'], lambda n, r: ('seq', [star(r[1]), opt(r[0], star(r[1]))])),
    'partial': ('partial< R... >', ['`opt< R >` when `R...` is a single rule'], lambda n, r: ('partial', list(r))),
    'rematch': ('rematch< R, S... >', [], lambda n, r: ('rematch', r[0], list(r[1:]))),
    'rep': ('rep< Num, R... >', ['`seq< seq< R... >, ..., seq< R... > >` where `seq< R... >` is repeated `Num` times'], lambda n, r: rep(n[0], *r)),
    'rep_max': ('rep_max< Max, R... >', ['`rep_min_max< 0, Max, R... >`'], lambda n, r: rep_min_max(0, n[0], *r)),
    'rep_min': ('rep_min< Min, R... >', ['`seq< rep< Min, R... >, star< R... > >`'], lambda n, r: rep_min(n[0], *r)),
    'rep_min_max': ('rep_min_max< Min, Max, R... >', ['`seq< rep< Min, R... >, rep_opt< Max - Min, R... >, not_at< R... > >`'], lambda n, r: rep_min_max(n[0], n[1], *r)),
    'rep_opt': ('rep_opt< Num, R... >', ['`rep< Num, opt< R... > >`'], lambda n, r: rep_opt(n[0], *r)),
    'star_must': ('star_must< R, S... >', ['`star< if_must< R, S... > >`'], lambda n, r: ('star', ('seq', [r[0], must(*r[1:])]))),
    'star_partial': ('star_partial< R... >', [], lambda n, r: ('star_partial', list(r))),
    'star_strict': ('star_strict< R... >', [], lambda n, r: ('star_strict', list(r))),
    'strict': ('strict< R... >', ['`sor< not_at< R1 >, seq< R... > >` if `R1` is the first rule of `R...`'], lambda n, r: ('sor', [not_at(r[0]), ('seq', list(r))])),
    'until': ('until< R, S... >', ['`seq< star< not_at< R >, S... >, R >`'],
              lambda n, r: ('seq', [('star', ('seq', [not_at(r[0])] + list(r[1:]))), r[0]]) if len(r) > 1 else ('seq', [('star', ('seq', [not_at(r[0]), ANY])), r[0]])),
    # --- contrib ---
    'separated_seq': ('', [], lambda n, r: ('seq', [x for i, y in enumerate(r[1:]) for x in ((r[0], y) if i else (y,))])),
    'if_then': ('', [], None),   # built explicitly in the universe table (else_if_then / else_then chains)
}

EXTRA_DOC = [('until< R >', ['`until< R, any >`']), ('list< R, S, P >', ['`seq< R, star< pad< S, P >, R > >`']),
             ('list_must< R, S, P >', ['`seq< R, star< if_must< pad< S, P >, R > > >`']), ('list_tail< R, S, P >', ['`seq< list< R, S, P >, opt< star< P >, S > >`'])]


def check_doc(doc_text):
    """every transcribed clause must still be present in its section of Rule-Reference.md; returns list of problems"""
    probs = []
    sections = {}
    cur = None
    for line in doc_text.splitlines():
        if line.startswith('###### `'):
            cur = line[len('###### `'):].rstrip('`').strip()
            sections.setdefault(cur, [])
        elif cur is not None:
            sections[cur].append(line)
    items = [(v[0], v[1]) for v in TABLE.values()] + EXTRA_DOC
    for title, clauses in items:
        if not title or not clauses: continue
        body = '\n'.join(sections.get(title, []))
        if title not in sections:
            probs.append('section `%s` not found in doc/Rule-Reference.md' % title); continue
        for c in clauses:
            if ('[Equivalent] to ' + c) not in body:
                probs.append('doc/Rule-Reference.md section `%s` no longer says "[Equivalent] to %s"' % (title, c))
    return probs
