"""Byte-level PEG expressions evaluated over the tuple space of sa/bits.py (availability, b0..b8): the meaning the type graph
translator (sa/typegraph.py) gives to a rule, as a partition of all inputs into ( result, consumed ) classes.

ev( sp, e, pos, cond ) yields ( 'ok' | 'fail' | 'window', new position, tuple set ); ordered choice, possessive repetition,
predicates as in the PEG formalism (sa/spec/peg.py); 'window' marks inputs on which the expression looks beyond the
modelled bytes."""
from ..bits import *


def avail_gt(sp, j): return sp.restrict(sp.byname['avail'].level, ((j + 1, CAP),))


def ev(sp, e, pos, cond):
    if cond is None: return
    t = e[0]
    if t == 'succ': yield 'ok', pos, cond
    elif t == 'fail': yield 'fail', pos, cond
    elif t == 'eof':
        if pos >= CAP:
            yield 'window', pos, cond; return
        more = avail_gt(sp, pos)
        a = sp.DIFF(cond, more); b = sp.AND(cond, more)
        if a is not None: yield 'ok', pos, a
        if b is not None: yield 'fail', pos, b
    elif t == 'cls':
        if pos >= CAP:
            yield 'window', pos, cond; return
        iv = inorm([(x, x) for x in e[1]]) if not isinstance(e[1], tuple) else e[1]
        hit = sp.AND(avail_gt(sp, pos), sp.restrict(sp.byname['b%d' % pos].level, iv))
        a = sp.AND(cond, hit); b = sp.DIFF(cond, hit)
        if a is not None: yield 'ok', pos + 1, a
        if b is not None: yield 'fail', pos, b
    elif t == 'seq':
        def rec(i, p, c):
            if i == len(e[1]):
                yield 'ok', p, c; return
            for st, p2, c2 in ev(sp, e[1][i], p, c):
                if st == 'ok': yield from rec(i + 1, p2, c2)
                else: yield st, pos, c2
        yield from rec(0, pos, cond)
    elif t == 'sor':
        def rec(i, c):
            if i == len(e[1]):
                yield 'fail', pos, c; return
            for st, p2, c2 in ev(sp, e[1][i], pos, c):
                if st == 'fail': yield from rec(i + 1, c2)
                else: yield st, p2, c2
        yield from rec(0, cond)
    elif t == 'opt':
        for st, p2, c2 in ev(sp, e[1], pos, cond):
            if st == 'fail': yield 'ok', pos, c2
            else: yield st, p2, c2
    elif t == 'star':
        def rec(p, c, n):
            for st, p2, c2 in ev(sp, e[1], p, c):
                if st == 'fail': yield 'ok', p, c2
                elif st == 'window': yield st, p2, c2
                elif p2 == p: raise Unmodelled('star over an expression that matches the empty string')
                else: yield from rec(p2, c2, n + 1)
        yield from rec(pos, cond, 0)
    elif t == 'at':
        for st, p2, c2 in ev(sp, e[1], pos, cond): yield st, pos, c2
    elif t == 'not_at':
        for st, p2, c2 in ev(sp, e[1], pos, cond):
            yield {'ok': 'fail', 'fail': 'ok', 'window': 'window'}[st], pos, c2
    elif t == 'must':
        for st, p2, c2 in ev(sp, e[1], pos, cond):
            yield ('raise' if st == 'fail' else st), p2, c2
    else:
        raise Unmodelled('expression ' + str(t))


def partition(sp, e, cond=None):
    """{ ( status, consumed ): tuple set }"""
    out = {}
    for st, p, c in ev(sp, e, 0, cond if cond is not None else sp.full()):
        k = (st, p if st == 'ok' else 0)
        out[k] = sp.OR(out.get(k), c)
    return out
