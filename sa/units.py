"""translation units of the universe"""
RULES = [('universe/u_rules.cc', ['VU_PART=%d' % i]) for i in range(1, 7)]
DISPATCH = [('universe/u_dispatch.cc', ['VU_PART=%d' % i]) for i in range(1, 3)]
INPUTS = [('universe/u_inputs.cc', [])]
ATOMS = [('universe/u_atoms.cc', ['VU_PART=%d' % i]) for i in range(1, 4)]
EQUIV = [('universe/u_equiv.cc', ['VU_PART=%d' % i]) for i in range(1, 5)]
TRAITS = [('universe/u_traits.cc', ['VU_PART=%d' % i]) for i in range(1, 5)]
ALL = [('universe/u_all.cc', [])]
GRAMMARS = [('universe/u_grammars.cc', [])]
