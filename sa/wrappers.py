"""Control wrappers forward 1:1 (DESIGN.md 4.3): every hook h of a shipped wrapper calls the wrapped h exactly
once on every normal path, with the documented state permutation, and calls no other closing hook."""
import collections
from . import core
from .exec import *
from .mon_base import *
from .hooks import HooksMonitor

WRAPPERS = {
    'tao::pegtl::remove_first_state': lambda n, targs: list(range(1, n)),
    'tao::pegtl::remove_last_states': lambda n, targs: list(range(0, n - targs[-1])),
    'tao::pegtl::shuffle_states': None,    # permutation from the Shuffle argument, see shuffle_spec
}
FORWARDED = ('start', 'success', 'failure', 'unwind', 'raise', 'raise_nested', 'apply', 'apply0')


def shuffle_spec(shuffle, n):
    """the meaning of the shuffle names: new[i] = old[spec(i)]"""
    tn = shuffle.get('tn') or shuffle.get('q')
    a = [x.get('v') for x in shuffle.get('a', []) if x.get('k') == 'int']
    if tn == 'tao::pegtl::internal::rotate_left': return [(i + a[0]) % n for i in range(n)]
    if tn == 'tao::pegtl::internal::rotate_right': return [(i - a[0]) % n for i in range(n)]
    if tn == 'tao::pegtl::internal::reverse': return [n - 1 - i for i in range(n)]
    return None


class WrapMonitor(HooksMonitor):
    def __init__(self, db):
        HooksMonitor.__init__(self, db)
        self.state_index = {}
        self.calls = []

    def on_hook(self, ex, e, cn, vals, st, fr):
        idx = []
        for v in vals:
            if isinstance(v, Obj) and v.addr in self.state_index: idx.append(self.state_index[v.addr])
        st.events[-0:] = st.events   # no-op; the argument indices travel with the event below
        self._last = (cn, tuple(idx), (e.get('cc') or {}).get('s'))

    def hook_event(self, ex, e, cn, vals, st, fr):
        self.on_hook(ex, e, cn, vals, st, fr)
        last = self._last
        def g():
            s1 = st.copy(); s1.events.append(('hook',) + last)
            if cn in ('raise', 'raise_nested') or e.get('noret'):
                yield Thrown('raise'), s1; return
            crt = e.get('crt', '')
            if crt == 'bool':
                s1b = s1.copy(); s1.events.append('ret:T'); s1b.events.append('ret:F')
                yield True, s1; yield False, s1b
            else: yield None, s1
        return g()

    def call(self, ex, e, cu, cq, cn, ob, objloc, av, st, fr):
        # member hooks of a state object (state_control): events too
        if cn in FORWARDED and isinstance(ob, Obj) and ob.addr in self.state_index and self.db.get(cu) is None:
            vals = [ex.argval(a, st) for a in av]
            idx = tuple(self.state_index[v.addr] for v in vals if isinstance(v, Obj) and v.addr in self.state_index)
            def g():
                s1 = st.copy(); s1.events.append(('state', cn, self.state_index[ob.addr], idx)); yield None, s1
            return g()
        return HooksMonitor.call(self, ex, e, cu, cq, cn, ob, objloc, av, st, fr)


def run_hook(db, fn):
    mon = WrapMonitor(db); ex = Exec(db, mon); st = State()
    f = Frame(fn); ex.frames.append(f)
    inp = new_input(st)
    k = 0; bound = False
    for p in fn['params']:
        t = p['t']
        if not bound and ('_input<' in t) and t.startswith('const tao::pegtl::') and t.endswith('&'):
            EnvView(st, f.fid)[p['id']] = inp; bound = True
        elif not bound and is_input_type(t):
            EnvView(st, f.fid)[p['id']] = inp; bound = True
        elif 'inputerator' in t:
            EnvView(st, f.fid)[p['id']] = Cur('E')
        elif t.endswith('&'):
            o = Obj(st.alloc({'__type': t, '__state': True})); mon.state_index[o.addr] = k; k += 1
            EnvView(st, f.fid)[p['id']] = o
        else:
            EnvView(st, f.fid)[p['id']] = Unknown('param')
    rows = collections.Counter()
    for comp in ex.run_fn(fn, f, st):
        s = comp[-1]
        rows[(tuple(s.events), comp[0], comp[1] if comp[0] == 'return' and isinstance(comp[1], bool) else None)] += 1
    return rows, k


def check(db, R):
    n = 0
    for fn in db.order:
        cls = fn.get('cls') or {}
        tn = cls.get('tn')
        if fn['n'] not in FORWARDED or '/tao/pegtl/' not in fn['pat']: continue
        if tn in WRAPPERS:
            n += 1
            check_simple(db, R, fn, cls, tn)
        elif tn == 'tao::pegtl::state_control::control' or (cls.get('q', '').startswith('tao::pegtl::state_control') and cls.get('q', '').endswith('::control')):
            n += 1
            check_state_control(db, R, fn, cls)
    R.cov['wrapper_hooks_analysed'] = n
    if n < 40:
        R.broke('only %d wrapper hooks analysed (floor 40)' % n)


def site(fn, cls):
    return '%s::%s::%s' % (core.relfile(fn['pat']), (cls.get('tn') or cls.get('q', '')).replace('tao::pegtl::', ''), fn['n'])


def check_simple(db, R, fn, cls, tn):
    try:
        rows, nstates = run_hook(db, fn)
    except (Budget, Unmodelled) as e:
        R.broke('wrapper hook %s: %s' % (fn['disp'][:160], e)); return
    if tn == 'tao::pegtl::shuffle_states':
        spec = shuffle_spec(cls['a'][1], nstates)
        if spec is None:
            R.broke('unknown shuffle in ' + fn['disp'][:160]); return
    else:
        ints = [x.get('v') for x in cls.get('a', []) if x.get('k') == 'int']
        spec = WRAPPERS[tn](nstates, ints)
    probs = []
    for (ev, kind, val), cnt in rows.items():
        hooks = [e for e in ev if isinstance(e, tuple) and e[0] == 'hook']
        if len(hooks) != 1:
            probs.append('calls %d wrapped hooks (%s) on one path, expected exactly one' % (len(hooks), [h[1] for h in hooks])); continue
        h = hooks[0]
        if h[1] != fn['n']: probs.append('forwards %s to %s' % (fn['n'], h[1]))
        if list(h[2]) != list(spec): probs.append('forwards the states in order %s, documented order is %s' % (list(h[2]), list(spec)))
        if kind == 'return' and fn['rt'] == 'bool':
            rets = [e for e in ev if e in ('ret:T', 'ret:F')]
            if rets and ((rets[-1] == 'ret:T') != (val is True)): probs.append('returns %s although the wrapped hook returned %s' % (val, rets[-1]))
        if fn['n'] in ('raise', 'raise_nested') and kind != 'throw': probs.append('[[noreturn]] hook returns normally')
    R.ob(ok=not probs, key=fn['disp'])
    for p in probs:
        R.violation('H8', site(fn, cls), p, {'function': fn['disp']})


def check_state_control(db, R, fn, cls):
    """state_control< Control >::control< Rule >: every hook reaches the control state iff State::enable< Rule > and the wrapped control iff
    Control< Rule >::enable (hidden internal rules never reach the wrapped control: it has not seen their start either)"""
    try:
        rows, nstates = run_hook(db, fn)
    except (Budget, Unmodelled) as e:
        R.broke('wrapper hook %s: %s' % (fn['disp'][:160], e)); return
    probs = []
    # enable flags of the universe's controls / states (mirrors universe/u_dispatch.cc)
    ctl_enabled = 'base_ctl0' not in (cls.get('s') or '')
    state_enabled = not any('CtlState0' in (p.get('t') or '') for p in fn['params'])
    # the control state is the first state parameter of the hook, the others go through unchanged
    sidx = 0
    rest = list(range(1, nstates))
    for (ev, kind, val), cnt in rows.items():
        hooks = [e for e in ev if isinstance(e, tuple) and e[0] == 'hook']
        states = [e for e in ev if isinstance(e, tuple) and e[0] == 'state']
        if fn['n'] in ('raise', 'raise_nested', 'apply', 'apply0') and not ctl_enabled: continue      # only reachable when control is enabled
        if ctl_enabled:
            if len(hooks) != 1 or hooks[0][1] != fn['n']:
                probs.append('wrapped control hook calls on one path: %s, expected exactly one %s' % ([h[1] for h in hooks], fn['n']))
            elif list(hooks[0][2]) != rest:
                probs.append('forwards the states %s to the wrapped control, expected %s (control state dropped)' % (list(hooks[0][2]), rest))
        elif hooks:
            probs.append('control is disabled for the rule (a hidden internal rule), but %s of the wrapped control is called: it never saw the start of this rule' % [h[1] for h in hooks])
        if state_enabled:
            if len(states) != 1 or states[0][1] != fn['n'] or states[0][2] != sidx:
                probs.append('state hook calls on one path: %s, expected exactly one %s on the control state' % ([(s[1], s[2]) for s in states], fn['n']))
            elif list(states[0][3]) != rest:
                probs.append('passes the states %s to the state hook, expected %s' % (list(states[0][3]), rest))
        elif states:
            probs.append('the control state is not interested in the rule (enable< Rule > is false) but its %s is called' % [s2[1] for s2 in states])
        # exception order: a hook of the wrapped control may throw (must_if< Errors >::control< Rule >::failure raises by design; any start may);
        # match() calls success/failure after the unwind guard is gone and start before it exists, so the observing state stays balanced only if
        # it is told of the end of an attempt BEFORE the wrapped hook runs and of the start AFTER the wrapped start returned
        if ctl_enabled and state_enabled and len(hooks) == 1 and len(states) == 1 and fn['n'] in ('start', 'success', 'failure'):
            ih = [i for i, e in enumerate(ev) if e is hooks[0]][0]; is_ = [i for i, e in enumerate(ev) if e is states[0]][0]
            if fn['n'] == 'start' and is_ < ih:
                probs.append('tells the control state of the start before the wrapped control\'s start returned: when that throws, the state keeps an open start that no success, failure or unwind closes (no unwind guard exists yet)')
            if fn['n'] in ('success', 'failure') and ih < is_:
                probs.append('calls the wrapped control\'s %s before telling the control state: when that hook throws (must_if raises from failure) the state sees neither %s nor unwind for a start it has seen (the unwind guard is already gone)' % (fn['n'], fn['n']))
    R.ob(ok=not probs, key=fn['disp'])
    for p in sorted(set(probs)):
        R.violation('H8', site(fn, cls), p, {'function': fn['disp']})
