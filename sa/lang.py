"""LANG: languages of grammars as alternating automata (DESIGN.md 3.5).

For a PEG expression e and a continuation language K the nodes  Acc(e, K) ("e succeeds and the rest is in K")  and
Fail(e)  are built by structural recursion; only union and intersection occur, so the result is an alternating finite
automaton in which ordered choice and possessive repetition are exact.  A reference grammar (classical, backtracking
semantics) is compiled into the same node table.  Decision: determinise right-to-left (a column = the set of nodes that accept
the current suffix), explore all reachable columns of the joint automaton and compare the membership of the PEG root and of
the reference root in every column.  A differing column yields a shortest witness string.

Columns are evaluated in batches with numpy when it is available (python3-vt), otherwise one by one."""
import sys, time

try:
    import numpy as np
except ImportError:          # pragma: no cover
    np = None

ALL = frozenset(range(256))


class AFA:
    def __init__(self):
        self.nodes = []; self.memo = {}
        self.TRUE = self.mk(('true',)); self.FALSE = self.mk(('false',)); self.EPS = self.mk(('eps',))
        self.NONEMPTY = self.mk(('sym', ALL, self.TRUE))
        self.FREE = None

    def free(self):
        """an uninterpreted predicate on suffixes: its value is chosen freely for every suffix (marks the end of a consumed prefix)"""
        if self.FREE is None: self.FREE = self.mk(('free',))
        return self.FREE

    def mk(self, n):
        i = self.memo.get(n)
        if i is None:
            self.nodes.append(n); i = len(self.nodes) - 1; self.memo[n] = i
        return i

    def OR(self, xs):
        xs = [x for x in dict.fromkeys(xs) if x != self.FALSE]
        if self.TRUE in xs: return self.TRUE
        if not xs: return self.FALSE
        return xs[0] if len(xs) == 1 else self.mk(('or', tuple(xs)))

    def AND(self, xs):
        xs = [x for x in dict.fromkeys(xs) if x != self.TRUE]
        if self.FALSE in xs: return self.FALSE
        if not xs: return self.TRUE
        return xs[0] if len(xs) == 1 else self.mk(('and', tuple(xs)))

    def hole(self):
        self.nodes.append(('hole',)); return len(self.nodes) - 1

    def fill(self, h, t):
        self.nodes[h] = ('alias', t)


class Peg:
    """ordered choice / possessive repetition; 'must' = abort (a global failure is neither accepted nor a local failure)"""
    def __init__(s, a):
        s.a = a; s.ma = {}; s.mf = {}

    def acc(s, e, K):
        k = (id(e), K)
        if k not in s.ma:
            s.ma[k] = None; s.ma[k] = s._acc(e, K)
        if s.ma[k] is None: raise Exception('left recursion in the grammar expression')
        return s.ma[k]

    def fail(s, e):
        k = id(e)
        if k not in s.mf: s.mf[k] = s._fail(e)
        return s.mf[k]

    def _acc(s, e, K):
        a = s.a; t = e[0]
        if t == 'cls': return a.mk(('sym', e[1], K)) if e[1] else a.FALSE
        if t == 'succ': return K
        if t == 'fail': return a.FALSE
        if t == 'eof': return a.AND([a.EPS, K])
        if t == 'seq':
            for x in reversed(e[1]): K = s.acc(x, K)
            return K
        if t == 'sor':
            res = a.FALSE
            for x in reversed(e[1]): res = a.OR([s.acc(x, K), a.AND([s.fail(x), res])])
            return res
        if t == 'opt': return a.OR([s.acc(e[1], K), a.AND([s.fail(e[1]), K])])
        if t == 'star':
            h = a.hole(); s.ma[(id(e), K)] = h
            a.fill(h, a.OR([s.acc(e[1], h), a.AND([s.fail(e[1]), K])])); return h
        if t == 'at': return a.AND([s.acc(e[1], a.TRUE), K])
        if t == 'not_at': return a.AND([s.fail(e[1]), K])
        if t == 'must': return s.acc(e[1], K)
        raise Exception('unknown expression ' + str(t))

    def _fail(s, e):
        a = s.a; t = e[0]
        if t == 'cls': return a.OR([a.EPS, a.mk(('sym', ALL - e[1], a.TRUE))]) if e[1] != ALL else a.EPS
        if t == 'succ': return a.FALSE
        if t == 'fail': return a.TRUE
        if t == 'eof': return a.NONEMPTY
        if t == 'seq':
            res = a.FALSE
            for x in reversed(e[1]): res = a.OR([s.fail(x), s.acc(x, res)])
            return res
        if t == 'sor': return a.AND([s.fail(x) for x in e[1]])
        if t in ('opt', 'star', 'must'): return a.FALSE
        if t == 'at': return s.fail(e[1])
        if t == 'not_at': return s.acc(e[1], a.TRUE)
        raise Exception('unknown expression ' + str(t))


class Ref:
    """classical (nondeterministic, backtracking) semantics for reference grammars (ABNF)"""
    def __init__(s, a):
        s.a = a; s.ma = {}

    def acc(s, e, K):
        k = (id(e), K)
        if k not in s.ma:
            s.ma[k] = None; s.ma[k] = s._acc(e, K)
        return s.ma[k]

    def _acc(s, e, K):
        a = s.a; t = e[0]
        if t == 'cls': return a.mk(('sym', e[1], K)) if e[1] else a.FALSE
        if t == 'succ': return K
        if t == 'fail': return a.FALSE
        if t == 'seq':
            for x in reversed(e[1]): K = s.acc(x, K)
            return K
        if t == 'sor': return a.OR([s.acc(x, K) for x in e[1]])
        if t == 'opt': return a.OR([s.acc(e[1], K), K])
        if t == 'star':
            h = a.hole(); s.ma[(id(e), K)] = h
            a.fill(h, a.OR([K, s.acc(e[1], h)])); return h
        raise Exception('unknown reference expression ' + str(t))


class TooBig(Exception):
    pass


def explore(a, roots, maxcols=3000000, batch=8192, want_witnesses=12):
    """roots: {name: (peg node, reference node)}.  Returns dict(columns, classes, nodes, mismatches[(name, word, peg, ref)], time)"""
    t0 = time.time()
    N = len(a.nodes)
    def res(i):
        while a.nodes[i][0] == 'alias': i = a.nodes[i][1]
        return i
    # byte classes: bytes that no sym node distinguishes
    sets = list(set(n[1] for n in a.nodes if n[0] == 'sym'))
    sig = {}
    for b in range(256):
        sig.setdefault(tuple(b in s for s in sets), []).append(b)
    classes = list(sig.values())
    # topological order over same-position dependencies
    order = []; state = [0] * N
    for i0 in range(N):
        if state[i0]: continue
        stack = [(i0, 0)]
        while stack:
            n, ph = stack.pop()
            if ph == 0:
                if state[n] == 2: continue
                if state[n] == 1: raise Exception('epsilon cycle (a loop whose body accepts the empty string) at node %d' % n)
                state[n] = 1; stack.append((n, 1))
                k = a.nodes[n]
                ch = k[1] if k[0] in ('or', 'and') else ((k[1],) if k[0] == 'alias' else ())
                for c in ch:
                    if state[c] == 0: stack.append((c, 0))
                    elif state[c] == 1: raise Exception('epsilon cycle (a loop whose body accepts the empty string)')
            else:
                state[n] = 2; order.append(n)
    # frontier: the nodes whose value in the column of the suffix is needed to compute the next column
    FREE = a.FREE
    front = sorted(set(res(n[2]) for n in a.nodes if n[0] == 'sym') | set(res(x) for pr in roots.values() for x in pr) | ({FREE} if FREE is not None else set()))
    fidx = {n: i for i, n in enumerate(front)}
    F = len(front)
    rootpos = {name: (fidx[res(p)], fidx[res(r)]) for name, (p, r) in roots.items()}
    # per class: the sym nodes that fire
    sym_by_class = []
    for cl in classes:
        b = cl[0]
        sym_by_class.append([(n, fidx[res(k[2])]) for n, k in enumerate(a.nodes) if k[0] == 'sym' and b in k[1]])
    comb = [(n, a.nodes[n][0], [c for c in a.nodes[n][1]] if a.nodes[n][0] in ('or', 'and') else ([a.nodes[n][1]] if a.nodes[n][0] == 'alias' else None)) for n in order
            if a.nodes[n][0] in ('or', 'and', 'alias')]
    TRUE = a.TRUE; EPS = a.EPS

    def eval_batch(cols, ci, freeval=False):
        """cols: (B, F) bool array of frontier values of the suffix columns; ci: class index or None for the end column"""
        B = cols.shape[0]
        v = np.zeros((N, B), dtype=bool)
        v[TRUE] = True
        if FREE is not None and freeval: v[FREE] = True
        if ci is None: v[EPS] = True
        else:
            for n, kf in sym_by_class[ci]: v[n] = cols[:, kf]
        for n, kind, ch in comb:
            if kind == 'alias': v[n] = v[ch[0]]
            elif kind == 'or':
                x = v[ch[0]].copy()
                for c in ch[1:]: x |= v[c]
                v[n] = x
            else:
                x = v[ch[0]].copy()
                for c in ch[1:]: x &= v[c]
                v[n] = x
        return v[front].T.copy()

    if np is None:
        raise Exception('numpy is required for the language engine (run the check with python3-vt)')
    batch = max(256, min(batch, 30000000 // max(N, 1)))
    end = eval_batch(np.zeros((1, F), dtype=bool), None)
    store = [end[0]]; parent = [None]; index = {np.packbits(end[0]).tobytes(): 0}
    mismatches = []
    frees = (False, True) if FREE is not None else (False,)
    if FREE is not None:
        end1 = eval_batch(np.zeros((1, F), dtype=bool), None, True)
        index[np.packbits(end1[0]).tobytes()] = 1; store.append(end1[0]); parent.append(None)
    def check(i):
        row = store[i]
        for name, (pi, ri) in rootpos.items():
            if bool(row[pi]) != bool(row[ri]): mismatches.append((name, i, bool(row[pi]), bool(row[ri])))
    for i0 in range(len(store)): check(i0)
    done = 0
    while done < len(store):
        hi = min(len(store), done + batch)
        cols = np.array(store[done:hi], dtype=bool)
        for ci, fv in [(c, f) for c in range(len(classes)) for f in frees]:
            nxt = eval_batch(cols, ci, fv)
            packed = np.packbits(nxt, axis=1)
            for j in range(nxt.shape[0]):
                key = packed[j].tobytes()
                if key not in index:
                    index[key] = len(store); store.append(nxt[j]); parent.append((done + j, ci)); check(len(store) - 1)
                    if len(store) > maxcols: raise TooBig('more than %d columns' % maxcols)
        done = hi
    def word(i):
        w = []
        while parent[i] is not None:
            i2, ci = parent[i]; w.append(classes[ci][0]); i = i2
        return bytes(w)
    out = []
    for name, i, pv, rv in sorted(mismatches, key=lambda m: len(word(m[1])))[:want_witnesses]:
        out.append((name, word(i), pv, rv))
    return {'columns': len(store), 'classes': len(classes), 'nodes': N, 'frontier': F, 'mismatching_columns': len(mismatches), 'witnesses': out, 'time': time.time() - t0}


def compare(peg_expr, ref_expr, name='root', **kw):
    """language of seq< peg_expr, eof > (PEG semantics) vs the reference expression (classical semantics)"""
    a = AFA(); P = Peg(a); Rf = Ref(a)
    roots = {name: (P.acc(('seq', [peg_expr, ('eof',)]), a.TRUE), Rf.acc(ref_expr, a.EPS))}
    return explore(a, roots, **kw)


def compare_peg(peg1, peg2, name='root', **kw):
    """two PEG expressions used as prefix matchers: on every input both fail, or both succeed consuming the same prefix.
    Realised with an uninterpreted continuation X (a free predicate on suffixes): Acc(e1, X) == Acc(e2, X) for every X."""
    a = AFA(); P = Peg(a); X = a.free()
    roots = {name: (P.acc(peg1, X), P.acc(peg2, X))}
    return explore(a, roots, **kw)
