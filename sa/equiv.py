"""EQUIV: implementation machine vs documented expansion under one answer oracle (DESIGN.md 4.6).

Left: the instantiated implementation, executed in linked mode (every boundary to a *library* combinator is inlined;
placeholders and atoms are oracle questions).  Right: the PEG-formalism evaluation of the documented expansion
(sa/spec/peg.py, sa/spec/equivalents.py).  The oracle answers a question (rule, position, input) with
fail / succeed-empty / succeed-consuming / raise; the same question always gets the same answer.  All answer
histories with at most MAXQ distinct questions are enumerated."""
import collections
from . import core
from .exec import *
from .mon_base import *
from .spec import peg, equivalents

T = 'tao::pegtl::'
ATOMS = {'tao::pegtl::internal::eof'}


class LinkMonitor(BaseMonitor):
    def __init__(self, db, maxq):
        BaseMonitor.__init__(self, db)
        self.maxq = maxq

    def rule_of(self, e, cq):
        cc = e.get('cc') or {}
        if cc.get('tn') == T + 'normal' and cc.get('a'): return cc['a'][0].get('s')
        if cq == T + 'match' and e.get('cta'): return e['cta'][0].get('s')
        return cc.get('s')

    def opaque(self, rule):
        return rule is not None and (rule.startswith('vu::P<') or rule in ATOMS)

    def construct(self, ex, e, st, fr):
        t = e.get('t', '')
        if t.startswith(T + 'memory_input<'):
            # rematch: a second input over the matched region, starting where the head started
            args = e.get('args', [])
            def g():
                for v, s in (ex.ev(args[0], st, fr) if args else [(Cur(0), st)]):
                    if isinstance(v, Thrown): continue
                    a = s.alloc({'__type': t, '__input': True, '__main': False, 'm_current': v if isinstance(v, Cur) else Cur('?'), 'private_depth': 0})
                    yield Obj(a), s
            return g()
        return BaseMonitor.construct(self, ex, e, st, fr)

    def call(self, ex, e, cu, cq, cn, ob, objloc, av, st, fr):
        if cn in ('raise', 'raise_nested') and e.get('cc') and e.get('static'):
            cc = e['cc']
            who = cc['a'][0].get('s') if cc.get('a') else '?'
            def g(): yield Thrown('must:' + who), st
            return g()
        inp = self.input_of(ex, ob, st) if ob is not None else None
        if inp is not None and cn == 'empty' and st.heap[inp.addr].get('__main'):
            def g():
                for r, s in self.ask(ex, e, '@any', inp, REQ, st, commit=False):
                    if isinstance(r, Thrown): yield r, s
                    else: yield (not r), s
            return g()
        if inp is not None and cn == 'bump' and st.heap[inp.addr].get('__main'):
            o = st.heap[inp.addr]
            nxt = o.get('__anynext')
            if nxt is None: raise Unmodelled('in.bump() without a preceding in.empty() test (%s)' % e.get('loc'))
            o['m_current'] = Cur(nxt); o['__anynext'] = None
            def g(): yield None, st
            return g()
        b = self.is_boundary(e, cq, cn, av, st, ex)
        if b is not None:
            rule = self.rule_of(e, cq)
            if self.opaque(rule):
                return self.ask(ex, e, rule, b[0], b[1], st)
            fn = self.db.get(cu)
            if fn is not None and fn.get('body') is not None:
                return None          # library combinator: inline
            return self.ask(ex, e, rule or cq, b[0], b[1], st)
        if cq in BUMPS:
            raise Unmodelled('primitive advance in a combinator body (%s)' % e.get('loc'))
        return BaseMonitor.call(self, ex, e, cu, cq, cn, ob, objloc, av, st, fr)

    def answers_for(self, key, n):
        return peg.answers_for(key, n)

    def ask(self, ex, e, who, inp, mode, st, commit=True):
        A = 1
        for ta in e.get('cta', []):
            if ta.get('k') == 'int' and ta.get('t') == 'tao::pegtl::apply_mode': A = ta['v']
        o = st.heap[inp.addr]
        dom = 'm' if o.get('__main') else '2'
        p = o['m_current'].pos
        def g():
            key = (who, p, dom)
            orc = st.x['orc']
            def apply(s, ans):
                s.x['qs'] = s.x['qs'] + ((who, p, dom, A, 'req' if mode == REQ else 'opt'),)
                so = s.heap[inp.addr]
                if ans == 'fail':
                    if mode != REQ and commit: so['m_current'] = Cur('D')
                    return False
                if ans == 'raise':
                    so['m_current'] = Cur('D'); return Thrown('raise:' + who)
                if commit: so['m_current'] = Cur(ans[1])
                else: so['__anynext'] = ans[1]
                return True
            if p == 'D':
                st.viol.append(('R3', 'sub-rule %s is matched from a DIRTY cursor (after an un-rewound failed attempt)' % who, e.get('loc')))
            if key in orc:
                yield apply(st, orc[key]), st; return
            if len(orc) >= self.maxq:
                st.x['trunc'] = True
                yield Thrown('TRUNC'), st; return
            n = st.x['npos']
            for ans in self.answers_for(key, n):
                s = st.copy(); s.x['orc'][key] = ans
                if ans == ('succ', n + 1): s.x['npos'] = n + 1
                yield apply(s, ans), s
        return g()


def run_impl(db, fn, maxq, maxsteps=4000000):
    mon = LinkMonitor(db, maxq); ex = Exec(db, mon); ex.maxsteps = maxsteps; ex.maxwall = 120.0
    st = State()
    st.x.update({'orc': {}, 'qs': (), 'npos': 0, 'trunc': False, '__sig': ('orc', 'npos')})
    inp = Obj(st.alloc({'__type': 'input', '__input': True, '__main': True, 'm_current': Cur(0), 'private_depth': 0}))
    f = Frame(fn); ex.frames.append(f)
    EnvView(st, f.fid)[fn['params'][0]['id']] = inp
    for comp in ex.run_fn(fn, f, st):
        s = comp[-1]
        if s.x.get('trunc') or (comp[0] == 'throw' and comp[1] == 'TRUNC'):
            yield None; continue
        pos = s.heap[inp.addr]['m_current'].pos
        if comp[0] == 'return': res = ('ok', pos) if comp[1] is True else (('fail', pos) if comp[1] is False else ('?', repr(comp[1])))
        elif comp[0] == 'throw': res = ('raise', comp[1])
        else: res = ('?', comp[0])
        yield res, s.x['orc'], s.x['qs'], [v for v in s.viol], s.x['npos']


def parse_rule(targ):
    """structured template argument of the rule type -> (public name, ints, sub-rule expressions) or None"""
    tn = targ.get('tn') or targ.get('q') or ''
    if not tn.startswith(T): return None
    name = tn[len(T):]
    ints = []; rules = []
    def walk(a):
        for x in a:
            k = x.get('k')
            if k == 'int': ints.append(x['v'])
            elif k == 'type':
                if x.get('s') == 'void': continue          # defaulted Pad = void of list / list_must / list_tail
                rules.append(expr_of(x))
            elif k == 'pack': walk(x.get('a', []))
    walk(targ.get('a', []))
    return name, ints, rules


def expr_of(t):
    s = t.get('s', '')
    if s.startswith('vu::P<'): return ('P', s)
    if s == T + 'internal::eof': return peg.EOF
    if s in (T + 'internal::success', T + 'success'): return peg.SUCCESS
    if s in (T + 'internal::failure', T + 'failure'): return peg.FAILURE
    pr = parse_rule(t)
    if pr is None: raise KeyError('no expression for ' + s)
    name, ints, rules = pr
    return build(name, ints, rules)


def build(name, ints, rules):
    if name.startswith('internal::'): name = name[len('internal::'):]
    if name == 'if_pair': return ('pair', rules[0], rules[1])
    if name == 'if_then':
        # contrib/if_then.hpp: if_then< C, T... > is internal::if_then< if_pair< C, seq< T... > > >;
        # internal::if_then< if_pair< C, T >, rest... > is if_then_else< C, T, internal::if_then< rest... > >; the empty one is failure
        if rules and rules[0][0] != 'pair':
            return peg.if_then_else(rules[0], ('seq', list(rules[1:])), peg.FAILURE)
        e = peg.FAILURE
        for pr in reversed(rules): e = peg.if_then_else(pr[1], pr[2], e)
        return e
    ent = equivalents.TABLE.get(name)
    if ent is None or ent[2] is None: raise KeyError('no documented expansion for ' + name)
    return ent[2](ints, rules)


def if_then_expr(targ):
    """tao::pegtl::if_then< C, T... > and its else_if_then / else_then chains (contrib/if_then.hpp): by the class comment
    equivalent to nested if_then_else; the innermost else is failure"""
    # the public types derive from internal::if_then< if_pair< C, seq< T... > >... > / if_then_else<...>; resolved through bases by the caller
    raise KeyError('if_then')


def _P(n): return ('P', 'vu::P<%d>' % n)


def _chain(pairs, last=None):
    e = last if last is not None else peg.FAILURE
    for c, t in reversed(pairs): e = peg.if_then_else(c, ('seq', [t]), e)
    return e


# the chains of universe/u_equiv.cc as written there: if_then< C1, T1 >::else_if_then< C2, T2 >... [::else_then< E >] means
# if_then_else< C1, T1, if_then_else< C2, T2, ... E / failure > > (contrib/if_then.hpp, doc/Contrib-and-Examples.md)
CHAIN_SPECS = {
    'vu::chain3': _chain([(_P(1), _P(2)), (_P(3), _P(4)), (_P(5), _P(6))]),
    'vu::chain3e': _chain([(_P(1), _P(2)), (_P(3), _P(4)), (_P(5), _P(6))], ('seq', [_P(7)])),
    'vu::chain2e': _chain([(_P(1), _P(2)), (_P(3), _P(4))], ('seq', [_P(5)])),
    'vu::chain4': _chain([(_P(1), _P(2)), (_P(3), _P(4)), (_P(5), _P(6)), (_P(7), _P(8))]),
}


def compare(db, fn, maxq):
    """returns dict(histories, truncated, problems[(rule, msg, detail)], expr)"""
    cls = fn.get('cls') or {}
    rt = (cls.get('a') or [{}])[0]
    if rt.get('s') in CHAIN_SPECS:
        name = 'if_then'; expr = CHAIN_SPECS[rt['s']]
    else:
        pr = parse_rule(rt)
        if pr is None: return None
        name, ints, rules = pr
        expr = build(name, ints, rules)
    M = fn_mode(fn)
    n = 0; trunc = 0; probs = []
    for r in run_impl(db, fn, maxq):
        if r is None: trunc += 1; continue
        res, orc, qs, viol, npos = r
        n += 1
        want, asked = peg.all_results(expr, orc, npos)
        if res[0] == 'fail':
            got = ('fail',)
            if M == REQ and res[1] != 0: probs.append(('E-rewind', 'returns false under rewind_mode::required with the cursor at %s' % (res[1],), qs))
        elif res[0] == 'raise': got = ('raise', res[1])
        else: got = res
        if res[0] == 'ok' and res[1] == 'D': probs.append(('E-dirty', 'returns true with a DIRTY cursor', qs))
        for v in viol: probs.append(('E-' + v[0], v[1], qs))
        if ('loop',) in want or ('budget',) in want: continue
        if want != {got}:
            probs.append(('E-result', 'implementation yields %s, the documented expansion %s yields %s' % (fmt(got), peg.show(expr), sorted(map(fmt, want)))
                          , qs))
        # apply modes: the implementation must not ask a sub-rule under a mode the expansion never uses at that position
        for (who, p, dom, A, m) in qs:
            ans = orc.get((who, p, dom))
            if ans in ('fail', 'raise'): continue      # a failed attempt fires no action of its own; only successful matches are compared
            if (who, p, dom, A) not in asked and any(a[:3] == (who, p, dom) for a in asked):
                probs.append(('E-mode', 'sub-rule %s is matched with apply_mode::%s at a position where the documented expansion %s only matches it with apply_mode::%s'
                              % (who, 'action' if A else 'nothing', peg.show(expr), 'nothing' if A else 'action'), qs))
    return {'histories': n, 'truncated': trunc, 'problems': probs, 'expr': peg.show(expr), 'name': name, 'mode': M}


def fmt(r):
    if r[0] == 'ok': return 'success consuming up to position %s' % (r[1],)
    if r[0] == 'fail': return 'local failure'
    if r[0] == 'raise': return 'global failure (%s)' % r[1]
    return str(r)
