"""RAII of the depth and byte limits (DESIGN.md 5/C18).

limit_depth< Maximum >::match: the depth counter of the input is incremented before the guarded match and restored on
every completion (success, local failure, exception) - by a guard object whose destructor does the decrement; the limit
is exact: the error is raised iff the depth after the increment exceeds Maximum.
limit_bytes< Maximum >::match: the input's end is lowered to current + min( remaining, Maximum ) before the guarded
match and restored to the saved end on every completion by the guard's destructor."""
import collections
from . import core
from .exec import *
from .mon_base import *

T = 'tao::pegtl::'


class DepthMonitor(BaseMonitor):
    def on_boundary(self, ex, e, cq, inp, mode, st, fr):
        d = st.heap[inp.addr].get('m_depth')
        return ('call', vkey(d))

    def call(self, ex, e, cu, cq, cn, ob, objloc, av, st, fr):
        if cn in ('raise',) and e.get('static') and e.get('cc'):
            inp = None
            for a in av[:1]:
                inp = self.input_of(ex, ex.argval(a, st), st)
            d = st.heap[inp.addr].get('m_depth') if inp is not None else None
            st.events.append(('raise', ((e['cc'].get('a') or [{}])[0]).get('s'), vkey(d)))
            def g(): yield Thrown('raise'), st
            return g()
        return BaseMonitor.call(self, ex, e, cu, cq, cn, ob, objloc, av, st, fr)


def check_limit_depth(db, fn, nf=frozenset()):
    mx = [x.get('v') for x in ((fn.get('cls') or {}).get('a') or []) if x.get('k') == 'int']
    if not mx: return ['cannot read Maximum'], 0
    mx = mx[0]
    mon = DepthMonitor(db, nf); ex = Exec(db, mon); st = State()
    inp = new_input(st)
    d0 = st.sym(0, None)
    st.heap[inp.addr]['m_depth'] = d0
    f = Frame(fn); ex.frames.append(f)
    bind_params(ex, fn, f, st, inp)
    probs = []; n = 0; saw_call = saw_raise = False
    for comp in ex.run_fn(fn, f, st):
        s = comp[-1]; n += 1
        dn = s.heap[inp.addr].get('m_depth')
        dd = s.closure()
        same = vkey(dn) == vkey(d0) or (isinstance(dn, Sym) and dd.get((dn.id, d0.id)) == 0 and dd.get((d0.id, dn.id)) == 0)
        if not same:
            probs.append('the depth counter is not restored on a path that leaves by %s (%s)' % (comp[0], 'value differs from the initial one'))
        calls = [e for e in s.events if isinstance(e, tuple) and e[0] == 'call']
        raises = [e for e in s.events if isinstance(e, tuple) and e[0] == 'raise']
        lo, hi = s.facts.get(d0.id, [None, None])
        d = s.closure(); zl = d.get((0, d0.id)); zh = d.get((d0.id, 0))
        if zl is not None: lo = -zl if lo is None else max(lo, -zl)
        if zh is not None: hi = zh if hi is None else min(hi, zh)
        for c in calls:
            saw_call = True
            # the guarded match runs one level deeper
            dv = c[1]
            ok = isinstance(dv, tuple) and dv[0] == 'S' and d.get((dv[1], d0.id)) == 1 and d.get((d0.id, dv[1])) == -1
            if not ok: probs.append('the guarded rule is matched without the depth counter being incremented')
            if hi is None or hi + 1 > mx: probs.append('the guarded rule can be matched at depth %s, above the maximum %d' % ('unbounded' if hi is None else hi + 1, mx))
        for r in raises:
            saw_raise = True
            if calls: probs.append('the limit is raised after the guarded rule was matched')
            if lo is None or lo + 1 <= mx: probs.append('the depth error can be raised at depth %s, which does not exceed the maximum %d' % (None if lo is None else lo + 1, mx))
    if not saw_call: probs.append('the guarded rule is never matched')
    if not saw_raise: probs.append('the depth error is never raised')
    return sorted(set(probs)), n


class BytesMonitor(BaseMonitor):
    """the input as symbolic window: current C, end E (memoised arithmetic gives provenance)"""
    def call(self, ex, e, cu, cq, cn, ob, objloc, av, st, fr):
        inp = self.input_of(ex, ob, st) if ob is not None else None
        if inp is not None and st.heap[inp.addr].get('__main'):
            o = st.heap[inp.addr]
            def ret(v):
                def g(): yield v, st
                return g()
            if cn == 'current': return ret(o['__C'])
            if cn == 'begin': return ret(o['__B'])
            if cn == 'end': return ret(o['__E'])
            if cn == 'size': return ret(ex.arith('-', o['__E'], o['__C'], st))
            if cn == 'empty':
                def g():
                    for b, s2 in ex.compare('==', st.heap[inp.addr]['__C'], st.heap[inp.addr]['__E'], st): yield b, s2
                return g()
            if cn == 'private_set_end':
                v = ex.argval(av[0], st)
                st.events.append(('set_end', vkey(v)))
                o['__E'] = v
                return ret(None)
        if cq in ('std::min', 'std::max') and len(av) == 2:
            a = ex.argval(av[0], st); b = ex.argval(av[1], st)
            if isinstance(a, int) and isinstance(b, int) and not isinstance(a, bool) and not isinstance(b, bool):
                r = min(a, b) if cq == 'std::min' else max(a, b)
                def g(): yield r, st
                return g()
            if isinstance(a, (int, Sym)) and isinstance(b, (int, Sym)):
                n = st.sym(0, None)
                st.x.setdefault('tags', {})[n.id] = (cq, vkey(a), vkey(b))
                def g(): yield n, st
                return g()
        if cn == 'raise' and e.get('static') and e.get('cc'):
            st.events.append(('raise',))
            def g(): yield Thrown('raise'), st
            return g()
        return BaseMonitor.call(self, ex, e, cu, cq, cn, ob, objloc, av, st, fr)

    def on_boundary(self, ex, e, cq, inp, mode, st, fr):
        return ('call', vkey(st.heap[inp.addr].get('__E')))

    def after_oracle(self, ex, st, inp, what):
        o = st.heap[inp.addr]
        if o.get('__main'): o['__C'] = st.sym(1, None)        # the guarded rule moved the cursor somewhere


def check_limit_bytes(db, fn, nf=frozenset()):
    """limit_bytes< Maximum >::match evaluated on concrete windows: begin = 0, current = 3, end = current + k for k = 0 .. Maximum + 3 (both sides of the limit);
    the first private_set_end must be exactly min( k, Maximum ), the guarded rule must see that end, and the end is restored on every way out"""
    mx = [x.get('v') for x in ((fn.get('cls') or {}).get('a') or []) if x.get('k') == 'int']
    if not mx: return ['cannot read Maximum'], 0
    mx = mx[0]
    if mx > 64: raise Unmodelled('Maximum %d is too large for the concrete window' % mx)
    probs = []; n = 0; saw_call = False
    for k in range(0, mx + 4):
        mon = BytesMonitor(db, nf); ex = Exec(db, mon); ex.widen = False; st = State()
        inp = new_input(st)
        C0 = 3      # the match starts 3 bytes into the data: begin() and current() differ
        st.heap[inp.addr].update({'__B': 0, '__C': C0, '__E': C0 + k})
        f = Frame(fn); ex.frames.append(f)
        bind_params(ex, fn, f, st, inp)
        for comp in ex.run_fn(fn, f, st):
            s = comp[-1]; n += 1
            evs = [e for e in s.events if isinstance(e, tuple)]
            sets = [e for e in evs if e[0] == 'set_end']
            calls = [e for e in evs if e[0] == 'call']
            if vkey(s.heap[inp.addr]['__E']) != vkey(C0 + k):
                probs.append('the end of the input is not restored on a path that leaves by %s' % comp[0])
            if calls:
                saw_call = True
                names = [e[0] for e in evs]
                if not sets or names.index('set_end') > names.index('call'): probs.append('the guarded rule is matched before the end is lowered'); continue
                first = sets[0][1]
                if not isinstance(first, int) or isinstance(first, bool): raise Unmodelled('the temporary end is not a concrete position (%r)' % (first,))
                if first != C0 + min(k, mx):
                    probs.append('with %d byte(s) available the temporary end is current() %+d, expected current() + min( size(), Maximum ) = current() + %d: the limit does not count %d byte(s) from where the match starts' % (k, first - C0, min(k, mx), mx))
                if calls[0][1] != first: probs.append('the guarded rule does not see the lowered end')
    if not saw_call: probs.append('the guarded rule is never matched')
    return sorted(set(probs)), n


def deleted_copy_move(db, cls):
    r = db.records.get(cls)
    if r is None: return None
    cp = [m for m in r['methods'] if m.get('copyctor') or m.get('movector')]
    asg = [m for m in r['methods'] if m['n'] == 'operator=']
    return bool(cp) and all(m.get('deleted') for m in cp) and bool(asg) and all(m.get('deleted') for m in asg)
