"""EXC: who raises what, where; who may catch (DESIGN.md 5/C05)."""
import collections
from . import core, frame
from .exec import *
from .mon_base import *

T = 'tao::pegtl::'; I = T + 'internal::'


def walk(n, pred, out):
    if isinstance(n, dict):
        if pred(n): out.append(n)
        for v in n.values(): walk(v, pred, out)
    elif isinstance(n, list):
        for v in n: walk(v, pred, out)
    return out


def leaves(e, out=None):
    """operand leaves of an expression, left to right (refs, members, literals, strings)"""
    out = [] if out is None else out
    if not isinstance(e, dict): return out
    k = e.get('k')
    if k in ('ref',): out.append(('ref', e.get('n'))); return out
    if k == 'member' and 'cn' not in e: leaves(e.get('b'), out); out.append(('member', e.get('n'))); return out
    if k == 'str': out.append(('str', e.get('s'))); return out
    if k == 'lit': out.append(('lit', e.get('v'))); return out
    for key in ('obj', 'b', 'e', 'l', 'r', 'c'):
        if key in e: leaves(e[key], out)
    for a in e.get('args', []): leaves(a, out)
    if k == 'call' and e.get('cn') and not e.get('opc'): out.append(('call', e.get('cn')))
    return out


# ---- must / raise / try_catch bodies ------------------------------------------------------------------
def check_must(db, fn, nf):
    out, nst = frame.paths(db, fn, nf)
    rule = ((fn.get('cls') or {}).get('a') or [{}])[0]
    rule_s = rule.get('s') if rule.get('k') == 'type' else ((rule.get('a') or [{}])[0].get('s'))
    states = tuple(('param', i) for i in range(nst))
    probs = []
    for (evs, kind, val), n in out.items():
        calls = [e for e in evs if isinstance(e, tuple) and e[0] == 'call']
        raises = [e for e in evs if isinstance(e, tuple) and e[0] == 'raise']
        if len(calls) != 1: probs.append('the rule is attempted %d times' % len(calls)); continue
        c = calls[0]
        if c[2] != OPT: probs.append('the rule is attempted with rewind_mode::required (must needs no rewind: it raises)')
        res = c[-1]
        if res == 'F':
            if len(raises) != 1: probs.append('the rule failed but %d raise hooks were called' % len(raises)); continue
            r = raises[0]
            if r[1] != 'raise': probs.append('local failure is converted by %s instead of raise' % r[1])
            if r[2] != rule_s: probs.append('the global failure names %s instead of the failed rule %s' % (r[2], rule_s))
            sargs = tuple(a for a in r[4] if a[0] in ('param', 'local', 'tmp'))
            if not r[4] or r[4][0] != ('input', 'main'): probs.append('raise is not given the parse input')
            if sargs != states: probs.append('raise receives the states %s, expected %s' % (list(sargs), list(states)))
            if kind != 'throw': probs.append('continues after the raise')
        elif res in ('T+', 'T0'):
            if raises: probs.append('raises although the rule matched')
            if kind == 'return' and val is not True: probs.append('returns %s although the rule matched' % val)
        if kind == 'return' and val is False: probs.append('must<> returns false (a local failure) instead of raising')
    return sorted(set(probs))


def check_raise_rule(db, fn, nf):
    out, nst = frame.paths(db, fn, nf)
    t = ((fn.get('cls') or {}).get('a') or [{}])[0].get('s')
    probs = []
    for (evs, kind, val), n in out.items():
        raises = [e for e in evs if isinstance(e, tuple) and e[0] == 'raise']
        if any(isinstance(e, tuple) and e[0] == 'call' for e in evs): probs.append('raise<> matches a sub-rule')
        if len(raises) != 1 or raises[0][1] != 'raise' or raises[0][2] != t: probs.append('raise< T > does not call Control< T >::raise exactly once')
        if kind != 'throw': probs.append('raise<> returns')
    return sorted(set(probs))


def check_try_catch(db, fn, nf):
    """handler type = the Exception parameter; return_false: returns false; raise_nested: Control<Rule>::raise_nested with the
    position where the match started"""
    cls = fn.get('cls') or {}
    tn = cls.get('tn'); a = cls.get('a') or []
    exc = a[0].get('s') if a else None
    probs = []
    tries = walk(fn.get('body'), lambda n: n.get('k') == 'Try', [])
    if len(tries) != 1: return ['%d try blocks, expected one' % len(tries)]
    hs = tries[0]['handlers']
    want = '...' if exc == 'void' else 'const %s &' % exc
    if len(hs) != 1 or hs[0]['type'] != want: probs.append('the handler catches %s, expected exactly %s' % ([h['type'] for h in hs], want))
    out, nst = frame.paths(db, fn, nf)
    states = tuple(('param', i) for i in range(nst))
    flat = []
    for x in a[1:]:
        flat.extend(x.get('a', []) if x.get('k') == 'pack' else [x])
    rule_s = flat[0].get('s') if flat else None
    saw_handler = False
    for (evs, kind, val), n in out.items():
        calls = [e for e in evs if isinstance(e, tuple) and e[0] == 'call']
        raises = [e for e in evs if isinstance(e, tuple) and e[0] == 'raise']
        if not calls: continue
        if calls[0][-1] != 'throw':
            if raises: probs.append('raises although nothing was thrown')
            continue
        # the sub-rule threw
        if tn == I + 'try_catch_return_false':
            if kind == 'return':
                saw_handler = True
                if val is not False: probs.append('the handler returns %s, expected false' % val)
        else:
            if kind == 'throw' and raises:
                saw_handler = True
                r = raises[0]
                if r[1] != 'raise_nested' or r[2] != rule_s: probs.append('the handler calls %s of %s, expected raise_nested of %s' % (r[1], r[2], rule_s))
                sargs = tuple(x for x in r[4][1:] if x[0] in ('param', 'local', 'tmp'))      # the first argument is the ambient position
                if sargs != states: probs.append('raise_nested receives the states %s, expected %s' % (list(sargs), list(states)))
            elif kind == 'return':
                probs.append('the handler returns instead of raising a nested exception')
    if not saw_handler: probs.append('no path through the handler was found')
    if tn == I + 'try_catch_raise_nested':
        # the ambient position is that of the guard's saved iterator
        rn = walk(fn.get('body'), lambda n: n.get('k') == 'call' and n.get('cn') == 'raise_nested', [])
        for c in rn:
            lv = leaves(c['args'][0]) if c.get('args') else []
            if ('call', 'position') not in lv or ('call', 'inputerator') not in lv:
                probs.append('raise_nested is not given in.position( m.inputerator() ) - the position where the match started')
    return sorted(set(probs))


# ---- shapes of normal::raise / raise_nested, parse_error_base, operator<< ------------------------------
def flow_leaves(fn, expr):
    """leaves of an expression with local variables replaced (transitively) by what flows into them: initialiser, assignments, += / append"""
    decls = {d.get('n'): d for s2 in walk(fn.get('body'), lambda n: n.get('k') == 'Decl', []) for d in s2.get('decls', [])}
    out = []; seen = set()
    flow_leaves.exprs = exprs = []       # every expression that flows into the result (the expression itself, initialisers, right-hand sides)
    def add(e):
        if e is not None: exprs.append(e)
        for lf in leaves(e):
            if lf[0] == 'ref' and lf[1] in decls and lf[1] not in seen:
                seen.add(lf[1])
                add(decls[lf[1]].get('init'))
                for n in walk(fn.get('body'), lambda n: (n.get('k') == 'bin' and n.get('op', '').endswith('=') and n['op'] not in ('==', '!=', '<=', '>=') and leaves(n.get('l'))[:1] == [('ref', lf[1])]) or
                              (n.get('k') == 'call' and (n.get('opc') in ('+=', '=') or n.get('cn') in ('append', 'assign', 'push_back', 'insert')) and
                               leaves((n.get('args') or [n.get('obj')])[0] if n.get('opc') else n.get('obj'))[:1] == [('ref', lf[1])]), []):
                    add(n.get('r') if n.get('k') == 'bin' else {'k': 'x', 'args': (n.get('args') or [])[(1 if n.get('opc') else 0):]})
            elif lf not in out: out.append(lf)
    add(expr)
    return out


UNIVERSE_MESSAGES = {'vu::P1m': 'p1', 'vu::P1a': 'p1 as an array'}       # mirrors universe/u_dispatch.cc


def check_normal_raise(db, fn):
    probs = []
    rule = ((fn.get('cls') or {}).get('a') or [{}])[0].get('s')
    has_msg = 'error_message' in consts_or_fields(db, rule)
    nested = fn['n'] == 'raise_nested'
    throws = walk(fn.get('body'), lambda n: n.get('k') == 'throw', [])
    twn = walk(fn.get('body'), lambda n: n.get('k') == 'call' and n.get('cq') == 'std::throw_with_nested', [])
    sites = twn if nested else throws
    if nested and throws: probs.append('raise_nested throws a fresh exception (the caught one is dropped) instead of std::throw_with_nested')
    if not nested and twn: probs.append('raise nests an exception')
    if len(sites) != 1: probs.append('%d %s sites, expected one' % (len(sites), 'throw_with_nested' if nested else 'throw')); return probs
    arg = sites[0]['args'][0] if nested else sites[0].get('e')
    ctor = walk(arg, lambda n: n.get('k') == 'construct' and 'parse_error' in (n.get('t') or ''), [])
    if not ctor: probs.append('does not throw a parse_error'); return probs
    args = ctor[0].get('args', [])
    if len(args) < 2: probs.append('parse_error is constructed from %d arguments' % len(args)); return probs
    l0 = flow_leaves(fn, args[0]); msg_exprs = list(flow_leaves.exprs); l1 = flow_leaves(fn, args[1])
    p0 = fn['params'][0]['n'] if fn['params'] else None
    if has_msg:
        if ('ref', 'error_message') not in l0: probs.append('the rule has an error_message but the parse_error message is built from %s' % l0)
        # the whole message: a std::string built from error_message with an explicit length must take all of it (the universe's messages: UNIVERSE_MESSAGES)
        for x in msg_exprs:
            for c in walk(x, lambda n: n.get('k') == 'construct' and 'basic_string' in (n.get('t') or '') and len(n.get('args', [])) >= 2 and ('ref', 'error_message') in leaves(n['args'][0]), []):
                n1 = c['args'][1]
                if 'int' not in (n1.get('t') or '') and 'long' not in (n1.get('t') or ''): continue        # ( pointer, allocator ) and the like
                want = UNIVERSE_MESSAGES.get(rule)
                if want is None: continue                    # messages of other rules are not mirrored here: judged on the universe's two forms (pointer, array)
                if n1.get('v') is None: continue             # a length computed at run time (strlen): not judged here
                k = int(n1['v'])
                if k < len(want): probs.append('the message is cut to %d characters: "%s" instead of "%s"' % (k, want[:k], want))
                elif k > len(want): probs.append('%d characters are taken from the %d-character message "%s" (the length does not come from the text: sizeof of a pointer?)' % (k, len(want), want))
    else:
        if ('str', 'parse error matching ') not in l0 or ('call', 'demangle') not in l0: probs.append('the default message is not "parse error matching " + demangle< Rule >(); built from %s' % l0)
        dm = walk(fn.get('body'), lambda n: n.get('k') == 'call' and n.get('cn') == 'demangle', [])
        if dm and (dm[0].get('cta') or [{}])[0].get('s') != rule: probs.append('the default message names %s instead of %s' % ((dm[0].get('cta') or [{}])[0].get('s'), rule))
    if l1 != [('ref', p0)]: probs.append('the position is taken from %s instead of the argument %s' % (l1, p0))
    return probs


def consts_or_fields(db, cls):
    out = set()
    seen = set(); todo = [cls]
    while todo:
        c = todo.pop()
        if c in seen: continue
        seen.add(c)
        r = db.records.get(c)
        if not r: continue
        out |= set(r.get('consts', {})) | set(f['n'] for f in r.get('fields', [])) | set(r.get('statics', []))
        todo.extend(r.get('bases', []))
    return out


SEARCHES = {'find', 'rfind', 'find_first_of', 'find_last_of', 'find_first_not_of', 'find_last_not_of', 'search', 'find_if', 'find_end', 'strchr', 'strrchr', 'strstr', 'memchr',
            'strpbrk', 'strcspn', 'strspn', 'strtok'}


def check_parse_error_base(db):
    probs = []; found = 0; found_acc = set()
    for f in db.order:
        if f['q'] == T + 'parse_error_base::parse_error_base' and f.get('ctor'):
            found += 1
            base = [i for i in f.get('inits', []) if 'base' in i]
            if not base: probs.append('parse_error_base does not initialise std::runtime_error'); continue
            lv = [x for x in leaves(base[0]['e']) if x[0] in ('ref', 'str')]
            names = [p['n'] for p in f['params']]
            if lv != [('ref', names[1]), ('str', ': '), ('ref', names[0])]:
                probs.append('what() is composed from %s, expected position + ": " + message' % lv)
        if f['q'] in (T + 'parse_error_base::message', T + 'parse_error_base::position_string'):
            # the two parts of what() are told apart by what was stored when the error was made, not by looking for a separator in the text:
            # the source name is arbitrary text (a file name, "stdin: chunk 2") and may contain any separator
            found_acc.add(f['n'])
            for c in walk(f.get('body'), lambda n: n.get('k') == 'call' and (n.get('cn') or '') in SEARCHES, []):
                probs.append('%s() splits what() by searching (%s): a source name that contains the separator moves the split, so message() no longer is the message the error was made with' % (f['n'], c.get('cn')))
        if f['q'] == T + 'operator<<' and f['params'] and 'position' in f['params'][-1]['t']:
            found += 1
            rets = walk(f.get('body'), lambda n: n.get('k') == 'Return', [])
            lv = [x for x in leaves(rets[0]['e']) if x[0] in ('member', 'lit')] if rets else []
            if lv != [('member', 'source'), ('lit', 58), ('member', 'line'), ('lit', 58), ('member', 'column')]:
                probs.append('a position is streamed as %s, expected source \':\' line \':\' column' % lv)
    check_parse_error_base.accessors = found_acc
    return probs, found


# ---- nothrow consistency -----------------------------------------------------------------------------
def definite_throws(db, fn):
    """throw completions that come from a throw expression or a [[noreturn]] callee (not from 'a sub-rule may throw')"""
    mon = BaseMonitor(db); ex = Exec(db, mon); st = State(); inp = new_input(st)
    f = Frame(fn); ex.frames.append(f)
    bound = False
    env = EnvView(st, f.fid)
    for p in fn['params']:
        t = p['t']
        if not bound and '_input<' in t and 'action_input' not in t and t.endswith('&'):
            env[p['id']] = inp; bound = True
        elif t.endswith('&'): env[p['id']] = Obj(st.alloc({'__type': t, '__state': True}))
        else: env[p['id']] = Unknown('param')
    out = set()
    for comp in ex.run_fn(fn, f, st):
        if comp[0] == 'throw' and comp[1] not in ('any', 'rethrow') and not str(comp[1]).startswith('hook:'):
            out.add(str(comp[1]))
    return out
