"""SCAN: hand-written byte scanners against a byte-level PEG specification (DESIGN.md 5/C09, C15, C16).

The scanner body is executed abstractly on *class strings*: the 256 byte values are partitioned by the constants the code
compares bytes with (so every byte of a class takes the same branches), and all strings over the classes up to a length bound
(plus end of input) are explored.  Designated helpers (e.g. accumulate_digit) are boolean oracles.  For every class string the
result (true / false / exception) and the consumed length are compared with the specification evaluated on a representative.
Reads beyond the available bytes are reported as well (cross-check of BOUNDS)."""
import collections, itertools
from . import core
from .exec import *
from .mon_base import *
from .spec import pegbytes

T = 'tao::pegtl::'


def reachable_fns(db, fn):
    seen = {}; todo = [fn]
    while todo:
        f = todo.pop()
        if f['u'] in seen: continue
        seen[f['u']] = f
        def callees(n):
            if isinstance(n, dict):
                if 'cu' in n and n['cu'] in db.fns and n['cu'] not in seen: todo.append(db.fns[n['cu']])
                for v in n.values(): callees(v)
            elif isinstance(n, list):
                for v in n: callees(v)
        callees(f.get('body'))
    return list(seen.values())


def byte_partition(db, fn, extra=(), byte_types=('char',)):
    """classes of bytes that the reachable code cannot tell apart: cut points from every constant a byte is compared with"""
    cuts = {0, 256}
    for c in extra: cuts.add(c); cuts.add(c + 1)
    def consts(n):
        if isinstance(n, dict):
            if n.get('k') == 'bin' and n.get('op') in ('<', '>', '<=', '>=', '==', '!='):
                for side, other in (('l', 'r'), ('r', 'l')):
                    v = (n.get(side) or {}).get('v')
                    ot = strip_casts(n.get(other) or {}).get('t', '')
                    if isinstance(v, int) and -128 <= v <= 255 and ot.replace('const ', '').strip() in byte_types:
                        v &= 0xff; cuts.add(v); cuts.add(v + 1)
            if n.get('k') == 'Case':
                v = (n.get('v') or {}).get('v')
                if isinstance(v, int) and 0 <= v <= 255: cuts.add(v); cuts.add(v + 1)
            for v in n.values(): consts(v)
        elif isinstance(n, list):
            for v in n: consts(v)
    for f in reachable_fns(db, fn): consts(f.get('body'))
    cs = sorted(cuts)
    return [(cs[i], cs[i + 1] - 1) for i in range(len(cs) - 1)]


def strip_casts(n):
    while isinstance(n, dict) and n.get('k') == 'cast' and isinstance(n.get('e'), dict): n = n['e']
    return n


class ScanMonitor(BaseMonitor):
    def __init__(self, db, oracles=()):
        BaseMonitor.__init__(self, db)
        self.oracles = tuple(oracles)
        self.linked = lambda e, cq: True      # library sub-rules are inlined down to the bytes

    def data(self, st, inp): return st.heap[inp.addr]

    def call(self, ex, e, cu, cq, cn, ob, objloc, av, st, fr):
        if any(cq.startswith(o) for o in self.oracles):
            args = tuple(vkey(ex.argval(a, st)) for a in av)
            def g():
                s1 = st.copy(); s1.events.append(('oracle', cq.split('::')[-1], True, args)); yield True, s1
                s2 = st.copy(); s2.events.append(('oracle', cq.split('::')[-1], False, args)); yield False, s2
            return g()
        inp = self.input_of(ex, ob, st) if ob is not None else None
        if inp is not None and st.heap[inp.addr].get('__scan'):
            o = st.heap[inp.addr]
            pos = o['m_current'].pos
            bs = o['bytes']
            if not isinstance(pos, int): raise Unmodelled('cursor lost in scan mode (%s)' % e.get('loc'))
            def ret(v):
                def g(): yield v, st
                return g()
            if cn == 'empty': return ret(pos >= len(bs))
            if cn == 'size': return ret(max(0, len(bs) - pos))
            if cn in ('peek_char', 'peek_uint8'):
                k = ex.argval(av[0], st) if av else 0
                if not isinstance(k, int): raise Unmodelled('symbolic peek offset in scan mode')
                if pos + k >= len(bs):
                    st.viol.append(('S-oob', 'reads the byte at offset %d with only %d available' % (k, len(bs) - pos), e.get('loc')))
                    return ret(Unknown('oob'))
                v = bs[pos + k]
                if cn == 'peek_char' and v >= 128: v -= 256
                return ret(v)
            if cn in ('bump', 'bump_in_this_line', 'bump_to_next_line'):
                n = ex.argval(av[0], st) if av else 1
                if not isinstance(n, int): raise Unmodelled('symbolic advance in scan mode')
                if pos + n > len(bs): st.viol.append(('S-oob', 'advances by %d with only %d available' % (n, len(bs) - pos), e.get('loc')))
                o['m_current'] = Cur(pos + n)
                return ret(None)
            if cn in ('discard', 'require'): return ret(None)
            if cn in ('current', 'begin', 'end'): return ret(('ptr', cn, pos))
        if cq in BUMPS: raise Unmodelled('raw bump in scan mode')
        return BaseMonitor.call(self, ex, e, cu, cq, cn, ob, objloc, av, st, fr)

    def oracle(self, ex, e, cq, inp, mode, st, fr):
        raise Unmodelled('opaque sub-rule %s in scan mode' % cq)

    def on_catch(self, ex, st, fr, h):
        pass


def run_on(db, fn, data, oracles=(), extra_args=None):
    """-> list of (kind, value, consumed, oracle answers, violations)"""
    mon = ScanMonitor(db, oracles); ex = Exec(db, mon); ex.maxsteps = 200000
    ex.widen = False          # every value is concrete in scan mode: loops are simply unrolled (bounded by the input length)
    st = State()
    inp = Obj(st.alloc({'__type': 'input', '__input': True, '__main': True, '__scan': True, 'bytes': tuple(data), 'm_current': Cur(0), 'private_depth': 0}))
    f = Frame(fn); ex.frames.append(f)
    bind_params(ex, fn, f, st, inp)
    out = []
    for comp in ex.run_fn(fn, f, st):
        s = comp[-1]
        pos = s.heap[inp.addr]['m_current'].pos
        orc = tuple(x[2] for x in s.events if isinstance(x, tuple) and x[0] == 'oracle')
        viol = [v for v in s.viol if v[0].startswith('S-')]
        for x in s.events:
            if isinstance(x, tuple) and x[0] == 'oracle' and x[1] == 'accumulate_digit' and len(x[3]) > 1 and not (isinstance(x[3][1], int) and 48 <= x[3][1] <= 57):
                viol.append(('S-digit', 'accumulate_digit is called with the non-digit byte %r' % (x[3][1],), None))
        out.append((comp[0], comp[1] if comp[0] == 'return' else (comp[1] if comp[0] == 'throw' else None), pos, orc, viol))
    return out


def class_strings(parts, maxlen):
    reps = [lo for lo, hi in parts]
    for n in range(0, maxlen + 1):
        for w in itertools.product(reps, repeat=n):
            yield w


def compare(db, fn, spec, maxlen=4, oracles=(), extra_bytes=(), on_oracle_false=None, parts=None):
    """spec: byte-level PEG expression for the prefix the scanner must consume.  Returns (strings explored, problems)"""
    parts = parts or byte_partition(db, fn, extra_bytes)
    probs = []; n = 0
    for w in class_strings(parts, maxlen):
        n += 1
        want = pegbytes.ev(spec, w, 0)
        for kind, val, pos, orc, viol in run_on(db, fn, w, oracles):
            for v in viol: probs.append((v[0], '%s on input %r' % (v[1], bytes(w)), w))
            if not all(orc):
                if on_oracle_false is not None:
                    p = on_oracle_false(kind, val, pos)
                    if p: probs.append(('S-overflow', '%s on input %r' % (p, bytes(w)), w))
                continue
            if kind == 'throw':
                got = ('raise',)
            elif kind == 'return' and val is True: got = ('ok', pos)
            elif kind == 'return' and val is False:
                got = ('fail',)
                if pos != 0: probs.append(('S-rewind', 'returns false with %d byte(s) consumed on input %r' % (pos, bytes(w)), w))
            else:
                probs.append(('S-value', 'returns %r on input %r' % (val, bytes(w)), w)); continue
            if got != want:
                probs.append(('S-lang', 'on input %r the scanner %s, the specification %s' % (bytes(w), show(got), show(want)), w))
    return n, probs, parts


def show(r):
    if r[0] == 'ok': return 'matches %d byte(s)' % r[1]
    if r[0] == 'fail': return 'fails'
    return 'raises'
