"""SCAN: hand-written byte scanners against a byte-level PEG specification (DESIGN.md 5/C09, C15, C16).

The scanner body is executed abstractly on *class strings*: the 256 byte values are partitioned by the constants the code
compares bytes with (so every byte of a class takes the same branches), and all strings over the classes up to a length bound
(plus end of input) are explored.  Designated helpers (e.g. accumulate_digit) are boolean oracles.  For every class string the
result (true / false / exception) and the consumed length are compared with the specification evaluated on a representative.
Reads beyond the available bytes are reported as well (cross-check of BOUNDS)."""
import collections, itertools
from . import core
from .exec import *
from .mon_base import *
from .spec import pegbytes

T = 'tao::pegtl::'


def reachable_fns(db, fn):
    seen = {}; todo = [fn]
    while todo:
        f = todo.pop()
        if f['u'] in seen: continue
        seen[f['u']] = f
        def callees(n):
            if isinstance(n, dict):
                if 'cu' in n and n['cu'] in db.fns and n['cu'] not in seen: todo.append(db.fns[n['cu']])
                for v in n.values(): callees(v)
            elif isinstance(n, list):
                for v in n: callees(v)
        callees(f.get('body'))
    return list(seen.values())


def byte_partition(db, fn, extra=(), byte_types=('char',), merge_gaps=False):
    """classes of bytes that the reachable code cannot tell apart: cut points from every constant a byte is compared with.
    merge_gaps: when bytes are only ever tested for (in)equality with constants, all bytes that equal none of the constants
    behave alike and form one class (represented by the first such byte)"""
    cuts = {0, 256}
    ordered = [False]
    for c in extra: cuts.add(c); cuts.add(c + 1)
    def consts(n):
        if isinstance(n, dict):
            if n.get('k') == 'bin' and n.get('op') in ('<', '>', '<=', '>=', '==', '!='):
                for side, other in (('l', 'r'), ('r', 'l')):
                    v = (n.get(side) or {}).get('v')
                    ot = strip_casts(n.get(other) or {}).get('t', '')
                    if isinstance(v, int) and -128 <= v <= 255 and ot.replace('const ', '').strip() in byte_types:
                        v &= 0xff; cuts.add(v); cuts.add(v + 1)
                        if n['op'] not in ('==', '!='): ordered[0] = True
                lt = strip_casts(n.get('l') or {}).get('t', '').replace('const ', '').strip(); rt = strip_casts(n.get('r') or {}).get('t', '').replace('const ', '').strip()
                if lt in byte_types and rt in byte_types and 'v' not in (n.get('l') or {}) and 'v' not in (n.get('r') or {}): ordered[0] = True     # byte against byte
            if n.get('k') == 'Case':
                v = (n.get('v') or {}).get('v')
                if isinstance(v, int) and 0 <= v <= 255: cuts.add(v); cuts.add(v + 1)
            for v in n.values(): consts(v)
        elif isinstance(n, list):
            for v in n: consts(v)
    for f in reachable_fns(db, fn): consts(f.get('body'))
    cs = sorted(cuts)
    parts = [(cs[i], cs[i + 1] - 1) for i in range(len(cs) - 1)]
    if merge_gaps and not ordered[0]:
        single = [p for p in parts if p[0] == p[1]]; gaps = [p for p in parts if p[0] != p[1]]
        # a gap of one byte that is not a constant of the code looks like a singleton: keep only real constants as singletons
        return single + gaps[:1]
    return parts


def strip_casts(n):
    while isinstance(n, dict) and n.get('k') == 'cast' and isinstance(n.get('e'), dict): n = n['e']
    return n


class ScanMonitor(BaseMonitor):
    def __init__(self, db, oracles=(), eol_check=None, trace=False):
        BaseMonitor.__init__(self, db)
        self.oracles = tuple(oracles)
        self.eol_check = eol_check      # set of end-of-line characters: position shortcuts are checked against them (C06)
        self.trace = trace              # record bump and rule-entry events (C16: span of the content rule)
        self.sites = collections.Counter()
        self.linked = lambda e, cq: True      # library sub-rules are inlined down to the bytes

    def data(self, st, inp): return st.heap[inp.addr]

    def call(self, ex, e, cu, cq, cn, ob, objloc, av, st, fr):
        if any(cq.startswith(o) for o in self.oracles):
            args = tuple(vkey(ex.argval(a, st)) for a in av)
            def g():
                s1 = st.copy(); s1.events.append(('oracle', cq.split('::')[-1], True, args)); yield True, s1
                s2 = st.copy(); s2.events.append(('oracle', cq.split('::')[-1], False, args)); yield False, s2
            return g()
        if self.trace and cn == 'match' and e.get('cc'):
            b = self.is_boundary(e, cq, cn, av, st, ex)
            if b is not None and isinstance(st.heap[b[0].addr]['m_current'].pos, int):
                st.events.append(('enter', (e.get('cc') or {}).get('s', ''), st.heap[b[0].addr]['m_current'].pos))
        inp = self.input_of(ex, ob, st) if ob is not None else None
        if inp is not None and st.heap[inp.addr].get('__scan'):
            o = st.heap[inp.addr]
            pos = o['m_current'].pos
            bs = o['bytes']
            if not isinstance(pos, int): raise Unmodelled('cursor lost in scan mode (%s)' % e.get('loc'))
            def ret(v):
                def g(): yield v, st
                return g()
            if cn == 'empty': return ret(pos >= len(bs))
            if cn == 'size': return ret(max(0, len(bs) - pos))
            if cn in ('peek_char', 'peek_uint8'):
                k = ex.argval(av[0], st) if av else 0
                if not isinstance(k, int): raise Unmodelled('symbolic peek offset in scan mode')
                if pos + k >= len(bs):
                    st.viol.append(('S-oob', 'reads the byte at offset %d with only %d available' % (k, len(bs) - pos), e.get('loc')))
                    return ret(Unknown('oob'))
                v = bs[pos + k]
                if cn == 'peek_char' and v >= 128: v -= 256
                return ret(v)
            if cn in ('bump', 'bump_in_this_line', 'bump_to_next_line'):
                n = ex.argval(av[0], st) if av else 1
                if not isinstance(n, int): raise Unmodelled('symbolic advance in scan mode')
                if pos + n > len(bs): st.viol.append(('S-oob', 'advances by %d with only %d available' % (n, len(bs) - pos), e.get('loc')))
                if self.trace: st.events.append(('bump', cn, pos, n, fr.fn['q'], e.get('loc')))
                if self.eol_check is not None and cn != 'bump' and pos + n <= len(bs):
                    self.sites[e.get('loc')] += 1
                    skipped = bs[pos:pos + n]
                    if cn == 'bump_in_this_line':
                        if any(x in self.eol_check for x in skipped):
                            st.viol.append(('S-eol', 'bump_in_this_line( %d ) skips %r, which contains an end-of-line character: line and column disagree with the definition' % (n, bytes(skipped)), e.get('loc')))
                    elif n and (skipped[-1] not in self.eol_check or any(x == skipped[-1] for x in skipped[:-1])):
                        st.viol.append(('S-eol', 'bump_to_next_line( %d ) skips %r: the last byte is not the only end-of-line character' % (n, bytes(skipped)), e.get('loc')))
                o['m_current'] = Cur(pos + n)
                return ret(None)
            if cn in ('discard', 'require'): return ret(None)
            if cn in ('current', 'begin', 'end'): return ret(('ptr', cn, pos))
        if cq in BUMPS: raise Unmodelled('raw bump in scan mode')
        return BaseMonitor.call(self, ex, e, cu, cq, cn, ob, objloc, av, st, fr)

    def oracle(self, ex, e, cq, inp, mode, st, fr):
        raise Unmodelled('opaque sub-rule %s in scan mode' % cq)

    def on_catch(self, ex, st, fr, h):
        pass


def run_on(db, fn, data, oracles=(), extra_args=None, eol_check=None, trace=False, mon_out=None):
    """-> list of (kind, value, consumed, oracle answers, violations[, events])"""
    mon = ScanMonitor(db, oracles, eol_check, trace); ex = Exec(db, mon); ex.maxsteps = 200000
    if mon_out is not None: mon_out.append(mon)
    ex.widen = False          # every value is concrete in scan mode: loops are simply unrolled (bounded by the input length)
    st = State()
    inp = Obj(st.alloc({'__type': 'input', '__input': True, '__main': True, '__scan': True, 'bytes': tuple(data), 'm_current': Cur(0), 'private_depth': 0}))
    f = Frame(fn); ex.frames.append(f)
    bind_params(ex, fn, f, st, inp)
    for p in fn['params']:
        if extra_args and p.get('n') in extra_args:
            v = EnvView(st, f.fid)[p['id']]
            if isinstance(v, tuple) and v[0] == 'refto': st.heap[v[1][1]][1] = extra_args[p['n']]
            else: EnvView(st, f.fid)[p['id']] = extra_args[p['n']]
    out = []
    for comp in ex.run_fn(fn, f, st):
        s = comp[-1]
        pos = s.heap[inp.addr]['m_current'].pos
        orc = tuple(x[2] for x in s.events if isinstance(x, tuple) and x[0] == 'oracle')
        viol = [v for v in s.viol if v[0].startswith('S-')]
        for x in s.events:
            if isinstance(x, tuple) and x[0] == 'oracle' and x[1] == 'accumulate_digit' and len(x[3]) > 1 and not (isinstance(x[3][1], int) and 48 <= x[3][1] <= 57):
                viol.append(('S-digit', 'accumulate_digit is called with the non-digit byte %r' % (x[3][1],), None))
        r = (comp[0], comp[1] if comp[0] == 'return' else (comp[1] if comp[0] == 'throw' else None), pos, orc, viol)
        if trace: r = r + ([x for x in s.events if isinstance(x, tuple) and x[0] in ('bump', 'enter')],)
        out.append(r)
    return out


def class_strings(parts, maxlen):
    reps = [lo for lo, hi in parts]
    for n in range(0, maxlen + 1):
        for w in itertools.product(reps, repeat=n):
            yield w


def compare(db, fn, spec, maxlen=4, oracles=(), extra_bytes=(), on_oracle_false=None, parts=None):
    """spec: byte-level PEG expression for the prefix the scanner must consume.  Returns (strings explored, problems)"""
    parts = parts or byte_partition(db, fn, extra_bytes)
    probs = []; n = 0
    for w in class_strings(parts, maxlen):
        n += 1
        want = pegbytes.ev(spec, w, 0)
        for kind, val, pos, orc, viol in run_on(db, fn, w, oracles):
            for v in viol: probs.append((v[0], '%s on input %r' % (v[1], bytes(w)), w))
            if not all(orc):
                if on_oracle_false is not None:
                    p = on_oracle_false(kind, val, pos)
                    if p: probs.append(('S-overflow', '%s on input %r' % (p, bytes(w)), w))
                continue
            if kind == 'throw':
                got = ('raise',)
            elif kind == 'return' and val is True: got = ('ok', pos)
            elif kind == 'return' and val is False:
                got = ('fail',)
                if pos != 0: probs.append(('S-rewind', 'returns false with %d byte(s) consumed on input %r' % (pos, bytes(w)), w))
            else:
                probs.append(('S-value', 'returns %r on input %r' % (val, bytes(w)), w)); continue
            if got != want:
                probs.append(('S-lang', 'on input %r the scanner %s, the specification %s' % (bytes(w), show(got), show(want)), w))
    return n, probs, parts


def show(r):
    if r[0] == 'ok': return 'matches %d byte(s)' % r[1]
    if r[0] == 'fail': return 'fails'
    return 'raises'
