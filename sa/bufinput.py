"""buffer_input: window arithmetic (DESIGN.md 4.4 B6, 4.7).  The object's pointer fields are symbols
(buffer base B, capacity M, cursor C, end E); arithmetic on them is memoised so that provenance can be compared by
identity.  Decided:
  accessors   buffer_occupied = E - C, buffer_free_before_current = C - B, buffer_free_after_end = (B + M) - E
  require     every call of the reader receives the *current* m_end and a length bounded by a buffer_free_after_end()
              value computed after the last modification of m_end; m_end only grows by what the reader returned; the only
              exits are: enough data buffered, reader returned 0, std::overflow_error; neither m_current nor the counters
              are touched
  discard     the window is moved to the buffer base with memmove( base, current, end - current ); afterwards
              current = base and end = base + (old end - old current); byte/line/column untouched
  size/empty/end   call require( amount ) first, then answer from the window"""
import collections
from . import core
from .exec import *
from .mon_base import *


class BufMonitor(BaseMonitor):
    def __init__(self, db):
        BaseMonitor.__init__(self, db)
        self.this = None

    def setup(self, st):
        B = st.sym(1, None); M = st.sym(1, None); C = st.sym(1, None); E = st.sym(1, None)
        st.zadd(B.id, C.id, 0); st.zadd(C.id, E.id, 0)          # B <= C <= E   (class invariant, also stated by the asserts)
        cur = st.alloc({'__type': 'inputerator', 'data': C, 'byte': st.sym(0, None), 'line': st.sym(1, None), 'column': st.sym(1, None)})
        buf = st.alloc({'__uptr': True, 'base': B})
        rd = st.alloc({'__reader': True})
        this = st.alloc({'__type': 'buffer_input', '__buf': True, 'm_reader': Obj(rd), 'm_maximum': M, 'm_buffer': Obj(buf), 'm_current': Obj(cur), 'm_end': E,
                         'm_source': Unknown('source'), 'private_depth': 0})
        st.x['bufver'] = 0
        st.x['tags'] = {}
        self.syms = {'B': B.id, 'M': M.id, 'C': C.id, 'E': E.id}
        self.cur_addr = cur
        return Obj(this)

    def on_write(self, ex, st, fr, loc, v):
        if loc[0] == 'field':
            o = st.heap.get(loc[1])
            if isinstance(o, dict) and o.get('__buf') and loc[2] == 'm_end':
                st.x['bufver'] = st.x.get('bufver', 0) + 1
                st.events.append(('write', 'm_end', vkey(v)))
            elif isinstance(o, dict) and o.get('__buf'):
                st.events.append(('write', loc[2], vkey(v)))
            elif loc[1] == self.cur_addr:
                st.events.append(('write', 'm_current.' + loc[2], vkey(v)))

    def call(self, ex, e, cu, cq, cn, ob, objloc, av, st, fr):
        vals = None
        if cq == '__assert_fail' or cq.endswith('::__assert_fail'):
            def g():
                return
                yield
            return g()
        if cq.startswith('std::unique_ptr<') and cn == 'get' and isinstance(ob, Obj) and st.heap.get(ob.addr, {}).get('__uptr'):
            base = st.heap[ob.addr]['base']
            def g(): yield base, st
            return g()
        if cq in ('std::min', 'std::max') and len(av) == 2:
            a = ex.argval(av[0], st); b = ex.argval(av[1], st)
            if isinstance(a, bool): a = int(a)
            if isinstance(b, bool): b = int(b)
            if isinstance(a, (int, Sym)) and isinstance(b, (int, Sym)) and not (isinstance(a, int) and isinstance(b, int)):
                n = st.sym(0, None)
                for x in (a, b):
                    if cq == 'std::min':
                        if isinstance(x, Sym): st.zadd(n.id, x.id, 0)
                        else: st.zadd(n.id, 0, x)
                    else:
                        if isinstance(x, Sym): st.zadd(x.id, n.id, 0)
                        else: st.zadd(0, n.id, -x)
                st.x['tags'][n.id] = (cq, vkey(a), vkey(b))
                def g(): yield n, st
                return g()
        if isinstance(ob, Obj) and isinstance(st.heap.get(ob.addr), dict) and st.heap[ob.addr].get('__reader') and cn == 'operator()':
            vals = [ex.argval(a, st) for a in av]
            this = st.heap[self.this.addr]
            ptr, ln = (vals + [None, None])[:2]
            if vkey(ptr) != vkey(this['m_end']):
                st.viol.append(('B6', 'the reader is not given the current end of the buffered data (m_end) as destination', e.get('loc')))
            ok = False
            if isinstance(ln, Sym):
                for sid, tag in st.x['tags'].items():
                    if tag == ('free', st.x['bufver']) and st.entails(ln.id, sid, 0): ok = True
            if not ok:
                st.viol.append(('B6', 'the length handed to the reader is not bounded by a buffer_free_after_end() value computed after the last change of m_end: the reader may be told to write past the end of the buffer', e.get('loc')))
            r = st.sym(0, None)
            if isinstance(ln, Sym): st.zadd(r.id, ln.id, 0)
            st.x['tags'][r.id] = ('read', st.x['bufver'])
            st.events.append(('reader', st.x['bufver']))
            def g():
                yield r, st
                s2 = st.copy(); s2.events.append(('reader-throws',)); yield Thrown('reader'), s2
            return g()
        if isinstance(ob, Obj) and isinstance(st.heap.get(ob.addr), dict) and st.heap[ob.addr].get('__buf'):
            if cn == 'buffer_free_after_end' and getattr(self, 'tag_accessors', True):
                n = st.sym(0, None); st.x['tags'][n.id] = ('free', st.x['bufver'])
                def g(): yield n, st
                return g()
        if cq in ('memmove', 'std::memmove', 'memcpy', 'std::memcpy'):
            vals = [ex.argval(a, st) for a in av]
            st.events.append(('memmove', cq.split('::')[-1]) + tuple(vkey(v) for v in vals))
            def g(): yield None, st
            return g()
        if cq in BUMPS:
            vals = [ex.argval(a, st) for a in av]
            st.events.append(('bump', cq.split('::')[-1], vkey(vals[1]) if len(vals) > 1 else None, vkey(vals[2]) if len(vals) > 2 else None,
                              isinstance(vals[0], Obj) and vals[0].addr == self.cur_addr))
            def g(): yield None, st
            return g()
        return BaseMonitor.call(self, ex, e, cu, cq, cn, ob, objloc, av, st, fr)

    def on_compare(self, ex, st, e, op, l, r):
        st.events.append(('cmp', op, vkey(l), vkey(r), st.x['bufver']))


def run(db, fn, tag_accessors=True, amount=True):
    mon = BufMonitor(db); mon.tag_accessors = tag_accessors
    ex = Exec(db, mon); st = State()
    this = mon.setup(st); mon.this = this
    f = Frame(fn, this=this); ex.frames.append(f)
    env = EnvView(st, f.fid)
    amt = None
    for p in fn['params']:
        if 'unsigned long' in p['t'] or 'size_t' in p['t']:
            amt = st.sym(0, None); env[p['id']] = amt
        else:
            env[p['id']] = Unknown('param')
    out = []
    for comp in ex.run_fn(fn, f, st):
        s = comp[-1]
        out.append((comp[0], comp[1] if comp[0] != 'normal' else None, s))
    return out, mon, amt, st


def _memo(st, op, a, b):
    key = (op, a, b) if op == '-' else ('+',) + tuple(sorted((a, b)))
    return st.memo.get(key)


def check_accessor(db, fn):
    want = {'buffer_occupied': ('-', 'E', 'C'), 'buffer_free_before_current': ('-', 'C', 'B'), 'buffer_free_after_end': ('-', ('+', 'B', 'M'), 'E'), 'buffer_capacity': 'M'}.get(fn['n'])
    if want is None: return None
    out, mon, amt, st0 = run(db, fn, tag_accessors=False)
    probs = []
    for kind, val, s in out:
        if kind != 'return': probs.append('%s() leaves by %s' % (fn['n'], kind)); continue
        def sym_of(x):
            if isinstance(x, str): return mon.syms[x]
            a = sym_of(x[1]); b = sym_of(x[2])
            return None if a is None or b is None else _memo(s, x[0], a, b)
        exp = sym_of(want)
        if not isinstance(val, Sym) or exp is None or val.id != exp:
            probs.append('%s() does not compute %s' % (fn['n'], fmt(want)))
    return probs


def fmt(w):
    names = {'B': 'm_buffer.get()', 'M': 'm_maximum', 'C': 'm_current.data', 'E': 'm_end'}
    if isinstance(w, str): return names[w]
    return '%s %s %s' % (fmt(w[1]), w[0], fmt(w[2]))


def check_require(db, fn):
    out, mon, amt, st0 = run(db, fn)
    probs = []
    for kind, val, s in out:
        for v in s.viol:
            if v[0] == 'B6': probs.append(v[1])
        evs = s.events
        if any(e == ('reader-throws',) for e in evs): continue
        writes = [e for e in evs if e[0] == 'write']
        for w in writes:
            if w[1] != 'm_end': probs.append('require() writes %s' % w[1])
        readers = [e for e in evs if e[0] == 'reader']
        # m_end only grows by what the reader returned: each write of m_end is old m_end + a reader result
        n_w = len([w for w in writes if w[1] == 'm_end'])
        if n_w > len(readers): probs.append('m_end is modified %d times but the reader was called %d times' % (n_w, len(readers)))
        if kind == 'throw':
            if val != 'std::overflow_error' and not str(val).startswith('std::overflow_error'): probs.append('require() throws %s (only std::overflow_error is permitted)' % val)
            if readers: probs.append('std::overflow_error is thrown after the reader was already called')
            continue
        # normal exit: classify by the last comparison
        cmps = [e for e in evs if e[0] == 'cmp']
        if not cmps: probs.append('require() returns without testing the window'); continue
        last = cmps[-1]
        C = mon.syms['C']; E_now = s.heap[mon.this.addr]['m_end']
        need = _memo(s, '+', C, amt.id)
        def is_window_test(c):
            ks = (c[2], c[3])
            return need is not None and ('S', need) in ks and vkey(E_now) in ks and c[4] == s.x['bufver']
        rzero = any(tag[0] == 'read' and tag[1] == s.x['bufver'] - 0 and s.facts.get(sid, [None, None]) == [0, 0] for sid, tag in s.x.get('tags', {}).items())
        if not (is_window_test(last) or rzero):
            probs.append('require() returns normally although neither the requested amount is buffered (test against the current m_end) nor did the reader report end of input')
    return sorted(set(probs))


def check_discard(db, fn):
    out, mon, amt, st0 = run(db, fn)
    probs = []
    B, C, E = mon.syms['B'], mon.syms['C'], mon.syms['E']
    for kind, val, s in out:
        evs = s.events
        writes = [e for e in evs if e[0] == 'write']; mm = [e for e in evs if e[0] == 'memmove']
        if kind == 'throw': probs.append('discard() may throw'); continue
        if not writes and not mm: continue          # nothing to discard on this path
        occ = _memo(s, '-', E, C)
        if len(mm) != 1 or mm[0][1] != 'memmove': probs.append('discard() must move the window with exactly one memmove (overlapping ranges)'); continue
        if occ is None or mm[0][2:] != (('S', B), ('S', C), ('S', occ)):
            probs.append('discard() does not call memmove( buffer base, m_current.data, m_end - m_current.data )')
        newend = _memo(s, '+', B, occ) if occ is not None else None
        wd = dict((w[1], w[2]) for w in writes)
        if wd.get('m_current.data') != ('S', B): probs.append('discard() does not reset m_current.data to the buffer base')
        if newend is None or wd.get('m_end') != ('S', newend): probs.append('discard() does not set m_end to base + (old m_end - old m_current.data)')
        for w in writes:
            if w[1] not in ('m_current.data', 'm_end'): probs.append('discard() modifies %s (positions must not change)' % w[1])
    if not any(e[0] == 'memmove' for k, v, s in out for e in s.events): probs.append('discard() never moves the window')
    return sorted(set(probs))


def check_query(db, fn):
    """size( amount ) / empty() / end( amount ): require first, then answer from the window"""
    out, mon, amt, st0 = run(db, fn)
    probs = []
    # require() is inlined: look for a reader call or the window test before the result is formed
    for kind, val, s in out:
        if kind != 'return': continue
        evs = s.events
        if not any(e[0] == 'reader' or (e[0] == 'cmp' and e[1] in ('<=', '>', '<', '>=')) for e in evs):     # the window test of require()
            probs.append('%s() answers without calling require()' % fn['n'])
        C = mon.syms['C']; Ecur = s.heap[mon.this.addr]['m_end']
        if fn['n'] == 'size':
            exp = _memo(s, '-', Ecur.id, C) if isinstance(Ecur, Sym) else None
            if not isinstance(val, Sym) or exp is None or val.id != exp: probs.append('size() does not return m_end - m_current.data after require()')
        if fn['n'] == 'end':
            if vkey(val) != vkey(Ecur): probs.append('end() does not return m_end after require()')
    return sorted(set(probs))


def check_bump(db, fn):
    out, mon, amt, st0 = run(db, fn)
    probs = []
    want = {'bump': 'bump', 'bump_in_this_line': 'bump_in_this_line', 'bump_to_next_line': 'bump_to_next_line'}[fn['n']]
    for kind, val, s in out:
        b = [e for e in s.events if e[0] == 'bump']
        if len(b) != 1 or b[0][1] != want: probs.append('%s() does not forward to internal::%s exactly once' % (fn['n'], want)); continue
        if b[0][2] != ('S', amt.id): probs.append('%s() does not pass its count' % fn['n'])
        if not b[0][4]: probs.append('%s() does not advance m_current' % fn['n'])
        if want == 'bump' and not isinstance(b[0][3], int): probs.append('bump() does not pass Eol::ch')
    return sorted(set(probs))


class ConcreteBufMonitor(BaseMonitor):
    """buffer_input over small concrete windows: the buffer starts at 0, pointers are numbers; the reader may write anything from 0 to the length it is given"""
    def __init__(self, db):
        BaseMonitor.__init__(self, db); self.this = None

    def call(self, ex, e, cu, cq, cn, ob, objloc, av, st, fr):
        if cq == '__assert_fail' or cq.endswith('::__assert_fail'):
            def g():
                return
                yield
            return g()
        if cq.startswith('std::unique_ptr<') and cn == 'get' and isinstance(ob, Obj) and st.heap.get(ob.addr, {}).get('__uptr'):
            def g(): yield 0, st
            return g()
        if cq in ('std::min', 'std::max') and len(av) == 2:
            a = ex.argval(av[0], st); b = ex.argval(av[1], st)
            if isinstance(a, int) and isinstance(b, int):
                r = min(int(a), int(b)) if cq == 'std::min' else max(int(a), int(b))
                def g(): yield r, st
                return g()
        if isinstance(ob, Obj) and isinstance(st.heap.get(ob.addr), dict) and st.heap[ob.addr].get('__reader') and cn == 'operator()':
            vals = [ex.argval(a, st) for a in av]
            ptr, ln = (vals + [None, None])[:2]
            if not isinstance(ln, int) or isinstance(ln, bool): raise Unmodelled('reader called with a non-concrete length')
            st.events.append(('reader', ptr, ln))
            def g():
                for r in range(0, max(ln, 0) + 1):
                    s2 = st.copy(); s2.events.append(('read', r)); yield r, s2
            return g()
        return BaseMonitor.call(self, ex, e, cu, cq, cn, ob, objloc, av, st, fr)


def check_require_concrete(db, fn, maxima=(1, 2, 3, 4)):
    """require( amount ) on every small window: buffer [0, M), 0 <= current <= end <= M, amount 0..M+2.  The reader's answer 0 means "end of input" and nothing
    else, so it must never be asked for 0 bytes; require() returns normally only with the amount buffered or after the reader said 0 to a request of at least
    one byte; it throws std::overflow_error exactly when current + amount does not fit into the buffer, and before it called the reader."""
    probs = set(); n = 0
    for M in maxima:
        for C in range(0, M + 1):
            for E in range(C, M + 1):
                for amount in range(0, M + 3):
                    mon = ConcreteBufMonitor(db); ex = Exec(db, mon); ex.widen = False; st = State()
                    cur = st.alloc({'__type': 'inputerator', 'data': C, 'byte': 0, 'line': 1, 'column': 1})
                    buf = st.alloc({'__uptr': True, 'base': 0}); rd = st.alloc({'__reader': True})
                    this = Obj(st.alloc({'__type': 'buffer_input', '__buf': True, 'm_reader': Obj(rd), 'm_maximum': M, 'm_buffer': Obj(buf), 'm_current': Obj(cur), 'm_end': E, 'm_source': Unknown('source'), 'private_depth': 0}))
                    mon.this = this
                    f = Frame(fn, this=this); ex.frames.append(f)
                    env = EnvView(st, f.fid)
                    for p in fn['params']: env[p['id']] = amount if ('unsigned long' in p['t'] or 'size_t' in p['t']) else Unknown('param')
                    what = 'buffer of %d, current %d, end %d, require( %d )' % (M, C, E, amount)
                    for comp in ex.run_fn(fn, f, st):
                        n += 1
                        s = comp[-1]; kind = comp[0]
                        readers = [e for e in s.events if isinstance(e, tuple) and e[0] == 'reader']
                        reads = [e[1] for e in s.events if isinstance(e, tuple) and e[0] == 'read']
                        if any(r[2] <= 0 for r in readers): probs.add('the reader is asked for %d bytes (%s): its answer 0 is taken for the end of the input' % (min(r[2] for r in readers), what))
                        Enow = s.heap[this.addr]['m_end']
                        if isinstance(Enow, int) and Enow > M: probs.add('the end of the buffered data moves beyond the buffer (%s)' % what)
                        fits = C + amount <= M
                        if kind == 'throw':
                            if fits: probs.add('an exception (%s) although the request fits into the buffer (%s)' % (comp[1], what))
                            elif readers: probs.add('the overflow is reported after the reader was already called (%s)' % what)
                        else:
                            if not fits and C + amount > E: probs.add('returns normally although the request does not fit into the buffer: no std::overflow_error (%s)' % what)
                            elif isinstance(Enow, int) and C + amount > Enow and not (reads and reads[-1] == 0):
                                probs.add('returns normally with less than the requested amount buffered although the reader did not report the end of the input (%s)' % what)
    return sorted(probs)[:6], n
