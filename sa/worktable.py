"""Truth table of analyze_cycles_impl::work() (DESIGN.md 4.5): ties the C++ traversal to the reference DFS of
sa/spec/analyze_model.py.  Being a truth table it is insensitive to how the expressions are spelled.

For each case of the switch over analyze_type the loop body is executed once for a in {T,F} x accum in {T,F} with the
recursive call as an oracle w in {T,F}: recorded are (is work called?, with which accum argument, new a).  Required:
  any/opt/seq: a starts false; work is called iff a is false, with accum || a; a' = a || w;  returns true / false / a
  sor:         a starts true;  work is called for every sub-rule regardless of a, with accum; a' = a && w; returns a
  re-entry (rule already on the stack): ++m_problems iff !accum; returns accum
  problems(): every entry is used as a root with accum = false."""
from .exec import *
from .mon_base import *

T = 'tao::pegtl::'
WORK = T + 'internal::analyze_cycles_impl::work'


class WorkMonitor(BaseMonitor):
    def __init__(self, db):
        BaseMonitor.__init__(self, db)
        self.calls = []      # accum arguments of all work() calls seen on any path (events of pruned loop iterations included)

    def call(self, ex, e, cu, cq, cn, ob, objloc, av, st, fr):
        if cq == '__assert_fail' or cq.endswith('::__assert_fail'):
            def g():
                return
                yield
            return g()
        if cq == WORK:
            vals = [ex.argval(a, st) for a in av]
            acc = vals[1] if len(vals) > 1 else None
            self.calls.append(acc if isinstance(acc, bool) else repr(acc))
            def g():
                s1 = st.copy(); s1.events.append(('work', acc if isinstance(acc, bool) else repr(acc), True)); yield True, s1
                s2 = st.copy(); s2.events.append(('work', acc if isinstance(acc, bool) else repr(acc), False)); yield False, s2
            return g()
        if cn in ('find', 'set_stack_guard', 'vector_stack_guard') or cq.startswith('std::'):
            def g(): yield Unknown(cn), st
            return g()
        return None

    def construct(self, ex, e, st, fr):
        def g(): yield Unknown('obj'), st
        return g()

    def on_write(self, ex, st, fr, loc, v):
        if loc[0] == 'field' and loc[2] == 'm_problems': st.events.append(('problems', vkey(v)))


def find(n, kind):
    out = []
    def walk(x):
        if isinstance(x, dict):
            if x.get('k') == kind: out.append(x)
            for v in x.values(): walk(v)
        elif isinstance(x, list):
            for v in x: walk(v)
    walk(n)
    return out


def new_exec(db, fn):
    mon = WorkMonitor(db); ex = Exec(db, mon); st = State()
    this = Obj(st.alloc({'__type': 'analyze_cycles_impl', 'm_problems': 0, 'm_verbose': Unknown('verbose')}))
    f = Frame(fn, this=this); ex.frames.append(f)
    return ex, st, f


def extract(db, fn):
    """-> (table {type: {...}}, problems found while reading the structure)"""
    probs = []
    accum_id = fn['params'][1]['id']; entry_id = fn['params'][0]['id']
    body = fn['body']['s']
    first_if = next((s for s in body if s.get('k') == 'If'), None)
    if first_if is None: return None, ['no stack-guard test found in work()']
    cases = find(first_if.get('then'), 'Case')
    table = {}
    for c in cases:
        t = c['v'].get('v')
        decls = [d for ds in find(c, 'Decl') for d in ds['decls'] if d['t'] == 'bool']
        loops = find(c, 'ForRange'); rets = find(c, 'Return')
        if len(decls) != 1 or len(loops) != 1 or not rets:
            probs.append('case %s of work(): unexpected shape' % t); continue
        a_id = decls[0]['id']; a0 = decls[0].get('init', {}).get('v')
        steps = {}
        for a in (False, True):
            for accum in (False, True):
                ex, st, f = new_exec(db, fn)
                env = EnvView(st, f.fid); env[a_id] = a; env[accum_id] = accum; env[entry_id] = Unknown('entry'); env[loops[0]['var']['id']] = Unknown('r')
                outs = set()
                for comp in ex.exec(loops[0]['body'], st, f):
                    s = comp[-1]
                    calls = tuple((e[1], e[2]) for e in s.events if e[0] == 'work')
                    outs.add((calls, s.env[f.fid].get(a_id)))
                steps[(a, accum)] = outs
        ret = {}
        for a in (False, True):
            ex, st, f = new_exec(db, fn)
            env = EnvView(st, f.fid); env[a_id] = a; env[accum_id] = Unknown('accum')
            vals = set(vkey(v) for v, s in ex.ev(rets[-1]['e'], st, f))
            ret[a] = vals
        table[t] = {'a0': bool(a0) if a0 is not None else None, 'steps': steps, 'ret': ret}
    # re-entry branch: everything after the first if
    rest = body[body.index(first_if) + 1:]
    re = {}
    for accum in (False, True):
        ex, st, f = new_exec(db, fn)
        env = EnvView(st, f.fid); env[accum_id] = accum; env[entry_id] = Unknown('entry')
        outs = set()
        for comp in ex.exec({'k': 'Compound', 's': rest, 'loc': fn['loc']}, st, f):
            s = comp[-1]
            outs.add((sum(1 for e in s.events if e[0] == 'problems'), comp[0], comp[1] if comp[0] == 'return' else None))
        re[accum] = outs
    return {'cases': table, 'reentry': re}, probs


def check(tab):
    """compare with the reference DFS; returns list of problems"""
    probs = []
    names = {0: 'any', 1: 'opt', 2: 'seq', 3: 'sor'}
    for t in (0, 1, 2, 3):
        c = tab['cases'].get(t)
        if c is None: probs.append('no case for analyze_type::%s in work()' % names[t]); continue
        if t in (0, 1, 2):
            if c['a0'] is not False: probs.append('%s: the accumulator starts as %s, expected false' % (names[t], c['a0']))
            for accum in (False, True):
                want = {((( accum, True),), True), (((accum, False),), False)}
                if c['steps'][(False, accum)] != want:
                    probs.append('%s: with nothing consumed so far the sub-rule must be visited once with accum=%s and a := result; got %s' % (names[t], accum, sorted(map(str, c['steps'][(False, accum)]))))
                if c['steps'][(True, accum)] != {((), True)}:
                    probs.append('%s: after a consuming sub-rule the later sub-rules need not be visited and a stays true; got %s' % (names[t], sorted(map(str, c['steps'][(True, accum)]))))
            wr = {0: ({True}, {True}), 1: ({False}, {False}), 2: ({False}, {True})}[t]
            if (c['ret'][False], c['ret'][True]) != wr: probs.append('%s: returns %s / %s for a = false / true, expected %s / %s' % (names[t], c['ret'][False], c['ret'][True], wr[0], wr[1]))
        else:
            if c['a0'] is not True: probs.append('sor: the accumulator starts as %s, expected true' % c['a0'])
            for accum in (False, True):
                for a in (False, True):
                    want = {(((accum, True),), a), (((accum, False),), False)}
                    if c['steps'][(a, accum)] != want:
                        probs.append('sor: every alternative must be visited (a=%s) with the unchanged accum=%s, and a := a && result; got %s' % (a, accum, sorted(map(str, c['steps'][(a, accum)]))))
            if (c['ret'][False], c['ret'][True]) != ({False}, {True}): probs.append('sor: does not return a')
    re = tab['reentry']
    if any(o[0] != 1 or o[1] != 'return' or o[2] is not False for o in re[False]) or not re[False]:
        probs.append('re-entry without progress must count exactly one problem and return false; got %s' % sorted(map(str, re[False])))
    if any(o[0] != 0 or o[1] != 'return' or o[2] is not True for o in re[True]) or not re[True]:
        probs.append('re-entry after progress must count no problem and return true; got %s' % sorted(map(str, re[True])))
    return probs


def check_problems_fn(db, fn):
    """problems(): every entry is a root, accum = false"""
    mon = WorkMonitor(db); ex = Exec(db, mon); st = State()
    this = Obj(st.alloc({'__type': 'analyze_cycles_impl', 'm_problems': st.sym(0, None), 'm_verbose': Unknown('verbose')}))
    f = Frame(fn, this=this); ex.frames.append(f)
    probs = []; called = False
    loops = find(fn['body'], 'ForRange')
    if not loops: return ['problems() does not iterate over the entries']
    for comp in ex.run_fn(fn, f, st):
        s = comp[-1]
        if comp[0] == 'return' and vkey(comp[1]) != vkey(s.heap[this.addr]['m_problems']): probs.append('problems() does not return m_problems')
    for acc in mon.calls:
        if acc is not False: probs.append('problems() starts a traversal with accum=%s' % acc)
    if not mon.calls: probs.append('problems() never calls work()')
    # the call must sit in a loop over all entries
    if not any(worktable_calls_work(l) for l in loops): probs.append('problems() does not call work() for every entry')
    return sorted(set(probs))


def worktable_calls_work(node):
    found = []
    def walk(x):
        if isinstance(x, dict):
            if x.get('cq') == WORK: found.append(1)
            for v in x.values(): walk(v)
        elif isinstance(x, list):
            for v in x: walk(v)
    walk(node.get('body'))
    return bool(found)
