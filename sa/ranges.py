"""RANGE: path-sensitive interval analysis of the instantiated integer helpers (DESIGN.md 4.8).

accumulate_digit< Integer, Maximum >( result, digit ), for every instantiated (Integer, Maximum):
  inductive invariant  0 <= result <= Maximum, precondition digit in '0'..'9'
  O1  no arithmetic result leaves the range of its type (no wrap, no truncating store)
  O2  on every true path the new result is old * 10 + ( digit - '0' ) and stays <= Maximum
  O3  on every false path result is unchanged and old * 10 + ( digit - '0' ) > Maximum (exact overflow report)
The conversion wrappers must only combine these results: convert_* return false as soon as accumulate_digit does and store nothing
else; convert_negative negates in unsigned arithmetic."""
import collections
from .exec import *
from .mon_base import *

T = 'tao::pegtl::'
TYPES = {
    'bool': (0, 1), 'char': (-128, 127), 'signed char': (-128, 127), 'unsigned char': (0, 255), 'short': (-2**15, 2**15 - 1), 'unsigned short': (0, 2**16 - 1),
    'int': (-2**31, 2**31 - 1), 'unsigned int': (0, 2**32 - 1), 'long': (-2**63, 2**63 - 1), 'unsigned long': (0, 2**64 - 1), 'long long': (-2**63, 2**63 - 1),
    'unsigned long long': (0, 2**64 - 1),
}


def trange(t):
    t = (t or '').replace('const ', '').replace('&', '').strip()
    return TYPES.get(t)


def ival(st, v):
    if isinstance(v, bool): return (int(v), int(v))
    if isinstance(v, int): return (v, v)
    if isinstance(v, Sym):
        lo, hi = st.facts.get(v.id, [None, None])
        return (lo, hi)
    return (None, None)


class RangeMonitor(BaseMonitor):
    def __init__(self, db):
        BaseMonitor.__init__(self, db)

    def arith(self, ex, op, a, b, st, e):
        if op not in ('+', '-', '*'): return NotImplemented
        if isinstance(a, int) and isinstance(b, int) and not isinstance(a, bool) and not isinstance(b, bool):
            v = {'+': a + b, '-': a - b, '*': a * b}[op]
            self.fit(st, e, v, v, op)
            return v
        if not isinstance(a, (int, Sym)) or not isinstance(b, (int, Sym)): return NotImplemented
        la, ha = ival(st, a); lb, hb = ival(st, b)
        if None in (la, ha, lb, hb): return NotImplemented
        if op == '+': lo, hi = la + lb, ha + hb
        elif op == '-': lo, hi = la - hb, ha - lb
        else:
            c = [la * lb, la * hb, ha * lb, ha * hb]; lo, hi = min(c), max(c)
        self.fit(st, e, lo, hi, op)
        n = st.sym(None, None); st.facts[n.id] = [lo, hi]
        st.x.setdefault('prov', {})[n.id] = (op, vkey(a), vkey(b))
        return n

    def on_cast(self, ex, st, e, v):
        if e.get('ck') in ('IntegralCast',) and isinstance(v, (int, Sym)) and not isinstance(v, bool):
            lo, hi = ival(st, v)
            if lo is not None and hi is not None: self.fit(st, e, lo, hi, 'cast')

    def fit(self, st, e, lo, hi, op):
        r = trange(e.get('t'))
        if r is None: return
        if lo < r[0] or hi > r[1]:
            signed = r[0] < 0
            st.viol.append(('G-wrap', '%s of type %s can reach [%d, %d], outside [%d, %d]: %s' % (
                {'+': 'a sum', '-': 'a difference', '*': 'a product', 'cast': 'a converted value'}.get(op, op), e.get('t'), lo, hi, r[0], r[1],
                'signed overflow (undefined behaviour)' if signed and 'char' not in e.get('t', '') and 'short' not in e.get('t', '') else 'the value wraps / is truncated'), e.get('loc')))


def int_targs(fn):
    out = []
    for ta in fn.get('ta', []):
        if ta.get('k') == 'int': out.append(ta)
    return out


def check_accumulate_digit(db, fn):
    """returns (problems, info)"""
    ta = fn.get('ta', [])
    ity = ta[0].get('s') if ta else None
    mx = ta[1].get('v') if len(ta) > 1 else None
    if isinstance(mx, str): mx = int(mx)
    r = trange(ity)
    if r is None or mx is None: return ['cannot read the template arguments of ' + fn['disp']], {}
    if mx < 0: mx += 2 ** {255: 8, 65535: 16}.get(r[1], 64 if r[1] > 2**32 else 32)
    mon = RangeMonitor(db); ex = Exec(db, mon); st = State()
    f = Frame(fn); ex.frames.append(f)
    env = EnvView(st, f.fid)
    old = st.sym(None, None); st.facts[old.id] = [0, mx]
    cell = st.alloc(['cell', old]); env[fn['params'][0]['id']] = ('refto', ('cell', cell))
    dig = st.sym(None, None); st.facts[dig.id] = [48, 57]
    env[fn['params'][1]['id']] = dig
    probs = []; paths = 0
    for comp in ex.run_fn(fn, f, st):
        s = comp[-1]; paths += 1
        for v in s.viol:
            if v[0] == 'G-wrap': probs.append('%s (%s)' % (v[1], rel_loc(v[2])))
        if comp[0] != 'return' or not isinstance(comp[1], bool):
            probs.append('leaves by %s %r' % (comp[0], comp[1] if len(comp) > 2 else None)); continue
        new = s.heap[cell][1]
        d = s.closure()
        def lob(sym):
            v = d.get((0, sym.id)); lo = ival(s, sym)[0]
            return max(x for x in (lo, -v if v is not None else None) if x is not None) if (lo is not None or v is not None) else None
        lo_old, lo_d = lob(old), lob(dig)
        for sid, pv in s.x.get('prov', {}).items():
            if pv == ('-', ('S', dig.id), 48):       # c = digit - '0': the comparisons of the code refine c, not digit
                lc = lob(Sym(sid))
                if lc is not None: lo_d = max(lo_d, lc + 48)
        if comp[1]:
            prov = s.x.get('prov', {})
            ok = False
            if isinstance(new, Sym) and new.id in prov:
                p = prov[new.id]
                if p[0] == '+':
                    for x, y in ((p[1], p[2]), (p[2], p[1])):
                        px = prov.get(x[1]) if isinstance(x, tuple) and x[0] == 'S' else None
                        if px and px[0] == '*' and {px[1], px[2]} == {('S', old.id), 10}:
                            # y must be digit - '0'
                            if isinstance(y, tuple) and y[0] == 'S': ok = digit_minus_zero(s, y[1], dig.id, prov)
            if not ok: probs.append('a true path does not store old * 10 + ( digit - \'0\' ) into result')
            ln, hn = ival(s, new)
            if hn is None or hn > mx: probs.append('a true path can store %s, above the maximum %d' % (hn, mx))
        else:
            if vkey(new) != vkey(old): probs.append('a false (overflow) path modifies result')
            lowest = lo_old * 10 + (lo_d - 48) if lo_old is not None and lo_d is not None else None
            # if the code computed old * 10 + ( digit - '0' ) itself, the path constraints on that value count as well
            prov = s.x.get('prov', {})
            for sid, pv in prov.items():
                if pv[0] == '+':
                    for x, y in ((pv[1], pv[2]), (pv[2], pv[1])):
                        px = prov.get(x[1]) if isinstance(x, tuple) and x[0] == 'S' else None
                        if px and px[0] == '*' and {px[1], px[2]} == {('S', old.id), 10} and isinstance(y, tuple) and y[0] == 'S' and digit_minus_zero(s, y[1], dig.id, prov):
                            lw = lob(Sym(sid))
                            if lw is not None: lowest = lw if lowest is None else max(lowest, lw)
            if lowest is None or lowest <= mx:
                probs.append('reports overflow although old * 10 + digit can be %s <= %d (an exact value is rejected)' % (lowest if lowest is not None else '?', mx))
    return sorted(set(probs)), {'type': ity, 'maximum': mx, 'paths': paths}


def digit_minus_zero(s, sid, digid, prov):
    p = prov.get(sid)
    if p and p[0] == '-' and p[1] == ('S', digid) and p[2] == 48: return True
    # base arith Sym - int creates a zone-related symbol without provenance: accept an exact offset of -48
    d = s.closure()
    return d.get((sid, digid)) == -48 and d.get((digid, sid)) == 48


# ---- conversion wrappers -----------------------------------------------------------------------------------
def find_nodes(n, pred, out=None):
    out = [] if out is None else out
    if isinstance(n, dict):
        if pred(n): out.append(n)
        for v in n.values(): find_nodes(v, pred, out)
    elif isinstance(n, list):
        for v in n: find_nodes(v, pred, out)
    return out


def check_convert_negative(db, fn):
    """result = -temporary exactly, without undefined behaviour, for temporary in [0, 2^(w-1)]"""
    from . import affine
    probs = []
    sty = fn['ta'][0].get('s'); r = trange(sty)
    if r is None: return ['unknown signed type ' + str(sty)]
    mx = r[1] + 1
    calls = find_nodes(fn['body'], lambda n: n.get('k') == 'call' and n.get('cq') == T + 'internal::accumulate_digits')
    if len(calls) != 1: return ['convert_negative does not call accumulate_digits exactly once']
    cta = calls[0].get('cta') or []
    got = [x.get('v') for x in cta if x.get('k') == 'int']
    got = [int(x) if isinstance(x, str) else x for x in got]
    uty = next((x.get('s') for x in cta if x.get('k') == 'type'), None)
    ur = trange(uty)
    if ur is None or ur[0] != 0 or ur[1] != 2 * r[1] + 1: probs.append('the digits are accumulated in %s, expected the unsigned type of the same width' % uty)
    if got != [mx] and got != [mx - (ur[1] + 1 if ur else 0)]: probs.append('the magnitude is limited to %s, expected %d (one more than the maximum of %s)' % (got, mx, sty))
    tmp = calls[0]['args'][0]
    assigns = find_nodes(fn['body'], lambda n: n.get('k') == 'bin' and n.get('op') == '=' and (n.get('l') or {}).get('k') == 'ref' and (n.get('l') or {}).get('d') == fn['params'][0]['id'])
    if len(assigns) != 1: return probs + ['result is assigned %d times' % len(assigns)]
    env = {'__lo': 0, '__hi': mx, tmp.get('d'): (uty, [(0, mx, 1, 0)])}
    try:
        t, pieces = affine.evaluate(assigns[0]['r'], env)
        # the store converts to the type of result
        pieces = affine.norm(pieces, sty)
        bad = [p for p in pieces if (p[2], p[3]) != (-1, 0) and not (p[0] == p[1] and p[2] * p[0] + p[3] == -p[0])]
        if bad: probs.append('the stored value is not -magnitude for magnitude in %s' % [(p[0], p[1]) for p in bad])
    except affine.UB as u:
        probs.append('undefined behaviour: %s (signed integer overflow)' % u)
    except Exception as e:
        probs.append('cannot evaluate the negation expression: %s' % e)
    return probs


def check_forwarders(db, fn):
    """accumulate_digits / convert_positive / convert_unsigned / convert_signed: they only combine the results of the exact helpers"""
    probs = []
    n = fn['n']
    ity = fn['ta'][0].get('s') if fn.get('ta') else None
    mxs = [x.get('v') for x in (fn.get('ta') or []) if x.get('k') == 'int']
    def callees(name):
        return find_nodes(fn['body'], lambda x: x.get('k') == 'call' and x.get('cq') == T + 'internal::' + name)
    def targs(c): return [(x.get('s') if x.get('k') == 'type' else x.get('v')) for x in c.get('cta') or []]
    if n == 'accumulate_digits':
        cs = callees('accumulate_digit')
        if len(cs) != 1: return ['accumulate_digits calls accumulate_digit %d times in its loop body' % len(cs)]
        if targs(cs[0]) != [ity] + mxs: probs.append('accumulate_digit is instantiated with %s instead of %s' % (targs(cs[0]), [ity] + mxs))
        loops = find_nodes(fn['body'], lambda x: x.get('k') == 'ForRange')
        if len(loops) != 1 or not find_nodes(loops[0], lambda x: x is cs[0]): probs.append('accumulate_digit is not called for every character of the input')
        rets = find_nodes(fn['body'], lambda x: x.get('k') == 'Return')
        vals = sorted(str((r.get('e') or {}).get('v')) for r in rets)
        if vals != ['0', '1']: probs.append('accumulate_digits returns %s, expected false on the first overflow and true at the end' % vals)
    elif n in ('convert_positive', 'convert_unsigned'):
        cs = callees('accumulate_digits')
        if len(cs) != 1 or targs(cs[0]) != [ity] + (mxs or [trange(ity)[1]]): probs.append('%s does not forward to accumulate_digits< %s, maximum >' % (n, ity))
    elif n == 'convert_signed':
        neg = callees('convert_negative'); pos = callees('convert_positive')
        if len(neg) != 1 or len(pos) != 1: probs.append('convert_signed does not dispatch to convert_negative / convert_positive')
    return probs
