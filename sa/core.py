"""Common infrastructure: extraction from /repo's current working tree, result collection,
known findings, replay files, evidence files, exit codes.

Exit codes of a check:  0 = every obligation discharged (known findings are printed as
KNOWN-FINDING lines), 1 = at least one unlisted violation (VIOLATION lines), 2 = the analysis
itself is broken (universe does not compile, unmodelled construct, vanished anchor, uncovered
pattern, positive control not flagged, budget exceeded).
"""
import concurrent.futures as cf
import hashlib, json, os, subprocess, sys, time

VERIF = os.path.dirname(os.path.dirname(os.path.abspath(__file__)))
REPO = os.environ.get('VERIF_REPO', '/repo')
INC = os.path.join(REPO, 'include')
PEGTL = os.path.join(INC, 'tao', 'pegtl')
BUILD = os.path.join(VERIF, 'build')
CACHE = os.path.join(VERIF, '.cache')
CFGX = os.path.join(BUILD, 'cfgx')
CXXFLAGS = ['-std=gnu++17', '-I' + INC, '-I' + os.path.join(VERIF, 'universe'), '-UNDEBUG', '-Wno-everything']


_REPO_UNITS = {}
UNIT_DEADLINE = None       # set per worker by repo_units for the repository's own units (thorough tier)


def is_repo_unit(path):
    """was this extraction produced from a file under REPO/src (registered by repo_units.extract_all)?"""
    return path in _REPO_UNITS


class AnalysisBroken(Exception):
    pass


def rel(path):
    """normalise a location string file:line:col to a path relative to the repo's include dir"""
    if not path:
        return path
    parts = path.split(':')
    f = os.path.normpath(parts[0])
    for pre in (PEGTL + '/', INC + '/', REPO + '/', VERIF + '/'):
        if f.startswith(pre):
            f = f[len(pre):]
            break
    return ':'.join([f] + parts[1:])


def relfile(path):
    return rel(path).split(':')[0] if path else path


def ensure_cfgx():
    src = os.path.join(VERIF, 'tools', 'cfgx', 'cfgx.cc')
    if not os.path.exists(CFGX) or os.path.getmtime(src) > os.path.getmtime(CFGX):
        r = subprocess.run([os.path.join(VERIF, 'setup.sh')], capture_output=True, text=True)
        if r.returncode != 0:
            raise AnalysisBroken('cannot build extractor: ' + r.stderr[-2000:])


_tree_hash = None


def tree_hash():
    """content hash of everything an extraction depends on (repo headers + sources, universe, extractor)"""
    global _tree_hash
    if _tree_hash is not None:
        return _tree_hash
    h = hashlib.sha256()
    roots = [INC, os.path.join(REPO, 'src'), os.path.join(REPO, 'doc'), os.path.join(VERIF, 'universe'), os.path.join(VERIF, 'tools')]
    for root in roots:
        for dp, dn, fn in sorted(os.walk(root)):
            dn.sort()
            for f in sorted(fn):
                p = os.path.join(dp, f)
                try:
                    with open(p, 'rb') as fh:
                        data = fh.read()
                except OSError:
                    continue
                h.update(p.encode()); h.update(b'\0'); h.update(hashlib.sha256(data).digest())
    _tree_hash = h.hexdigest()[:24]
    return _tree_hash


def _extract_one(args):
    src, defs, out, extra = args
    cmd = [CFGX, src, '-o', out] + extra + ['--'] + CXXFLAGS + ['-D' + d for d in defs]
    t0 = time.time()
    r = subprocess.run(cmd, capture_output=True, text=True)
    ok = r.returncode == 0 and os.path.exists(out) and os.path.getsize(out) > 0
    return src, defs, out, ok, r.stderr, time.time() - t0


def extract(units, extra=(), allow_errors=False):
    """units: list of (source path relative to /verif or absolute, [defines]).  Returns list of json paths.
    Every run re-reads /repo's working tree: results are cached under .cache/<hash of all inputs>/."""
    ensure_cfgx()
    d = os.path.join(CACHE, tree_hash())
    os.makedirs(d, exist_ok=True)
    jobs = []; outs = []
    for src, defs in units:
        if not os.path.isabs(src):
            src = os.path.join(VERIF, src)
        tag = os.path.basename(src).replace('.', '_') + ''.join('-' + x.replace('=', '') for x in defs)
        if extra:
            tag += '-' + hashlib.sha1(' '.join(extra).encode()).hexdigest()[:8]
        out = os.path.join(d, tag + '.json')
        outs.append(out)
        if not (os.path.exists(out) and os.path.getsize(out) > 0):
            jobs.append((src, defs, out + '.tmp', list(extra)))
    errors = []
    if jobs:
        with cf.ThreadPoolExecutor(max_workers=min(16, len(jobs))) as ex:
            for src, defs, out, ok, err, dt in ex.map(_extract_one, jobs):
                if ok:
                    os.replace(out, out[:-4])
                else:
                    errors.append((src, defs, err))
    if errors and not allow_errors:
        msg = '\n'.join('%s %s:\n%s' % (s, d2, e[-3000:]) for s, d2, e in errors)
        raise AnalysisBroken('extraction failed (universe does not compile against the current tree):\n' + msg)
    _prune_cache(keep=d)
    if allow_errors:
        return outs, errors
    return outs


def _prune_cache(keep):
    try:
        now = time.time()
        ds = [os.path.join(CACHE, x) for x in os.listdir(CACHE)]
        ds = [x for x in ds if os.path.isdir(x) and x != keep and len(os.path.basename(x)) == 24]
        # never remove a directory another process may be using: only those untouched for an hour, oldest first
        ds = [x for x in ds if now - os.path.getmtime(x) > 3600]
        ds.sort(key=os.path.getmtime)
        for x in ds[:-2]:
            subprocess.run(['rm', '-rf', x])
    except OSError:
        pass


class DB:
    """merged function database of several extracted units"""

    def __init__(self, paths):
        self.fns = {}
        self.order = []
        self.records = {}
        self.inventory = {}
        self.tables = {}
        self.typegraph = {}
        self.traits = []
        self.units = len(paths)
        self.witness_errors = []
        for p in paths:
            with open(p) as fh:
                d = json.load(fh)
            for f in d.get('functions', []):
                u = f['u']
                if u not in self.fns:
                    f['_unit'] = p
                    self.fns[u] = f
                    self.order.append(f)
            for k, v in d.get('records', {}).items():
                self.records.setdefault(k, v)
            for it in d.get('inventory', []):
                self.inventory.setdefault((it['loc'], it['n']), it)
            for k, v in d.get('tables', {}).items():
                self.tables[k] = v
            for k, v in d.get('typegraph', {}).items():
                self.typegraph.setdefault(k, v)
            self.traits.extend(d.get('traits', []))

    def get(self, usr):
        return self.fns.get(usr)


# ---------------------------------------------------------------------------------------------
class Result:
    def __init__(self, prop, tier, level=None):
        if level is None:
            # the level recorded in the evidence is the category claimed for the property in MANIFEST.json
            level = 'other'
            try:
                for c in json.load(open(os.path.join(VERIF, 'MANIFEST.json')))['checks']:
                    if c['property_id'] == prop: level = c['level_claimed']['category']
            except Exception:
                pass
        self.prop = prop; self.tier = tier; self.level = level
        self.t0 = time.time()
        self.obligations = 0; self.discharged = 0
        self.violations = []     # dict(rule, site, msg, detail)
        self.samples = []
        self.cov = {}
        self.assumptions = []
        self.notes = []
        self.broken = []
        self.distinct = set()

    def ob(self, ok=True, n=1, key=None):
        self.obligations += n
        if ok:
            self.discharged += n
        if key is not None:
            self.distinct.add(key)

    def violation(self, rule, site, msg, detail=None, key=None):
        """site: 'relative/file.hpp::function-or-construct' (stable against line shifts)"""
        v = {'rule': rule, 'site': site, 'msg': msg, 'detail': detail or {}}
        k = key or (rule, site, msg)
        for w in self.violations:
            if w.get('_k') == k:
                return
        v['_k'] = k
        self.violations.append(v)

    def sample(self, x, limit=12):
        if len(self.samples) < limit:
            self.samples.append(x)

    def broke(self, msg):
        self.broken.append(msg)

    def broke_at(self, path, msg):
        """an instantiation that could not be analysed: in a universe unit (everything there is meant to be analysable) the analysis is broken; in one of the
        repository's own translation units (thorough tier: tests and examples with their own rules, controls, inputs) it is listed as not analysed -
        the function templates themselves are covered by the universe, whose pattern floors are enforced"""
        if is_repo_unit(path):
            self.cov.setdefault('not_analysed_in_repository_units', [])
            if len(self.cov['not_analysed_in_repository_units']) < 200: self.cov['not_analysed_in_repository_units'].append(msg[:300])
            self.cov['not_analysed_in_repository_units_count'] = self.cov.get('not_analysed_in_repository_units_count', 0) + 1
        else:
            self.broke(msg)

    # ---- finish -------------------------------------------------------------------------
    def finish(self, explanation, rule_text, trusted=None):
        known = load_known()
        out_viol = []; known_hits = []
        for v in self.violations:
            kf = match_known(known, self.prop, v)
            if kf is not None:
                known_hits.append((kf, v))
            else:
                out_viol.append(v)
        wall = time.time() - self.t0
        byid = {}
        for kf, v in known_hits:
            byid.setdefault(kf['id'], []).append(v)
        for kid, vs in byid.items():
            v = vs[0]
            print('KNOWN-FINDING: property=%s %s [%s] %s: %s%s' % (self.prop, kid, v['rule'], v['site'], v['msg'], (' (+%d more instances at the same site)' % (len(vs) - 1)) if len(vs) > 1 else ''))
        code = 0
        if self.broken:
            for b in self.broken:
                print('ANALYSIS-BROKEN property=%s: %s' % (self.prop, b))
            code = 2
        rdir = os.path.join(VERIF, 'replays') if (REPO == '/repo' and not os.environ.get('VERIF_SCRATCH')) else os.path.join(CACHE, 'replays-scratch')
        os.makedirs(rdir, exist_ok=True)
        for i, v in enumerate(out_viol):
            path = os.path.join(rdir, '%s-%d.json' % (self.prop, i + 1))
            vv = {k: x for k, x in v.items() if k != '_k'}
            vv['property'] = self.prop; vv['tier'] = self.tier
            with open(path, 'w') as fh:
                json.dump(vv, fh, indent=1, default=str)
            print('%s [%s] %s: %s' % (self.prop, v['rule'], v['site'], v['msg']))
            print('VIOLATION property=%s replay=%s' % (self.prop, path))
            code = 1      # a decided violation stands even when another part of the analysis could not be completed
        cov = dict(self.cov)
        cov.update({
            'explanation': explanation,
            'rule': rule_text,
            'obligations': self.obligations,
            'discharged': self.discharged - 0,
            'evaluations': max(self.obligations, 1),
            'distinct_nontrivial': len(self.distinct) if self.distinct else 0,
            'samples': self.samples[:12] or ['(none)'],
            'known_findings_matched': [kf['id'] for kf, _ in known_hits],
            'analysis_broken': self.broken,
            'checker_cmd': './check %s --tier %s' % (self.prop, self.tier),
            'trusted_base': trusted or ['clang 14 front end (template instantiation, constant folding)', 'tools/cfgx extractor', 'sa/exec.py abstract executor and its primitive transfer functions'],
        })
        ev = {
            'property_id': self.prop, 'tier': self.tier, 'seed': int(os.environ.get('VERIF_SEED', '0') or 0),
            'level': self.level, 'coverage': cov, 'assumptions': self.assumptions,
            'wall_s': round(wall, 2), 'violations': len(out_viol),
        }
        evdir = os.path.join(VERIF, 'evidence') if (REPO == '/repo' and not os.environ.get('VERIF_SCRATCH')) else os.path.join(CACHE, 'evidence-scratch')   # runs against a scratch tree never touch the committed evidence
        os.makedirs(evdir, exist_ok=True)
        with open(os.path.join(evdir, self.prop + '.json'), 'w') as fh:
            json.dump(ev, fh, indent=1, default=str)
        print('%s %s: obligations=%d discharged=%d violations=%d known=%d broken=%d wall=%.1fs' % (
            self.prop, self.tier, self.obligations, self.discharged, len(out_viol), len(known_hits), len(self.broken), wall))
        return code


def load_known():
    p = os.path.join(VERIF, 'known_findings.json')
    if not os.path.exists(p):
        return []
    with open(p) as fh:
        return [k for k in json.load(fh).get('findings', []) if k.get('status') == 'known']


def match_known(known, prop, v):
    """a finding suppresses a violation only when property, rule and site match, and (if given) every
    string of 'match' occurs in the message: a different violation of the same property stays a VIOLATION"""
    for k in known:
        if prop not in k.get('properties', [k.get('property')]):
            continue
        if k.get('rule') and k['rule'] != v['rule']:
            continue
        if k.get('site') and k['site'] != v['site']:
            continue
        if any(m not in v['msg'] for m in k.get('match', [])):
            continue
        return k
    return None
