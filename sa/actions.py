"""ACTIONS: how the library calls user actions (C04): normal::apply/apply0, the apply/apply0/if_apply rules,
apply_single/apply0_single, and the span accessors of action_input."""
import collections
from . import core
from .exec import *
from .mon_base import *
from .frame import targs_of, class_targs

T = 'tao::pegtl::'; I = 'tao::pegtl::internal::'


class ActionMonitor(BaseMonitor):
    """events: ('ai', begin, input-desc)  construction of an action_input
               ('act', name, class, args, outcome)  call of a user action (bodiless apply/apply0 outside the library)
               ('call', A', M', ..., outcome)       rule boundary"""

    def desc(self, ex, v, st):
        if isinstance(v, Obj):
            o = st.heap.get(v.addr)
            if isinstance(o, dict):
                if o.get('__state'): return ('state', o.get('__idx'))
                if o.get('__input'): return ('input', 'main' if o.get('__main') else 'second')
                if o.get('__ai') is not None: return ('ai', o['__ai'])
                return ('obj', o.get('__type'))
        if isinstance(v, Cur): return ('cur', v.pos)
        if isinstance(v, CurField): return ('curfield', v.pos, v.name)
        return ('val', type(v).__name__)

    def construct(self, ex, e, st, fr):
        t = e.get('t', '')
        if t.startswith(I + 'action_input<') or t.startswith('const ' + I + 'action_input<'):
            args = e.get('args', [])
            def g():
                def rec(i, acc, s):
                    if i == len(args): yield acc, s; return
                    for v, s2 in ex.ev(args[i], s, fr):
                        if isinstance(v, Thrown): continue
                        yield from rec(i + 1, acc + [v], s2)
                for vals, s in rec(0, [], st):
                    ds = tuple(self.desc(ex, v, s) for v in vals)
                    n = sum(1 for x in s.events if isinstance(x, tuple) and x[0] == 'ai')
                    cur = None
                    for a, o in s.heap.items():
                        if isinstance(o, dict) and o.get('__main'): cur = o['m_current'].pos
                    s.events.append(('ai', ds, cur))
                    yield Obj(s.alloc({'__type': t, '__ai': n, 'm_begin': vals[0] if vals else None, 'm_input': vals[1] if len(vals) > 1 else None})), s
            return g()
        return BaseMonitor.construct(self, ex, e, st, fr)

    def on_boundary(self, ex, e, cq, inp, mode, st, fr):
        cta = targs_of(e.get('cta'))
        return ('call', cta['A'], mode, (e.get('cc') or {}).get('s') or cq)

    def is_user_action(self, ex, av, st):
        """Action::apply( action_input, st... ) / Action::apply0( st... ), as opposed to the control hooks
        Control::apply( begin, in, st... ) / Control::apply0( in, st... ) which receive the parse input"""
        for a in av[:2]:
            v = ex.argval(a, st)
            if self.input_of(ex, v, st) is not None or isinstance(v, Cur): return False
        return True

    def call(self, ex, e, cu, cq, cn, ob, objloc, av, st, fr):
        if cn in ('apply', 'apply0') and e.get('static') and self.is_user_action(ex, av, st):
            vals = [ex.argval(a, st) for a in av]
            ds = tuple(self.desc(ex, v, st) for v in vals)
            cc = (e.get('cc') or {}).get('s')
            isbool = e.get('crt') == 'bool'
            def g():
                if isbool:
                    s1 = st.copy(); s1.events.append(('act', cn, cc, ds, 'T')); yield True, s1
                    s2 = st.copy(); s2.events.append(('act', cn, cc, ds, 'F')); yield False, s2
                else:
                    s1 = st.copy(); s1.events.append(('act', cn, cc, ds, 'void')); yield None, s1
                s3 = st.copy(); s3.events.append(('act', cn, cc, ds, 'throw')); yield Thrown('action'), s3
            return g()
        return BaseMonitor.call(self, ex, e, cu, cq, cn, ob, objloc, av, st, fr)


def paths(db, fn, never_false=frozenset(), this=None):
    mon = ActionMonitor(db, never_false)
    ex = Exec(db, mon); st = State(); inp = new_input(st)
    f = Frame(fn, this=this(st, inp) if this else None); ex.frames.append(f)
    bound = False; nstate = 0
    for p in fn['params']:
        t = p['t']
        if not bound and ('_input<' in t and 'action_input' not in t) and t.startswith(('tao::pegtl::', 'const tao::pegtl::')) and t.endswith('&'):
            EnvView(st, f.fid)[p['id']] = inp; bound = True
        elif 'action_input<' in t:
            EnvView(st, f.fid)[p['id']] = Obj(st.alloc({'__type': t, '__ai': 'param'}))
        elif 'inputerator' in t or t in ('const char *const &', 'const char *&'):
            EnvView(st, f.fid)[p['id']] = Cur('B')
        elif t.endswith('&'):
            EnvView(st, f.fid)[p['id']] = Obj(st.alloc({'__type': t, '__state': True, '__idx': nstate})); nstate += 1
        else:
            EnvView(st, f.fid)[p['id']] = Unknown('param')
    out = collections.Counter()
    for comp in ex.run_fn(fn, f, st):
        s = comp[-1]
        val = comp[1] if comp[0] == 'return' else None
        if not isinstance(val, bool): val = mon.desc(ex, val, s) if val is not None else None
        cur = s.heap[inp.addr]['m_current'].pos
        out[(tuple(s.events), comp[0], val, cur)] += 1
    return out, nstate


def check_normal_apply(db, fn):
    """normal< Rule >::apply< Action >( begin, in, st... ) / apply0< Action >( in, st... )"""
    out, nst = paths(db, fn)
    probs = []
    states = tuple(('state', i) for i in range(nst))
    for (evs, kind, val, cur), n in out.items():
        acts = [e for e in evs if e[0] == 'act']
        ais = [e for e in evs if e[0] == 'ai']
        if any(e[0] == 'call' for e in evs): probs.append('matches a rule inside the action hook')
        if len(acts) != 1:
            probs.append('calls the user action %d times (exactly once expected)' % len(acts)); continue
        a = acts[0]
        if a[1] != fn['n']: probs.append('%s hook calls the user %s' % (fn['n'], a[1]))
        if fn['n'] == 'apply':
            if len(ais) != 1: probs.append('constructs %d action inputs (exactly one expected)' % len(ais)); continue
            if ais[0][1] != (('cur', 'B'), ('input', 'main')): probs.append('action_input is built from %s, expected (begin, in)' % (ais[0][1],))
            if a[3] != (('ai', 0),) + states: probs.append('Action::apply receives %s, expected (action_input, states in order)' % (a[3],))
        else:
            if a[3] != states: probs.append('Action::apply0 receives %s, expected the states in order' % (a[3],))
        if kind == 'return' and a[4] in ('T', 'F') and val is not (a[4] == 'T'): probs.append('returns %s although the action returned %s' % (val, a[4]))
        if kind == 'throw' and a[4] != 'throw': probs.append('throws although the action returned normally')
    return sorted(set(probs)), out


def check_apply_rule(db, fn, never_false=frozenset()):
    """internal::apply / apply0 / if_apply rules"""
    out, nst = paths(db, fn, never_false)
    tn, ca = class_targs(fn)
    own = targs_of(fn.get('ta'))
    actions = []
    for a in ca:
        if a.get('k') == 'pack': actions = [x.get('s') for x in a.get('a', [])]
    states = tuple(('state', i) for i in range(nst))
    probs = []
    for (evs, kind, val, cur), n in out.items():
        acts = [e for e in evs if e[0] == 'act']
        ais = [e for e in evs if e[0] == 'ai']
        calls = [e for e in evs if e[0] == 'call']
        names = [e[0] for e in evs]
        if own['A'] != 1:
            if acts: probs.append('actions are called while apply_mode::nothing')
            continue
        if tn == I + 'if_apply':
            if len(calls) != 1: probs.append('the rule is matched %d times' % len(calls)); continue
            matched = calls[0][-1] in ('T+', 'T0')
            if not matched:
                if acts: probs.append('actions are called although the rule did not match')
                continue
            if acts and names.index('act') < names.index('call'): probs.append('actions are called before the rule matched')
            if actions and calls[0][1] != 1: probs.append('the rule is matched with apply_mode::nothing although actions are enabled')
        # the actions are called in order until one returns false
        exp_seq = []
        res = True
        got = [(a[1], a[2], a[4]) for a in acts]
        # expected classes prefix
        want_cls = actions[:len(acts)]
        if [a[2] for a in acts] != want_cls: probs.append('actions called: %s, expected a prefix of %s in order' % ([a[2] for a in acts], actions))
        for i, a in enumerate(acts):
            if i < len(acts) - 1 and a[4] in ('F', 'throw'): probs.append('an action is called after %s returned false / threw' % a[2])
        last = acts[-1][4] if acts else None
        if kind == 'return':
            complete = len(acts) == len(actions) and last in ('T', 'void', None)
            stopped = last == 'F'
            if not (complete or stopped) and actions: probs.append('returns after calling only %d of %d actions' % (len(acts), len(actions)))
            if val is not (not stopped): probs.append('returns %s; expected %s (conjunction of the action results)' % (val, not stopped))
            if val is False and cur != 'E' and fn_mode(fn) == 0: probs.append('returns false with the cursor %s' % cur)
        if acts and tn in (I + 'apply', I + 'if_apply'):
            if len(ais) != 1: probs.append('constructs %d action inputs (one expected)' % len(ais))
            else:
                exp_in = (('cur', 'E'), ('input', 'main'))
                if ais[0][1] != exp_in: probs.append('action_input is built from %s, expected %s (position where the match started, in)' % (ais[0][1], exp_in))
                if tn == I + 'apply' and ais[0][2] != 'E': probs.append('cursor moved before the action input was built')
            for a in acts:
                if a[3] != (('ai', 0),) + states: probs.append('%s::apply receives %s, expected (action_input, states in order)' % (a[2], a[3]))
        if acts and tn == I + 'apply0':
            for a in acts:
                if a[3] != states: probs.append('%s::apply0 receives %s, expected the states in order' % (a[2], a[3]))
    return sorted(set(probs)), out


def check_action_input(db, fn):
    """span accessors: begin() is the stored iterator, end() is the input's current position"""
    n = fn['n']
    def this(st, inp):
        return Obj(st.alloc({'__type': 'action_input', '__ai': 'this', 'm_begin': Cur('B'), 'm_input': inp}))
    out, _ = paths(db, fn, this=this)
    probs = []
    vals = set((k[1], k[2]) for k in out)
    lazy = 'tracking_mode::lazy' in (fn.get('cls') or {}).get('s', '')
    want = {
        'begin': [('curfield', 'B', 'data'), ('cur', 'B')],
        'current': [('curfield', 'B', 'data'), ('cur', 'B')],
        'end': [('curfield', 'E', 'data'), ('cur', 'E')],
        'inputerator': [('cur', 'B')],
        'input': [('input', 'main')],
    }.get(n)
    if want is None: return None, out
    for kind, val in vals:
        if kind != 'return' or val not in want:
            probs.append('%s() yields %s %s, expected %s' % (n, kind, val, want[0]))
    return sorted(set(probs)), out
