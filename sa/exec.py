"""Abstract executor over the structured ASTs produced by tools/cfgx.

A path-sensitive abstract interpreter for one instantiated function: every condition the
domains do not decide forks the state; calls are either handled by the monitor (rule-boundary
oracle, primitives), inlined from their own extracted bodies, or treated as external.
Scopes run the destructors of their live objects on every completion (normal, return, break,
exception); loops are iterated to a fixpoint over canonical state signatures.
No code of /repo is executed: the interpreter walks the type-checked AST."""
import json, sys, copy, itertools, collections

REQ, OPT = 0, 1
WIDEN = 8   # tao::pegtl::rewind_mode enumerators

class Unknown:
    __slots__ = ('tag',)
    def __init__(self, tag='?'): self.tag = tag
    def __repr__(self): return 'U(%s)' % self.tag
    def key(self): return ('U',)
class Sym:            # symbolic integer with interval facts kept in state.facts[id]
    __slots__ = ('id',)
    def __init__(self, i): self.id = i
    def __repr__(self): return 'S%d' % self.id
    def key(self): return ('S', self.id)
class Obj:            # reference to heap object
    __slots__ = ('addr',)
    def __init__(self, a): self.addr = a
    def __repr__(self): return '@%d' % self.addr
    def key(self): return ('O', self.addr)
class Cur:            # cursor value
    __slots__ = ('pos',)
    def __init__(self, p): self.pos = p
    def __repr__(self): return 'Cur(%s)' % self.pos
    def key(self): return ('C', self.pos)
class Null:
    def key(self): return ('N',)
    def __repr__(self): return 'null'
NULL = Null()
class CPtr:           # pointer into the main input: current cursor (of epoch) + off
    __slots__ = ('off', 'epoch')
    def __init__(self, off, epoch): self.off = off; self.epoch = epoch
    def key(self): return ('P', vkey(self.off), self.epoch)
    def __repr__(self): return 'CPtr(%r@%d)' % (self.off, self.epoch)
class EndP:
    def key(self): return ('END',)
ENDP = EndP()
class Thrown:
    __slots__ = ('what',)
    def __init__(self, w): self.what = w
    def key(self): return ('T', self.what)
    def __repr__(self): return 'Thrown(%s)' % self.what
class CurField:       # field (data/byte/line/column) of a cursor value
    __slots__ = ('pos', 'name')
    def __init__(self, p, n): self.pos = p; self.name = n
    def key(self): return ('CF', self.pos, self.name)
    def __repr__(self): return 'CurField(%s.%s)' % (self.pos, self.name)
class Closure:
    __slots__ = ('usr', 'frame', 'fn')
    def __init__(self, u, f, fn=None): self.usr = u; self.frame = f; self.fn = fn
    def key(self): return ('L', self.usr)

def vkey(v):
    if isinstance(v, (bool, int, str)) or v is None: return v
    if isinstance(v, tuple): return tuple(vkey(x) for x in v)
    if isinstance(v, (dict, list)): return ('X', 'container')
    k = getattr(v, 'key', None)
    return k() if k else ('X', type(v).__name__)

class State:
    def __init__(self):
        self.heap = {}        # addr -> dict(field->value) | ('scalar', value)
        self.next = 1
        self.facts = {}       # sym id -> [lo, hi]
        self.nsym = 0
        self.trace = []       # decisions (for reports)
        self.viol = []        # violations noticed on this path
        self.events = []
        self.live = []
        self.zone = {}        # (x, y) -> c   meaning  x - y <= c ; x,y sym ids or 0 for ZERO
        self.env = {}         # frame id -> {decl id -> value}: local variables are per-path state
        self.memo = {}        # (op, sym id, sym id) -> sym id of the result (memoised symbolic arithmetic)
        self.x = {}           # monitor-specific per-path data (values: scalars or flat dicts)
        self.av = None        # sym id of 'bytes available at the current cursor of the main input'
        self.epoch = 0        # incremented whenever the cursor of the main input moves
        self.req = []         # amounts requested through size()/empty()/require() in this epoch: linear forms (sym id|0, const)
    def copy(self):
        s = State.__new__(State)
        s.heap = {a: (dict(o) if isinstance(o, dict) else list(o)) for a, o in self.heap.items()}
        s.next = self.next; s.facts = {k: list(v) for k, v in self.facts.items()}; s.nsym = self.nsym
        s.trace = list(self.trace); s.viol = list(self.viol); s.events = list(self.events); s.live = list(self.live)
        s.zone = dict(self.zone); s.av = self.av; s.epoch = self.epoch; s.req = list(self.req)
        s.env = {k: dict(v) for k, v in self.env.items()}; s.memo = dict(self.memo)
        s.x = {k: (dict(v) if isinstance(v, dict) else v) for k, v in self.x.items()}
        return s
    def zadd(self, x, y, c):
        if x == y: return
        k = (x, y)
        if k not in self.zone or self.zone[k] > c: self.zone[k] = c
    def closure(self, extra=()):
        # nodes: syms mentioned + ZERO(0); fold intervals in
        d = dict(self.zone)
        for (x, y, c) in extra:
            if (x, y) not in d or d[(x, y)] > c: d[(x, y)] = c
        nodes = {0}
        for (x, y) in d: nodes.add(x); nodes.add(y)
        for i, f in self.facts.items():
            if f[0] is not None or f[1] is not None: nodes.add(i)
        for i in list(nodes):
            if i and i in self.facts:
                lo, hi = self.facts[i]
                if hi is not None and ((i, 0) not in d or d[(i, 0)] > hi): d[(i, 0)] = hi
                if lo is not None and ((0, i) not in d or d[(0, i)] > -lo): d[(0, i)] = -lo
        nodes = list(nodes)
        for k in nodes:
            for i in nodes:
                ik = d.get((i, k))
                if ik is None: continue
                for j in nodes:
                    kj = d.get((k, j))
                    if kj is None: continue
                    if (i, j) not in d or d[(i, j)] > ik + kj: d[(i, j)] = ik + kj
        return d
    def entails(self, x, y, c):
        """x - y <= c ?"""
        if x == y: return c >= 0
        d = self.closure()
        v = d.get((x, y))
        return v is not None and v <= c
    def feasible(self, extra):
        d = self.closure(extra)
        return all(d.get((i, i), 0) >= 0 for (i, j) in d if i == j)
    def alloc(self, o):
        a = self.next; self.next += 1; self.heap[a] = o; return a
    def sym(self, lo=None, hi=None):
        if lo is not None and lo > WIDEN and hi is None: lo = WIDEN
        self.nsym += 1; self.facts[self.nsym] = [lo, hi]; return Sym(self.nsym)
    def sig(self, roots):
        # canonical signature of reachable heap from roots (list of values)
        seen = {}; out = []; symno = {}
        def walk(v):
            if isinstance(v, Obj):
                if v.addr in seen: return ('O', seen[v.addr])
                seen[v.addr] = len(seen); i = seen[v.addr]
                o = self.heap.get(v.addr)
                if isinstance(o, dict): out.append((i, tuple(sorted((k, walk(x)) for k, x in o.items()))))
                elif o is not None: out.append((i, ('s', walk(o[1]))))
                return ('O', i)
            if isinstance(v, Sym):
                if v.id not in symno: symno[v.id] = len(symno) + 1
                f = self.facts.get(v.id, [None, None]); return ('S', symno[v.id], f[0], f[1])
            if isinstance(v, CPtr): return ('P', walk(v.off), 'cur' if v.epoch == self.epoch else 'stale')
            if isinstance(v, Closure): return ('L', v.usr)
            return vkey(v)
        r = tuple(walk(v) for v in roots)
        if self.av is not None and self.av not in symno: symno[self.av] = 'AV'
        for q in self.req:
            if q[0] and q[0] not in symno: symno[q[0]] = len(symno) + 1000
        z = tuple(sorted(((symno.get(x, 0) if x else 0, symno.get(y, 0) if y else 0, c) for (x, y), c in self.zone.items() if (x == 0 or x in symno) and (y == 0 or y in symno)), key=str))
        rq = tuple(sorted(((symno.get(q[0], 0), q[1]) for q in self.req), key=str))
        xs = tuple((k2, tuple(sorted(self.x[k2].items(), key=str)) if isinstance(self.x.get(k2), dict) else self.x.get(k2)) for k2 in self.x.get('__sig', ()))
        return (r, tuple(out), z, symno.get(self.av), rq, xs)

_frame_serial = [0]

class Frame:
    """static part of an activation; the variable bindings live in State.env[ fid ] (one copy per path)"""
    def __init__(self, fn, this=None):
        _frame_serial[0] += 1
        self.fid = _frame_serial[0]
        self.fn = fn; self.this = this; self.scopes = [[]]; self.parent = None; self.pending = {}
    def key(self): return ('F', self.fid)

class EnvView:
    """dict-like view of one frame's bindings in one state (keeps the monitors' `f.env[ id ] = v` idiom)"""
    __slots__ = ('st', 'fid')
    def __init__(self, st, fid): self.st = st; self.fid = fid
    def _d(self): return self.st.env.setdefault(self.fid, {})
    def __getitem__(self, k): return self._d()[k]
    def __setitem__(self, k, v): self._d()[k] = v
    def __contains__(self, k): return k in self._d()
    def get(self, k, dflt=None): return self._d().get(k, dflt)
    def values(self): return self._d().values()
    def items(self): return self._d().items()

class Budget(Exception): pass
class Unmodelled(Exception): pass

class Exec:
    wrap_aware = False

    def __init__(self, db, monitor):
        self.db = db; self.mon = monitor; self.steps = 0; self.maxsteps = 400000; self.max_loop_states = 3000; self.t0 = None; self.maxwall = 60.0; self.widen = True
        self.depth = 0
        self.frames = []

    # ---------- helpers ----------
    def tick(self):
        self.steps += 1
        if self.steps > self.maxsteps: raise Budget()
        if (self.steps & 1023) == 0:
            import time
            if self.t0 is None: self.t0 = time.time()
            elif time.time() - self.t0 > self.maxwall: raise Budget()
            from . import core as _core
            if _core.UNIT_DEADLINE and time.time() > _core.UNIT_DEADLINE: raise Budget()      # the whole unit is out of time: the rest is listed as not analysed

    def truth(self, v, st):
        """yield (bool, state) for a value used as condition"""
        if isinstance(v, bool): yield v, st; return
        if isinstance(v, int): yield v != 0, st; return
        if isinstance(v, Sym):
            lo, hi = st.facts[v.id]
            if lo is not None and lo > 0: yield True, st; return
            if lo is not None and hi is not None and lo == 0 and hi == 0: yield False, st; return
            s2 = st.copy()
            s2.facts[v.id] = [max(1, lo) if lo is not None else 1, hi]
            yield True, s2
            s3 = st.copy(); s3.facts[v.id] = [0, 0]
            yield False, s3; return
        if isinstance(v, Null): yield False, st; return
        if isinstance(v, (Obj, Cur, Closure)): yield True, st; return
        s2 = st.copy(); yield True, st; yield False, s2

    def load(self, st, loc):
        """loc: ('var', frame, declid) | ('field', addr, name) | ('val', v)"""
        k = loc[0]
        if k == 'val': return loc[1]
        if k == 'var': return st.env.get(loc[1].fid, {}).get(loc[2], Unknown('uninit'))
        if k == 'field':
            o = st.heap.get(loc[1])
            if isinstance(o, dict): return o.get(loc[2], Unknown('field'))
            return Unknown('field')
        if k == 'cell': return st.heap[loc[1]][1]
        raise Exception(k)

    def store(self, st, loc, v):
        k = loc[0]
        if k == 'var': st.env.setdefault(loc[1].fid, {})[loc[2]] = v
        elif k == 'field':
            o = st.heap.get(loc[1])
            if isinstance(o, dict): o[loc[2]] = v
        elif k == 'cell': st.heap[loc[1]][1] = v
        # 'val' : assignment to a temporary / unknown lvalue is dropped

    # ---------- expression wrappers: thrown values are diverted and re-emitted last
    def ev(self, e, st, fr):
        T = []
        for v, s in self._ev(e, st, fr, T): yield v, s
        for t in T: yield t
    def lval(self, e, st, fr):
        T = []
        for l, s in self._lval(e, st, fr, T): yield l, s
        for v, s in T: yield ('val', v), s
    def nv(self, e, st, fr, T):
        for v, s in self.ev(e, st, fr):
            if isinstance(v, Thrown): T.append((v, s))
            else: yield v, s
    def nl(self, e, st, fr, T):
        for l, s in self.lval(e, st, fr):
            if l[0] == 'val' and isinstance(l[1], Thrown): T.append((l[1], s))
            else: yield l, s
    def ninl(self, gen, T):
        for v, s in gen:
            if isinstance(v, Thrown): T.append((v, s))
            else: yield v, s

    # ---------- expressions: generators of (value, state) ; lvalues: (loc, state)
    def _lval(self, e, st, fr, T):
        k = e['k']
        if k == 'ref':
            d = e['d']
            env = st.env.get(fr.fid, {})
            if d in env:
                v = env[d]
                if isinstance(v, tuple) and v and v[0] == 'refto':   # reference variable bound to a location
                    yield v[1], st; return
                yield ('var', fr, d), st; return
            # captured variable in lambda frame
            f2 = getattr(fr, 'parent', None)
            while f2 is not None:
                env2 = st.env.get(f2.fid, {})
                if d in env2:
                    v = env2[d]
                    if isinstance(v, tuple) and v and v[0] == 'refto': yield v[1], st; return
                    yield ('var', f2, d), st; return
                f2 = getattr(f2, 'parent', None)
            yield ('val', self.const_or_unknown(e)), st; return
        if k == 'member':
            for b, s in self.nv(e['b'], st, fr, T):
                if e.get('arrow') and isinstance(b, Obj) and isinstance(s.heap.get(b.addr), list):
                    b = s.heap[b.addr][1]
                if isinstance(b, Obj):
                    cur = s.heap.get(b.addr)
                    fv = cur.get(e['n']) if isinstance(cur, dict) else None
                    if isinstance(fv, tuple) and fv and fv[0] == 'refto': yield fv[1], s          # reference member
                    else: yield ('field', b.addr, e['n']), s
                elif isinstance(b, Cur): yield ('val', CurField(b.pos, e['n'])), s
                else: yield ('val', Unknown('member')), s
            return
        if k == 'un' and e['op'] == '*':
            for v, s in self.nv(e['e'], st, fr, T):
                if isinstance(v, Obj): yield ('objref', v), s
                else: yield ('val', Unknown('deref')), s
            return
        if k == 'cast':
            yield from self.nl(e['e'], st, fr, T); return
        if k == 'this':
            yield ('val', fr.this), st; return
        for v, s in self.nv(e, st, fr, T):
            yield ('val', v), s

    def const_or_unknown(self, e):
        if 'v' in e:
            t = e.get('t', '')
            v = e['v']
            if isinstance(v, str): return Unknown('bigint')
            if t == 'bool': return bool(v)
            return v
        return Unknown(e.get('k'))

    def _ev(self, e, st, fr, T):
        self.tick()
        if e is None: yield Unknown('none'), st; return
        k = e['k']
        if 'v' in e and k in ('lit', 'ref', 'cast', 'un', 'bin', 'call', 'member', 'cond') and not self.has_effect(e):
            yield self.const_or_unknown(e), st; return
        if k == 'lit' or k == 'str' or k == 'zero':
            yield self.const_or_unknown(e) if 'v' in e else (0 if k == 'zero' else Unknown(k)), st; return
        if k == 'nullptr': yield NULL, st; return
        if k == 'this': yield fr.this, st; return
        if k in ('ref', 'member'):
            for loc, s in self.nl(e, st, fr, T):
                if loc[0] == 'objref': yield loc[1], s
                else:
                    v = self.load(s, loc)
                    yield v, s
            return
        if k == 'cast':
            for v, s in self.nv(e['e'], st, fr, T):
                if e.get('t') == 'bool' and not isinstance(v, bool):
                    yield from self.truth(v, s)
                else:
                    self.mon.on_cast(self, s, e, v)
                    yield v, s
            return
        if k == 'un': yield from self.ev_un(e, st, fr, T); return
        if k == 'bin': yield from self.ev_bin(e, st, fr, T); return
        if k == 'cond':
            for c, s in self.nv(e['c'], st, fr, T):
                for b, s2 in self.truth(c, s):
                    yield from self.nv(e['l'] if b else e['r'], s2, fr, T)
            return
        if k == 'call': yield from self.ev_call(e, st, fr, T); return
        if k == 'construct': yield from self.ev_construct(e, st, fr, T); return
        if k == 'initlist':
            # aggregate: evaluate elements
            def rec(i, acc, s):
                if i == len(e['args']): yield tuple(acc), s; return
                for v, s2 in self.nv(e['args'][i], s, fr, T):
                    yield from rec(i + 1, acc + [v], s2)
            for vals, s in rec(0, [], st):
                yield self.aggregate(e, vals, s), s
            return
        if k == 'stdinitlist':
            for v, s in self.nv(e['e'], st, fr, T): yield ('ilist', v), s
            return
        if k == 'lambda': yield Closure(e['cu'], fr, e.get('fn')), st; return
        if k == 'index':
            for b, s in self.nv(e['b'], st, fr, T):
                for i, s2 in self.nv(e['i'], s, fr, T):
                    self.mon.on_read(self, s2, fr, e, b, i)
                    yield Unknown('elem'), s2
            return
        if k == 'throw':
            # the operand (an exception object under construction) is not evaluated: it cannot touch the cursor
            yield Thrown(e.get('tt', 'rethrow')), st
            return
        yield Unknown(k), st

    def has_effect(self, e):
        return False

    def aggregate(self, e, vals, st):
        t = e.get('t', '')
        if 'data_and_size' in t:
            a = st.alloc({'data': vals[0] if vals else Unknown(), 'size': vals[1] if len(vals) > 1 else Unknown()})
            return Obj(a)
        if t.endswith('inputerator'):
            return Cur('?')
        return ('agg',) + tuple(vals)

    def ev_un(self, e, st, fr, T):
        op = e['op']
        if op in ('++', '--'):
            for loc, s in self.nl(e['e'], st, fr, T):
                old = self.load(s, loc)
                d = 1 if op == '++' else -1
                new = self.mon.arith(self, '+', old, d, s, e)
                if new is NotImplemented: new = self.arith('+', old, d, s)
                self.mon.on_write(self, s, fr, loc, new)
                self.store(s, loc, new)
                yield (old if e.get('post') else new), s
            return
        if op == '&':
            for loc, s in self.nl(e['e'], st, fr, T):
                if loc[0] == 'objref': yield loc[1], s
                elif loc[0] == 'val' and isinstance(loc[1], Obj): yield loc[1], s
                elif loc[0] in ('var', 'field'):
                    v = self.load(s, loc)
                    yield (v if isinstance(v, Obj) else ('addr', loc)), s
                else: yield Unknown('addr'), s
            return
        if op == '*':
            for v, s in self.nv(e['e'], st, fr, T):
                if isinstance(v, tuple) and v and v[0] == 'addr': yield self.load(s, v[1]), s
                elif isinstance(v, Obj): yield v, s
                else:
                    self.mon.on_read(self, s, fr, e, v, 0)
                    yield Unknown('deref'), s
            return
        for v, s in self.nv(e['e'], st, fr, T):
            if op == '!':
                for b, s2 in self.truth(v, s): yield (not b), s2
            elif op == '-' and isinstance(v, int) and not isinstance(v, bool): yield -v, s
            elif op == '~' and isinstance(v, int): yield Unknown('~'), s
            elif op == '+': yield v, s
            else: yield Unknown(op), s

    def arith(self, op, a, b, st):
        ia = isinstance(a, int) and not isinstance(a, bool)
        ib = isinstance(b, int) and not isinstance(b, bool)
        if isinstance(a, bool): a = int(a); ia = True
        if isinstance(b, bool): b = int(b); ib = True
        if ia and ib:
            try:
                if op == '+': return a + b
                if op == '-': return a - b
                if op == '*': return a * b
                if op == '/': return a // b if b else Unknown('div0')
                if op == '%': return a % b if b else Unknown('div0')
                if op == '<<': return a << b if 0 <= b < 64 else Unknown()
                if op == '>>': return a >> b if 0 <= b < 64 else Unknown()
                if op == '&': return a & b
                if op == '|': return a | b
                if op == '^': return a ^ b
            except Exception: return Unknown('arith')
        if isinstance(a, Cur) and op in ('+', '-') and (ib or isinstance(b, Sym)):
            return Cur(('off', a.pos))
        if isinstance(a, CPtr) and op in ('+', '-') and (ib or isinstance(b, Sym)):
            if op == '-' and isinstance(b, Sym): return Unknown('ptr-sym')
            return CPtr(self.arith('+', a.off, b if op == '+' else -b, st), a.epoch)
        if isinstance(a, EndP) and isinstance(b, CPtr) and op == '-':
            return self.mon.avail_minus(self, st, b)
        if isinstance(a, Sym) and ib and op in ('+', '-'):
            lo, hi = st.facts.get(a.id, [None, None])
            d = b if op == '+' else -b
            if d == 0: return a
            if d > 0 and hi is None and self.wrap_aware and lo is not None and lo >= 0:
                # an unsigned value with no upper bound whatsoever (a number read from the input, an unconstrained parameter): value + d may wrap around,
                # so nothing relates the sum to the value.  Counters that are bounded by the available size or by another quantity keep their relation.
                cl = st.closure()
                if not any(x == a.id and c is not None for (x, y), c in cl.items() if y != a.id):
                    return st.sym(0, None)
            n = st.sym(None if lo is None else lo + d, None if hi is None else hi + d)
            st.zadd(n.id, a.id, d); st.zadd(a.id, n.id, -d)
            return n
        if ia and isinstance(b, Sym) and op == '+':
            return self.arith('+', b, a, st)
        if isinstance(a, Sym) and isinstance(b, Sym) and op in ('+', '-'):
            # memoised: the same operands always give the same symbol, so provenance can be compared by identity
            key = (op, a.id, b.id) if op == '-' else ('+',) + tuple(sorted((a.id, b.id)))
            if key in st.memo: return Sym(st.memo[key])
            lo = hi = None
            d = st.closure()
            if op == '-':
                v = d.get((b.id, a.id)); lo = -v if v is not None else None        # b - a <= v  =>  a - b >= -v
                v = d.get((a.id, b.id)); hi = v if v is not None else None
            n = st.sym(lo, hi); st.memo[key] = n.id
            if n.id not in st.facts: st.facts[n.id] = [lo, hi]
            else: st.facts[n.id] = [lo, hi]
            return n
        return Unknown('arith')

    def compare(self, op, a, b, st):
        """yield (bool, state)"""
        if isinstance(a, bool): a = int(a)
        if isinstance(b, bool): b = int(b)
        if isinstance(a, int) and isinstance(b, int):
            yield {'<': a < b, '>': a > b, '<=': a <= b, '>=': a >= b, '==': a == b, '!=': a != b}[op], st; return
        if isinstance(a, Null) and isinstance(b, Null): yield op in ('==', '<=', '>='), st; return
        if isinstance(a, (Obj,)) and isinstance(b, Null): yield op == '!=', st; return
        if isinstance(a, Null) and isinstance(b, Obj): yield op == '!=', st; return
        if isinstance(a, CPtr) and isinstance(b, EndP) and op in ('==', '!='):
            yield from self.mon.cmp_end(self, st, a, op); return
        if isinstance(a, Sym) and isinstance(b, Sym):
            # a op b  with zone constraints
            def cons(op):
                if op == '<': return [(a.id, b.id, -1)]
                if op == '<=': return [(a.id, b.id, 0)]
                if op == '>': return [(b.id, a.id, -1)]
                if op == '>=': return [(b.id, a.id, 0)]
                if op == '==': return [(a.id, b.id, 0), (b.id, a.id, 0)]
                return []
            neg = {'<': '>=', '>': '<=', '<=': '>', '>=': '<', '==': '!=', '!=': '=='}
            outs = []
            for res, o in ((True, op), (False, neg[op])):
                ex = cons(o)
                if st.feasible(ex): outs.append((res, ex))
            for i, (res, ex) in enumerate(outs):
                s2 = st if i == len(outs) - 1 else st.copy()
                for (x, y, c) in ex: s2.zadd(x, y, c)
                yield res, s2
            return
        # symbolic vs constant: use/refine interval
        flip = {'<': '>', '>': '<', '<=': '>=', '>=': '<=', '==': '==', '!=': '!='}
        if isinstance(b, Sym) and isinstance(a, int): a, b, op = b, a, flip[op]
        if isinstance(a, Sym) and isinstance(b, int):
            lo, hi = st.facts.get(a.id, [None, None])
            d = st.closure()
            zhi = d.get((a.id, 0)); zlo = d.get((0, a.id))
            if zhi is not None and (hi is None or zhi < hi): hi = zhi
            if zlo is not None and (lo is None or -zlo > lo): lo = -zlo
            def sat(lo, hi):   # feasible interval?
                return not (lo is not None and hi is not None and lo > hi)
            def refine(lo, hi, op, c):
                if op == '<': return lo, (c - 1 if hi is None else min(hi, c - 1))
                if op == '<=': return lo, (c if hi is None else min(hi, c))
                if op == '>': return (c + 1 if lo is None else max(lo, c + 1)), hi
                if op == '>=': return (c if lo is None else max(lo, c)), hi
                if op == '==': return (c if lo is None else max(lo, c)), (c if hi is None else min(hi, c))
                if op == '!=':
                    if lo is not None and lo == c: lo = c + 1
                    if hi is not None and hi == c: hi = c - 1
                return lo, hi
            neg = {'<': '>=', '>': '<=', '<=': '>', '>=': '<', '==': '!=', '!=': '=='}
            t = refine(lo, hi, op, b); f = refine(lo, hi, neg[op], b)
            outs = []
            if sat(*t) : outs.append((True, t))
            if sat(*f): outs.append((False, f))
            if op == '!=' and lo is not None and hi is not None and lo == hi == b: outs = [(False, (lo, hi))]
            if op == '==' and lo is not None and hi is not None and lo == hi == b: outs = [(True, (lo, hi))]
            first = True
            for res, (l2, h2) in outs:
                s2 = st if (first and len(outs) == 1) else st.copy()
                first = False
                s2.facts[a.id] = [l2, h2]
                yield res, s2
            return
        s2 = st.copy()
        yield True, st
        yield False, s2

    def ev_bin(self, e, st, fr, T):
        op = e['op']
        if op == '&&':
            for l, s in self.nv(e['l'], st, fr, T):
                for b, s2 in self.truth(l, s):
                    if not b: yield False, s2
                    else:
                        for r, s3 in self.nv(e['r'], s2, fr, T):
                            yield from self.truth(r, s3)
            return
        if op == '||':
            for l, s in self.nv(e['l'], st, fr, T):
                for b, s2 in self.truth(l, s):
                    if b: yield True, s2
                    else:
                        for r, s3 in self.nv(e['r'], s2, fr, T):
                            yield from self.truth(r, s3)
            return
        if op == ',':
            for _, s in self.nv(e['l'], st, fr, T):
                yield from self.nv(e['r'], s, fr, T)
            return
        if op == '=':
            for r, s in self.nv(e['r'], st, fr, T):
                for loc, s2 in self.nl(e['l'], s, fr, T):
                    self.mon.on_write(self, s2, fr, loc, r)
                    self.store(s2, loc, r)
                    yield r, s2
            return
        if op.endswith('=') and op not in ('==', '!=', '<=', '>='):
            base = op[:-1]
            for r, s in self.nv(e['r'], st, fr, T):
                for loc, s2 in self.nl(e['l'], s, fr, T):
                    old = self.load(s2, loc)
                    if isinstance(old, Cur) and base == '+':
                        new = self.mon.advance_value(self, s2, old, r)
                    else:
                        new = self.mon.arith(self, base, old, r, s2, e)
                        if new is NotImplemented: new = self.arith(base, old, r, s2)
                    self.mon.on_write(self, s2, fr, loc, new)
                    self.store(s2, loc, new)
                    yield new, s2
            return
        for l, s in self.nv(e['l'], st, fr, T):
            for r, s2 in self.nv(e['r'], s, fr, T):
                if op in ('<', '>', '<=', '>=', '==', '!='):
                    self.mon.on_compare(self, s2, e, op, l, r)
                    yield from self.compare(op, l, r, s2)
                else:
                    v = self.mon.arith(self, op, l, r, s2, e)
                    yield (self.arith(op, l, r, s2) if v is NotImplemented else v), s2

    # ---------- calls ----------
    def eval_args(self, args, st, fr, byref, T):
        def rec(i, acc, s):
            if i == len(args): yield acc, s; return
            if byref[i] if i < len(byref) else False:
                for loc, s2 in self.nl(args[i], s, fr, T):
                    yield from rec(i + 1, acc + [('loc', loc)], s2)
            else:
                for v, s2 in self.nv(args[i], s, fr, T):
                    yield from rec(i + 1, acc + [('val', v)], s2)
        yield from rec(0, [], st)

    def ev_call(self, e, st, fr, T):
        cu = e.get('cu'); cq = e.get('cq', ''); cn = e.get('cn', '')
        args = e.get('args', [])
        cpt = e.get('cpt', [])
        objexpr = e.get('obj')
        if e.get('objfirst') and args:
            objexpr, args = args[0], args[1:]
        byref = [t.endswith('&') for t in cpt]
        if len(byref) < len(args): byref += [False] * (len(args) - len(byref))
        # object
        def with_obj(s):
            if objexpr is None: yield None, s; return
            for loc, s2 in self.nl(objexpr, s, fr, T):
                if loc[0] == 'objref': yield loc[1], s2
                else:
                    v = self.load(s2, loc)
                    if isinstance(v, tuple) and v and v[0] == 'addr': v = self.load(s2, v[1])
                    yield (v if not isinstance(v, Unknown) else v, loc), s2
        for ob, s in with_obj(st):
            objloc = None
            if isinstance(ob, tuple): ob, objloc = ob
            for av, s2 in self.eval_args(args, s, fr, byref, T):
                yield from self.dispatch(e, cu, cq, cn, ob, objloc, av, s2, fr)

    def argval(self, a, st):
        if a[0] == 'val': return a[1]
        loc = a[1]
        if loc[0] == 'objref': return loc[1]
        return self.load(st, loc)

    def dispatch(self, e, cu, cq, cn, ob, objloc, av, st, fr):
        # 1. monitor-defined boundaries and primitives
        r = self.mon.call(self, e, cu, cq, cn, ob, objloc, av, st, fr)
        if r is not None:
            yield from r; return
        if isinstance(ob, Closure) and cn == 'operator()' and ob.fn is not None:
            yield from self.inline(ob.fn, ob, av, st, fr, e); return
        fn = self.db.get(cu)
        if fn is not None and fn.get('body') is not None:
            yield from self.inline(fn, ob, av, st, fr, e); return
        # defaulted copy/move assignment
        if cn == 'operator=' and objloc is not None and av:
            v = self.argval(av[0], st)
            self.mon.on_write(self, st, fr, objloc, v)
            self.store(st, objloc, v); yield v, st; return
        yield from self.external(e, cq, cn, ob, av, st, fr)

    def external(self, e, cq, cn, ob, av, st, fr):
        vals = [self.argval(a, st) for a in av]
        if cq in ('std::move', 'std::forward') and vals: yield vals[0], st; return
        if cq == 'std::tie': yield ('tuple',) + tuple(vals), st; return
        if cq == 'std::get' and vals and isinstance(vals[0], tuple) and vals[0] and vals[0][0] == 'tuple':
            idx = [ta.get('v') for ta in e.get('cta', []) if ta.get('k') == 'int']
            if idx and isinstance(idx[0], int) and 0 <= idx[0] < len(vals[0]) - 1:
                yield vals[0][1 + idx[0]], st; return
        if cq in ('std::min', 'std::max') and len(vals) == 2:
            a, b = vals
            if isinstance(a, int) and isinstance(b, int): yield (min(a, b) if cq == 'std::min' else max(a, b)), st; return
            yield Unknown(cq), st; return
        if cq.startswith('std::initializer_list<') and cq.endswith('::size') and isinstance(ob, tuple) and ob and ob[0] == 'ilist':
            agg = ob[1]
            yield (len(agg) - 1 if isinstance(agg, tuple) else Unknown('ilist')), st; return
        self.mon.on_external(self, e, cq, ob, vals, st, fr)
        if e.get('noret'):
            yield Thrown('noreturn:' + cq), st; return
        t = e.get('t', '')
        if t == 'bool':
            s2 = st.copy(); yield True, st; yield False, s2; return
        if t in ('unsigned long', 'unsigned int', 'unsigned char', 'unsigned short'):
            yield st.sym(0, None), st; return
        yield Unknown('ext:' + cq), st

    def inline(self, fn, ob, av, st, caller, e):
        self.depth += 1
        if self.depth > 400:
            self.depth -= 1
            raise Unmodelled('inline depth at ' + fn['q'])
        try:
            f = Frame(fn, this=ob)
            self.frames.append(f)
            env = st.env.setdefault(f.fid, {})
            if ob is not None: env['__this'] = ob
            params = fn['params']
            for p, a in zip(params, av):
                if p['t'].endswith('&'):
                    if a[0] == 'loc':
                        loc = a[1]
                        if loc[0] == 'objref': env[p['id']] = loc[1]
                        elif loc[0] == 'val': env[p['id']] = loc[1]
                        else:
                            v = self.load(st, loc)
                            if isinstance(v, Obj): env[p['id']] = v
                            else: env[p['id']] = ('refto', loc)
                    else: env[p['id']] = a[1]
                else:
                    env[p['id']] = self.argval(a, st)
            if fn['n'] == 'operator()' and isinstance(ob, Closure):
                f.parent = ob.frame
            for comp in self.run_fn(fn, f, st):
                comp[-1].env.pop(f.fid, None)       # the activation is over on this path
                if comp[0] == 'return': yield comp[1], comp[2]
                elif comp[0] == 'throw': yield Thrown(comp[1]), comp[2]
                else: yield None, comp[-1]
        finally:
            self.depth -= 1
            if self.frames and self.frames[-1] is f: self.frames.pop()

    def gc(self, st):
        roots = []
        for fid, env in st.env.items(): roots.extend(env.values())
        for f in self.frames:
            if f.this is not None: roots.append(f.this)
        for o in st.live: roots.append(o[2])
        seen = set(); syms = set(); stack = list(roots)
        while stack:
            v = stack.pop()
            if isinstance(v, Obj):
                if v.addr in seen: continue
                seen.add(v.addr)
                o = st.heap.get(v.addr)
                if isinstance(o, dict): stack.extend(o.values())
                elif o is not None: stack.append(o[1])
            elif isinstance(v, Sym): syms.add(v.id)
            elif isinstance(v, tuple):
                if v and v[0] in ('cell', 'field') and len(v) > 1 and isinstance(v[1], int): stack.append(Obj(v[1]))
                stack.extend(v)
            elif isinstance(v, Closure): stack.extend(st.env.get(v.frame.fid, {}).values())
        for a in list(st.heap):
            if a not in seen: del st.heap[a]
        if st.av is not None: syms.add(st.av)
        if st.memo: st.memo = {k2: v2 for k2, v2 in st.memo.items() if v2 in syms and k2[1] in syms and k2[2] in syms}
        st.req = [q for q in st.req if q[0] in syms]      # a request is remembered only while its result is still referenced
        # keep relations only between live syms (after closing, so transitive facts survive)
        if st.zone:
            d = st.closure()
            z = {}
            for (x, y), c in d.items():
                if x == y or not ((x == 0 or x in syms) and (y == 0 or y in syms)): continue
                if x == 0 and c < -WIDEN: c = -WIDEN          # widening of lower bounds
                if y == 0 and c > 64: continue                # widening of upper bounds
                if x and y and abs(c) > 64: continue
                z[(x, y)] = c
            st.zone = z
        for i in list(st.facts):
            if i not in syms: del st.facts[i]

    def ev_construct(self, e, st, fr, T):
        cu = e.get('cu'); t = e.get('t', '')
        args = e.get('args', [])
        cpt = e.get('cpt', [])
        byref = [x.endswith('&') for x in cpt] + [False] * len(args)
        if e.get('copy') and len(args) == 1:
            for v, s in self.nv(args[0], st, fr, T):
                if isinstance(v, Obj) and isinstance(s.heap.get(v.addr), dict) and not e.get('elidable'):
                    fn = self.db.get(cu)
                    if fn is None or fn.get('body') is None:
                        a = s.alloc(dict(s.heap[v.addr])); yield Obj(a), s; continue
                yield v, s
            return
        r = self.mon.construct(self, e, st, fr)
        if r is not None:
            yield from r; return
        fn = self.db.get(cu)
        if fn is None or fn.get('body') is None:
            for av, s in self.eval_args(args, st, fr, byref, T):
                vals = [self.argval(a, s) for a in av]
                if t.endswith('inputerator') or 'inputerator' in t and 'rewind' not in t:
                    yield (vals[0] if vals and isinstance(vals[0], Cur) else Cur('?')), s
                else:
                    a = s.alloc({'__type': t}); yield Obj(a), s
            return
        for av, s in self.eval_args(args, st, fr, byref, T):
            a = s.alloc({'__type': t})
            ob = Obj(a)
            for v, s2 in self.inline(fn, ob, av, s, fr, e):
                if isinstance(v, Thrown): yield v, s2
                else: yield ob, s2

    # ---------- statements ----------
    def run_fn(self, fn, f, st):
        """yield completions ('return', v, st) | ('throw', t, st) | ('normal', st)"""
        def after_inits(s):
            yield from self.exec_scoped(fn['body'], s, f)
        if fn.get('ctor'):
            def inits(i, s):
                if i == len(fn['inits']): yield from after_inits(s); return
                ini = fn['inits'][i]
                if 'field' in ini and self.field_is_ref(fn, ini['field']) and ini.get('e') is not None:
                    # reference member: bind the location, not the value
                    for loc, s2 in self.lval(ini['e'], s, f):
                        if loc[0] == 'val' and isinstance(loc[1], Thrown): yield ('throw', loc[1].what, s2); continue
                        if isinstance(f.this, Obj):
                            if loc[0] == 'objref': s2.heap[f.this.addr][ini['field']] = loc[1]
                            elif loc[0] == 'val': s2.heap[f.this.addr][ini['field']] = loc[1]
                            else:
                                v0 = self.load(s2, loc)
                                s2.heap[f.this.addr][ini['field']] = v0 if isinstance(v0, Obj) else ('refto', loc)
                        yield from inits(i + 1, s2)
                elif 'field' in ini:
                    for v, s2 in self.ev_init(ini['e'], s, f):
                        if isinstance(v, Thrown): yield ('throw', v.what, s2); continue
                        if isinstance(f.this, Obj):
                            self.mon.on_write(self, s2, f, ('field', f.this.addr, ini['field']), v)
                            s2.heap[f.this.addr][ini['field']] = v
                        yield from inits(i + 1, s2)
                elif ini.get('delegating') or 'base' in ini:
                    ee = ini['e']
                    if ee and ee.get('k') == 'construct':
                        tfn = self.db.get(ee.get('cu'))
                        if tfn is not None and tfn.get('body') is not None:
                            cpt = ee.get('cpt', []); byref = [x.endswith('&') for x in cpt] + [False] * len(ee['args'])
                            T = []
                            for av, s2 in self.eval_args(ee['args'], s, f, byref, T):
                                for v, s3 in self.inline(tfn, f.this, av, s2, f, ee):
                                    if isinstance(v, Thrown): yield ('throw', v.what, s3)
                                    else: yield from inits(i + 1, s3)
                            for v, s2 in T: yield ('throw', v.what, s2)
                            return
                    yield from inits(i + 1, s)
                else: yield from inits(i + 1, s)
            yield from inits(0, st)
        else:
            yield from after_inits(st)

    def field_is_ref(self, fn, field):
        cls = (fn.get('cls') or {}).get('s')
        r = self.db.records.get(cls) if hasattr(self.db, 'records') else None
        if not r: return False
        for fd in r.get('fields', []):
            if fd['n'] == field: return fd['t'].endswith('&')
        return False

    def ev_init(self, e, st, fr):
        if e is None: yield Unknown('noinit'), st; return
        yield from self.ev(e, st, fr)

    def exec_scoped(self, stmt, st, fr):
        fr.scopes.append([])
        depth = len(fr.scopes)
        try:
            for comp in self.exec(stmt, st, fr):
                yield from self.leave_scope(comp, fr, depth)
        finally:
            while len(fr.scopes) >= depth: fr.scopes.pop()

    def leave_scope(self, comp, fr, depth):
        # run destructors of objects registered in scope `depth` (per path: registered list is stored in state)
        s = comp[-1]
        objs = [o for o in s.live if o[0] == id(fr) and o[1] >= depth]
        if not objs:
            yield comp; return
        s.live = [o for o in s.live if not (o[0] == id(fr) and o[1] >= depth)]
        def run(i, c):
            if i < 0: yield c; return
            _, _, ob, dtor = objs[i]
            fn = self.db.get(dtor)
            s = c[-1]
            if fn is None or fn.get('body') is None: yield from run(i - 1, c); return
            for v, s2 in self.inline(fn, ob, [], s, fr, None):
                if isinstance(v, Thrown):
                    yield from run(i - 1, ('throw', v.what, s2))
                else:
                    yield from run(i - 1, c[:-1] + (s2,))
        yield from run(len(objs) - 1, comp)

    def register_live(self, st, fr, ob, dtor):
        st.live = st.live + [(id(fr), len(fr.scopes), ob, dtor)]

    def exec(self, s, st, fr):
        self.tick()
        if s is None: yield ('normal', st); return
        k = s['k']
        if k == 'Compound':
            def seq(i, s0):
                if i == len(s['s']): yield ('normal', s0); return
                for c in self.exec(s['s'][i], s0, fr):
                    if c[0] == 'normal': yield from seq(i + 1, c[1])
                    else: yield c
            fr.scopes.append([]); depth = len(fr.scopes)
            try:
                for c in seq(0, st): yield from self.leave_scope(c, fr, depth)
            finally:
                while len(fr.scopes) >= depth: fr.scopes.pop()
            return
        if k == 'Expr':
            for v, s2 in self.ev(s['e'], st, fr):
                if isinstance(v, Thrown): yield ('throw', v.what, s2)
                else: yield ('normal', s2)
            return
        if k == 'Decl':
            def dseq(i, s0):
                if i == len(s['decls']): yield ('normal', s0); return
                d = s['decls'][i]
                for c in self.exec_decl(d, s0, fr):
                    if c[0] == 'normal': yield from dseq(i + 1, c[1])
                    else: yield c
            yield from dseq(0, st); return
        if k == 'Return':
            if s.get('e') is None: yield ('return', None, st); return
            for v, s2 in self.ev(s['e'], st, fr):
                if isinstance(v, Thrown): yield ('throw', v.what, s2)
                else: yield ('return', v, s2)
            return
        if k == 'If':
            fr.scopes.append([]); depth = len(fr.scopes)
            try:
                def body(s0):
                    for c, s1 in self.ev(s['cond'], s0, fr):
                        if isinstance(c, Thrown): yield ('throw', c.what, s1); continue
                        for b, s2 in self.truth(c, s1):
                            s2.trace.append((s['loc'], 'if', b))
                            if b: yield from self.exec(s['then'], s2, fr)
                            elif s.get('else'): yield from self.exec(s['else'], s2, fr)
                            else: yield ('normal', s2)
                def pre(s0):
                    if s.get('init'):
                        for c in self.exec(s['init'], s0, fr):
                            if c[0] == 'normal': yield from pre2(c[1])
                            else: yield c
                    else: yield from pre2(s0)
                def pre2(s0):
                    if s.get('var'):
                        for c in self.exec_decl(s['var'], s0, fr):
                            if c[0] == 'normal': yield from body(c[1])
                            else: yield c
                    else: yield from body(s0)
                for c in pre(st): yield from self.leave_scope(c, fr, depth)
            finally:
                while len(fr.scopes) >= depth: fr.scopes.pop()
            return
        if k in ('While', 'For', 'Do'):
            yield from self.exec_loop(s, st, fr); return
        if k == 'Break': yield ('break', st); return
        if k == 'Continue': yield ('continue', st); return
        if k == 'Null': yield ('normal', st); return
        if k == 'Switch':
            yield from self.exec_switch(s, st, fr); return
        if k in ('Case', 'Default'):
            yield from self.exec(s['sub'], st, fr); return
        if k == 'Try':
            for c in self.exec(s['body'], st, fr):
                if c[0] != 'throw': yield c; continue
                handled = False
                for h in s['handlers']:
                    m = self.mon.catches(h['type'], c[1])
                    if m is None:   # may or may not
                        s2 = c[2].copy()
                        self.mon.on_catch(self, s2, fr, h)
                        yield from self.exec(h['body'], s2, fr)
                    elif m:
                        handled = True
                        self.mon.on_catch(self, c[2], fr, h)
                        for c2 in self.exec(h['body'], c[2], fr):
                            if c2[0] == 'throw' and c2[1] == 'rethrow': yield ('throw', c[1], c2[2])
                            else: yield c2
                        break
                if not handled: yield c
            return
        if k == 'ForRange':
            # zero or more iterations with unknown element
            yield from self.exec_loop({'k': 'While', 'cond': {'k': 'unknowncond'}, 'body': s['body'], 'loc': s['loc'], 'rangevar': s['var']}, st, fr); return
        raise Unmodelled('statement ' + k)

    def exec_decl(self, d, st, fr):
        init = d.get('init')
        if init is None:
            st.env.setdefault(fr.fid, {})[d['id']] = Unknown('uninit') if 'rq' not in d else Unknown('obj')
            yield ('normal', st); return
        if d.get('isref'):
            for loc, s in self.lval(init, st, fr):
                env = s.env.setdefault(fr.fid, {})
                if loc[0] == 'objref': env[d['id']] = loc[1]
                elif loc[0] == 'val': env[d['id']] = loc[1]
                else:
                    v = self.load(s, loc)
                    env[d['id']] = v if isinstance(v, Obj) else ('refto', loc)
                yield ('normal', s)
            return
        for v, s in self.ev(init, st, fr):
            if isinstance(v, Thrown): yield ('throw', v.what, s); continue
            if isinstance(v, Obj) and init.get('k') not in ('construct', 'call', 'initlist') and isinstance(s.heap.get(v.addr), dict) and 'rq' in d:
                v = Obj(s.alloc(dict(s.heap[v.addr])))   # copy-initialisation from an lvalue
            s.env.setdefault(fr.fid, {})[d['id']] = v
            self.mon.on_decl(self, s, fr, d, v)
            if d.get('dtor_user') and isinstance(v, Obj):
                self.register_live(s, fr, v, d['dtor'])
            yield ('normal', s)

    def exec_loop(self, s, st, fr):
        k = s['k']
        seen = set()
        def sig(s0):
            env = s0.env.get(fr.fid, {})
            keys = sorted(env, key=str)
            vals = [env[k2] for k2 in keys]
            vals = [(v[1] if (isinstance(v, tuple) and v and v[0] == 'refto') else v) for v in vals]
            vals = [(('loc',) + tuple(x if not isinstance(x, Frame) else x.fid for x in v)) if (isinstance(v, tuple) and v and v[0] in ('var', 'field', 'cell', 'val', 'objref')) else v for v in vals]
            lv = tuple((o[1], o[3]) for o in s0.live)
            return (tuple(keys), s0.sig(vals + [o[2] for o in s0.live] + self.mon.roots(s0)), lv)
        work = []
        outs = []
        if k == 'For' and s.get('init'):
            starts = [c for c in self.exec(s['init'], st, fr)]
        else: starts = [('normal', st)]
        fr.scopes.append([]); depth = len(fr.scopes)
        try:
            for c in starts:
                if c[0] != 'normal': yield c; continue
                work.append((c[1], k != 'Do', frozenset()))
            bounded = False
            c0 = s.get('cond')
            if c0 and c0.get('k') == 'bin' and c0.get('op') in ('!=', '<', '<=') and 'v' in (c0.get('r') or {}): bounded = True
            while work:
                s0, check, anc = work.pop()
                self.gc(s0)
                env0 = s0.env.setdefault(fr.fid, {})
                if not bounded and self.widen:
                    for k2, v2 in list(env0.items()):
                        if isinstance(v2, int) and not isinstance(v2, bool) and v2 >= WIDEN:
                            # widen the counter to a symbol, keeping the difference relations that hold right now with the
                            # other symbols (a guess that the fixpoint iteration validates: a relation that is not inductive
                            # simply disappears from the next loop-head state)
                            d = s0.closure() if s0.zone or s0.facts else {}
                            nsym = s0.sym(WIDEN, None)
                            for (x, y), c in list(d.items()):
                                if x == 0 and y and y != nsym.id and -c >= v2:      # y >= -c >= v2  =>  nsym - y <= v2 + c <= 0
                                    s0.zadd(nsym.id, y, v2 + c)
                            env0[k2] = nsym
                sg = (sig(s0), check)
                if sg in anc:
                    # the same abstract state at the loop head again *on this very path*: an iteration without any change
                    self.mon.on_cycle(self, s0, s, fr)
                if sg in seen: continue
                seen.add(sg)
                anc = anc | {sg}
                if len(seen) > self.max_loop_states: raise Budget()
                def run_body(s1):
                    for c in list(self.exec(s['body'], s1, fr)):
                        if c[0] in ('normal', 'continue'):
                            if k == 'For' and s.get('inc'):
                                for v3, s3 in self.ev(s['inc'], c[1], fr):
                                    if isinstance(v3, Thrown): outs.append(('throw', v3.what, s3))
                                    else: work.append((s3, True, anc))
                            else:
                                work.append((c[1], True, anc))
                        elif c[0] == 'break':
                            outs.append(('normal', c[1]))
                        else:
                            outs.append(c)
                if check:
                    cond = s.get('cond')
                    if cond is None: conds = [(True, s0)]
                    elif cond.get('k') == 'unknowncond':
                        s9 = s0.copy(); conds = [(True, s0), (False, s9)]
                    else:
                        conds = []
                        for cv, s1 in self.ev(cond, s0, fr):
                            if isinstance(cv, Thrown):
                                outs.append(('throw', cv.what, s1)); continue
                            for b, s2 in self.truth(cv, s1): conds.append((b, s2))
                    for b, s2 in conds:
                        if b: run_body(s2)
                        else: outs.append(('normal', s2))
                else:
                    run_body(s0)
            for c in outs:
                yield from self.leave_scope(c, fr, depth)
        finally:
            while len(fr.scopes) >= depth: fr.scopes.pop()

    def exec_switch(self, s, st, fr):
        body = s['body']; stmts = body['s'] if body['k'] == 'Compound' else [body]
        def run_from(i, s0):
            def seq(j, s1):
                if j == len(stmts): yield ('normal', s1); return
                for c in self.exec(stmts[j], s1, fr):
                    if c[0] == 'normal': yield from seq(j + 1, c[1])
                    elif c[0] == 'break': yield ('normal', c[1])
                    else: yield c
            yield from seq(i, s0)
        def pre(s0):
            if s.get('var'):
                for c in self.exec_decl(s['var'], s0, fr):
                    if c[0] == 'normal': yield c[1]
            else: yield s0
        for s0 in pre(st):
            for v, s1 in self.ev(s['cond'], s0, fr):
                labels = [(i, x) for i, x in enumerate(stmts) if x['k'] in ('Case', 'Default')]
                if isinstance(v, int):
                    tgt = None
                    for i, x in labels:
                        if x['k'] == 'Case' and x['v'].get('v') == v: tgt = i; break
                    if tgt is None:
                        for i, x in labels:
                            if x['k'] == 'Default': tgt = i
                    if tgt is None: yield ('normal', s1)
                    else: yield from run_from(tgt, s1)
                else:
                    for i, x in labels:
                        yield from run_from(i, s1.copy())
                    if not any(x['k'] == 'Default' for _, x in labels):
                        yield ('normal', s1.copy())


