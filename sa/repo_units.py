"""Thorough tier: the repository's own translation units (tests and examples = what the build covers).

Each unit is extracted and analysed in its own worker process (a merged database of ~170 units would not fit
comfortably in memory); results are de-duplicated by instantiation shape across units."""
import concurrent.futures as cf
import glob, os
from . import core


def unit_list():
    srcs = sorted(glob.glob(os.path.join(core.REPO, 'src', 'test', 'pegtl', '*.cpp'))) + \
        sorted(glob.glob(os.path.join(core.REPO, 'src', 'example', 'pegtl', '*.cpp')))
    import re
    flt = os.environ.get('VERIF_UNITS')      # debugging aid: restrict the thorough tier to the units matching a regular expression
    if flt: srcs = [s for s in srcs if re.search(flt, s)]
    return [(s, []) for s in srcs]


def extract_all(R=None):
    """extract every unit; units that do not compile under clang are reported, not fatal (floor enforced)"""
    units = unit_list()
    paths, errors = core.extract(units, allow_errors=True)
    good = [p for p in paths if os.path.exists(p) and os.path.getsize(p) > 0]
    for p in good: core._REPO_UNITS[p] = True
    for (src, _), p in zip(units, paths): _SRC[p] = src
    if R is not None:
        R.cov['repo_units'] = len(units); R.cov['repo_units_extracted'] = len(good)
        if len(good) < 150 and not os.environ.get('VERIF_UNITS'):
            R.broke('only %d of %d repository units could be extracted (floor 150)' % (len(good), len(units)))
    return good


_SRC = {}


def _source_of(path):
    return _SRC.get(path, '')


def _work(args):
    func_mod, func_name, path, extra = args
    import importlib, time
    mod = importlib.import_module(func_mod)
    # units of the repository (tests, examples) get a time budget: what is not reached is listed as not analysed; universe units have none
    core.UNIT_DEADLINE = (time.time() + float(os.environ.get('VERIF_UNIT_SECONDS', '600'))) if '/src/' in _source_of(path) else None
    try:
        return path, getattr(mod, func_name)(path, *extra)
    finally:
        core.UNIT_DEADLINE = None


def map_units(func_mod, func_name, paths, extra=(), workers=16):
    """run  func(path, *extra)  for every extracted unit in a process pool; returns {path: result}"""
    out = {}
    with cf.ProcessPoolExecutor(max_workers=workers) as ex:
        for path, res in ex.map(_work, [(func_mod, func_name, p, tuple(extra)) for p in paths], chunksize=1):
            out[path] = res
    return out


_DB_CACHE = {}


def _work_item(args):
    func_mod, func_name, paths, item, extra = args
    import importlib
    key = tuple(paths)
    if key not in _DB_CACHE:
        _DB_CACHE.clear(); _DB_CACHE[key] = core.DB(list(paths))
    mod = importlib.import_module(func_mod)
    return item, getattr(mod, func_name)(_DB_CACHE[key], item, *extra)


def map_items(func_mod, func_name, paths, items, extra=(), workers=16):
    """run  func(db, item, *extra)  for every item in a process pool; every worker loads the database once"""
    out = {}
    with cf.ProcessPoolExecutor(max_workers=workers) as ex:
        for item, res in ex.map(_work_item, [(func_mod, func_name, tuple(paths), it, tuple(extra)) for it in items], chunksize=1):
            out[item] = res
    return out
