"""C17  Unescape helpers produce exact UTF-8 and reject invalid code points (DESIGN.md 5/C17, engine: sa/bits.py).

X-utf8     utf8_append_utf32 over all 2^32 arguments: the partition by outcome equals the reference (Unicode table 3-6): for every
           scalar value exactly the bytes of its well-formed encoding are appended and true is returned; for surrogates and
           values above 0x10FFFF nothing is appended and false is returned
X-hexchar  unhex_char< I > over all 256 characters: the documented value for the 22 hexadecimal digits, std::terminate otherwise
X-hexstr   unhex_string< I > for every length up to the width of I: the value is the base-16 number of its digits (modulo 2^bits)
X-json     one iteration of unescape_j::apply over all ( group, next group present?, next group ) : a high surrogate directly followed by a
           low surrogate is combined into 0x10000 + ( ( hi - 0xD800 ) << 10 ) + ( lo - 0xDC00 ) and both groups are consumed; every other group
           is encoded on its own, and exactly the lone surrogates are rejected; the second group is only read when it is present; stride 6
X-c        unescape_c: the i-th mapping for the i-th escaped character, std::terminate for anything else
X-u, X-x   unescape_u / unescape_x read the digits after the first character up to the end and append the code point / the byte"""
import collections
from .. import core, units, bits
from ..bits import *
from ..spec import units as ref

T = 'tao::pegtl::'; U = T + 'unescape::'
XDIGITS = {c: int(chr(c), 16) for c in b'0123456789abcdefABCDEF'}


def word_space(nbytes, prefix='u', extra=()):
    """a value of nbytes bytes, most significant first"""
    sp = Space()
    for name, size in extra: sp.var(name, size)
    for k in range(nbytes): sp.var('%s%d' % (prefix, k), 256)
    return sp


def word_val(sp, nbytes, prefix='u'):
    return Val({sp.byname['%s%d' % (prefix, k)].level: [x << (8 * (nbytes - 1 - k)) for x in range(256)] for k in range(nbytes)}, 0)


def slice_(sp, nbytes, lo, width, prefix='u'):
    """bits [lo, lo+width) of the word as a separable value (bit extraction is linear over the bytes)"""
    m = (1 << width) - 1
    return clean(Val({sp.byname['%s%d' % (prefix, k)].level: [((x << (8 * (nbytes - 1 - k))) >> lo) & m for x in range(256)] for k in range(nbytes)}, 0))


def utf8_reference(sp, v, nbytes, prefix='u'):
    """rows ( tuple set, [byte values] or None ) of the reference encoder for the word value v"""
    rows = []
    S = lambda iv: ref.in_set(sp, v, iv)
    sl = lambda lo, w: slice_(sp, nbytes, lo, w, prefix)
    plus = lambda c, x: binop('+', Val.const(c), x)
    rows.append((S(((0, 0x7F),)), [sl(0, 7)]))
    rows.append((S(((0x80, 0x7FF),)), [plus(0xC0, sl(6, 5)), plus(0x80, sl(0, 6))]))
    rows.append((S(((0x800, 0xD7FF), (0xE000, 0xFFFF))), [plus(0xE0, sl(12, 4)), plus(0x80, sl(6, 6)), plus(0x80, sl(0, 6))]))
    rows.append((S(((0x10000, 0x10FFFF),)), [plus(0xF0, sl(18, 3)), plus(0x80, sl(12, 6)), plus(0x80, sl(6, 6)), plus(0x80, sl(0, 6))]))
    rows.append((S(((0xD800, 0xDFFF), (0x110000, (1 << (8 * nbytes)) - 1))), None))
    return rows


def differs(sp, reg, a, b, modulo=None):
    """tuple set within reg where the values a and b differ (modulo 256 for bytes stored in chars)"""
    d = binop('-', a, b)
    if modulo:
        lo, hi = d.rng()
        ok = tuple((k * modulo, k * modulo) for k in range(lo // modulo, hi // modulo + 1))
        if d.is_const(): return None if d.off % modulo == 0 else reg
        return sp.DIFF(reg, sp.sumset(d.tabs, ishift(ok, -d.off)))
    if d.is_const(): return None if d.off == 0 else reg
    return sp.AND(reg, sp.sumset(d.tabs, ((-INF, -1 - d.off), (1 - d.off, INF))))


def at(v, w):
    return sum(t[w[l]] for l, t in v.tabs.items()) + v.off


def check_utf8_append(db, fn):
    sp = word_space(4)
    it = Interp(db, sp)
    st = St(sp.full())
    v = word_val(sp, 4)
    st.env[fn['params'][0]['id']] = Opaque('string'); st.env[fn['params'][1]['id']] = v
    probs = []
    outs = []
    for kind, rv, s in outcomes(it, fn, st):
        if kind != 'return' or not isinstance(rv, Val) or not rv.is_const(): raise Unmodelled('path ends with %s %r' % (kind, rv))
        by = [x for e in s.eff if e[0] == 'append' for x in e[1]]
        outs.append((bool(rv.off), by, s.cond))
    cp = lambda w: at(v, w)
    covered = None
    for cond, want in utf8_reference(sp, v, 4):
        covered = sp.OR(covered, cond)
        for ok, by, c in outs:
            reg = sp.AND(cond, c)
            if reg is None: continue
            w = sp.witness(reg)
            if want is None:
                if ok or by: probs.append('U+%X (and %d more values) is not a Unicode scalar value but %s' % (cp(w), sp.count(reg) - 1, 'true is returned' if ok else '%d byte(s) are appended before false is returned' % len(by)))
                continue
            if not ok:
                probs.append('U+%04X (and %d more scalar values) is rejected' % (cp(w), sp.count(reg) - 1)); continue
            if len(by) != len(want):
                probs.append('U+%04X (and %d more values) is encoded in %d byte(s), the well-formed encoding has %d' % (cp(w), sp.count(reg) - 1, len(by), len(want))); continue
            for i, (a, b) in enumerate(zip(by, want)):
                bad = differs(sp, reg, a, b, 256)
                if bad is not None:
                    w = sp.witness(bad)
                    probs.append('byte %d of U+%04X is %02X, the well-formed encoding has %02X (%d values differ)' % (i + 1, cp(w), at(a, w) & 0xFF, at(b, w) & 0xFF, sp.count(bad)))
    if sp.DIFF(sp.full(), covered) is not None: raise Unmodelled('reference rows do not cover all values')
    return probs, {'paths': len(outs), 'values': sp.count(sp.full())}


def check_unhex_char(db, fn):
    sp = Space(); sp.var('b0', 256)
    it = Interp(db, sp); st = St(sp.full())
    p = fn['params'][0]
    st.env[p['id']] = fit(Val({0: list(range(256))}), p['t'])
    rt = fn.get('rt') or fn['ta'][0].get('s')
    probs = []; seen = {}
    for kind, rv, s in outcomes(it, fn, st):
        xs = sp.project(s.cond, 0)
        for a, b in xs:
            for x in range(a, b + 1):
                if kind == 'terminate': seen[x] = 'terminate'
                elif kind == 'return' and isinstance(rv, Val): seen[x] = at(rv, (x,))
                else: raise Unmodelled('path ends with %s' % kind)
    for x in range(256):
        want = XDIGITS.get(x, 'terminate')
        if seen.get(x) != want:
            probs.append('unhex_char( %s ) gives %s, documented %s' % (repr(chr(x)) if 32 <= x < 127 else '%#04x' % x, seen.get(x), want))
    return probs[:6], {'characters': 256}


def check_unhex_string(db, fn, k):
    """k digits"""
    sp = Space()
    for i in range(k): sp.var('b%d' % i, 256)
    it = Interp(db, sp)
    cond = sp.full()
    xd = ifrom(XDIGITS)
    for i in range(k): cond = sp.AND(cond, sp.restrict(i, xd))     # precondition: "MUST only be called for characters matching xdigit"
    st = St(cond)
    st.env[fn['params'][0]['id']] = Ptr('cur', 0); st.env[fn['params'][1]['id']] = Ptr('cur', k)
    rt = fn['ta'][0]['s']
    bits_, signed = ctype(rt)
    want = Val({i: [XDIGITS.get(x, 0) << (4 * (k - 1 - i)) for x in range(256)] for i in range(k)}, 0) if k else Val.const(0)
    probs = []; tot = None
    for kind, rv, s in outcomes(it, fn, st):
        if kind != 'return' or not isinstance(rv, Val): raise Unmodelled('path ends with %s' % kind)
        tot = sp.OR(tot, s.cond)
        bad = differs(sp, s.cond, rv, want, 1 << bits_)
        if bad is not None:
            w = sp.witness(bad)
            probs.append('unhex_string< %s >( "%s" ) gives %#x, the base-16 value is %#x' % (rt, ''.join(chr(x) for x in w), at(rv, w) & ((1 << bits_) - 1), at(want, w) & ((1 << bits_) - 1)))
    if tot != cond: probs.append('not every digit string of length %d reaches a return' % k)
    return probs[:4], {'digits': k, 'strings': sp.count(cond)}


SURR_HI = ((0xD800, 0xDBFF),); SURR_LO = ((0xDC00, 0xDFFF),); SURR = ((0xD800, 0xDFFF),)


def check_unescape_j(db, fn):
    """one iteration of the loop of unescape_j::apply"""
    body = fn['body']
    loops = [s for s in body['s'] if s.get('k') == 'For']
    if len(loops) != 1: raise Unmodelled('expected one for loop in unescape_j::apply')
    loop = loops[0]
    sp = Space(); sp.var('more', 2)
    for n in ('c0', 'c1', 'd0', 'd1'): sp.var(n, 256)
    c = word_val(sp, 2, 'c'); d = word_val(sp, 2, 'd')
    # what is known about the whole matched input in an arbitrary iteration: it holds one escape (5 characters after the first backslash) or several
    # (11 or more); when another escape follows this one it holds several.  Values computed before the loop can depend on that and on nothing else.
    multi = sp.var('multi', 2)
    it = Interp(db, sp)
    probs = []
    def in_call(itp, e, ov, av, st):
        cn = e.get('cn')
        if isinstance(ov, Opaque) and ov.tag == 'ainput':
            if cn == 'begin': return iter([(Ptr('in', 0), st)])
            if cn == 'end': return iter([(Ptr('end', 0), st)])
            if cn == 'size': return iter([(Val({multi.level: [5, MANY + 11]}), st)])
            if cn == 'empty': return iter([(Val.const(0), st)])
        return None
    def unhex(itp, e, ov, av, st):
        a, b = av
        if not (isinstance(a, Ptr) and isinstance(b, Ptr) and a.base == b.base == 'grp' and b.off - a.off == 4 and a.off in (0, 6)):
            probs.append('unhex_string is applied to %r .. %r, which is not the four digits of this or the next escape' % (a, b))
            raise Unmodelled('unexpected digit range')
        if a.off == 6:
            no = sp.AND(st.cond, sp.restrict(0, ((0, 0),)))
            if no is not None: probs.append('the digits of the next escape are read on a path where no next escape is known to exist (reads beyond the matched input)')
        return iter([(c if a.off == 0 else d, st)])
    def append(itp, e, ov, av, st):
        x = av[1]
        st.eff = st.eff + (('emit', x),)
        if x.is_const():
            ok = bool(isect(ref.SCALARS, ((x.off, x.off),)))
            return iter([(Val.const(int(ok)), st)])
        g = sp.sumset(x.tabs, ishift(ref.SCALARS, -x.off))
        return ((Val.const(int(b)), s2) for b, s2 in itp.split(g, st))
    def pcmp(itp, op, a, b, st):
        # b + 6 < in.end(): "another escape follows"; b < in.end(): the loop condition itself
        if b.base == 'end' and a.base == 'grp' and op == '<':
            if a.off == 0: return iter([(True, st)])
            if a.off == 6: return itp.split(sp.restrict(0, ((1, 1),)), st)
        raise Unmodelled('comparison of %r %s %r' % (a, op, b))
    it.intercept.update({'begin': in_call, 'end': in_call, 'size': in_call, 'empty': in_call, U + 'unhex_string': unhex, U + 'utf8_append_utf32': append})
    it.ptr_compare = pcmp
    # loop header: b = in.begin() + 1 ; b < in.end() ; b += 6
    st = St(sp.DIFF(sp.full(), sp.AND(sp.restrict(0, ((1, 1),)), sp.restrict(multi.level, ((0, 0),)))))       # another escape follows => several escapes
    st.env[fn['params'][0]['id']] = Opaque('ainput'); st.env[fn['params'][1]['id']] = Opaque('string')
    # declarations in front of the loop (hoisted ends, flags): evaluated; other statements there (the assertion on the length) have no value the loop uses
    starts = [st]
    for stmt in body['s'][:body['s'].index(loop)]:
        if stmt.get('k') != 'Decl': continue
        nxt = []
        for s0 in starts:
            for kind, rv, s1 in it.run(stmt, s0):
                if kind != 'fall': raise Unmodelled('declaration in front of the loop ends with ' + kind)
                nxt.append(s1)
        starts = nxt
    bid = loop['init']['decls'][0]['id']
    outs = []
    for st0 in starts:
        pre = list(it.run(loop['init'], st0))
        b0 = pre[0][2].env[bid]
        if not (isinstance(b0, Ptr) and b0.base == 'in' and b0.off == 1): probs.append('the loop does not start at the second character of the matched input (b = %r)' % (b0,))
        st = pre[0][2]; st.env[bid] = Ptr('grp', 0)
        for kind, rv, s in it.run(loop['body'], st):
            if kind in ('fall', 'continue'):
                s2 = list(it.ev(loop['inc'], s))[0][1]
                outs.append(('next', s2.env[bid].off, [e[1] for e in s2.eff if e[0] == 'emit'], s2.cond))
            elif kind in ('throw', 'return'):
                outs.append(('reject', None, [e[1] for e in s.eff if e[0] == 'emit'], s.cond))
            else: raise Unmodelled('iteration ends with ' + kind)
    inc = c
    pairv = binop('+', binop('*', binop('-', c, Val.const(0xD800)), Val.const(1024)), binop('+', binop('-', d, Val.const(0xDC00)), Val.const(0x10000)))
    more = sp.restrict(0, ((1, 1),))
    pair = sp.AND(more, sp.AND(ref.in_set(sp, c, SURR_HI), ref.in_set(sp, d, SURR_LO)))
    lone = sp.DIFF(ref.in_set(sp, c, SURR), pair)
    single = sp.DIFF(sp.DIFF(sp.full(), pair), lone)
    def show(w): return '\\u%04X%s' % (at(c, w), (' followed by \\u%04X' % at(d, w)) if w[0] else ' at the end')
    for name, reg0, want_kind, want_adv, want_val in (('surrogate pair', pair, 'next', 12, pairv), ('lone surrogate', lone, 'reject', None, None), ('single escape', single, 'next', 6, c)):
        for kind, adv, emits, cond in outs:
            reg = sp.AND(reg0, cond)
            if reg is None: continue
            w = sp.witness(reg)
            if kind != want_kind:
                probs.append('%s %s (and %d more cases): %s' % (name, show(w), sp.count(reg) - 1, 'is accepted' if kind == 'next' else 'is rejected')); continue
            if kind == 'reject':
                continue
            if adv != want_adv:
                probs.append('%s %s: the loop advances by %d characters, expected %d' % (name, show(w), adv, want_adv)); continue
            if len(emits) != 1:
                probs.append('%s %s: %d code points are appended, expected 1' % (name, show(w), len(emits))); continue
            bad = differs(sp, reg, emits[0], want_val)
            if bad is not None:
                w = sp.witness(bad)
                probs.append('%s %s is converted to U+%04X, expected U+%04X (%d cases differ)' % (name, show(w), at(emits[0], w), at(want_val, w), sp.count(bad)))
    return probs[:8], {'paths': len(outs), 'cases': sp.count(sp.full())}


def ints(xs):
    out = []
    for x in xs:
        if x.get('k') == 'pack': out.extend(ints(x.get('a', [])))
        elif x.get('k') == 'int': out.append(int(x['v']))
    return out


def ainput(it):
    def in_call(itp, e, ov, av, st):
        cn = e.get('cn')
        if isinstance(ov, Opaque) and ov.tag == 'ainput':
            if cn == 'begin': return iter([(Ptr('cur', 0), st)])
            if cn == 'end': return iter([(Ptr('end', 0), st)])
            if cn == 'size': return iter([(Opaque('size'), st)])
        return None
    it.intercept.update({'begin': in_call, 'end': in_call, 'size': in_call})
    def pcmp(itp, op, a, b, st):
        # documented precondition: the matched input is not empty
        if a.base == 'cur' and a.off == 0 and b.base == 'end': return iter([({'==': False, '!=': True, '<': True, '<=': True, '>': False, '>=': False}[op], st)])
        raise Unmodelled('comparison of %r %s %r' % (a, op, b))
    it.ptr_compare = pcmp


def check_unescape_c(db, fn):
    """apply_one( in, (one< Qs... >*)nullptr ): the character at in.begin() is mapped positionally"""
    Rs = ints((fn.get('cls') or {}).get('a', [])[1:]); Qs = ints(fn['ta'][1:])
    if len(Qs) != len(Rs) or not Qs: raise Unmodelled('mapping lists %r %r' % (Qs, Rs))
    sp = Space(); sp.var('b0', 256)
    it = Interp(db, sp); ainput(it)
    st = St(sp.full())
    st.env[fn['params'][0]['id']] = Opaque('ainput'); st.env[fn['params'][1]['id']] = Ptr('null', 0)
    seen = {}
    for kind, rv, s in outcomes(it, fn, st):
        for a, b in sp.project(s.cond, 0):
            for x in range(a, b + 1):
                seen[x] = 'terminate' if kind == 'terminate' else (at(rv, (x,)) & 0xFF if kind == 'return' and isinstance(rv, Val) else '?')
    probs = []
    want = {}
    for q, r in zip(Qs, Rs): want.setdefault(q & 0xFF, r & 0xFF)
    for x in range(256):
        w = want.get(x, 'terminate')
        if seen.get(x) != w: probs.append('escaped character %r is mapped to %s, the mapping list says %s' % (chr(x), seen.get(x), w))
    return probs[:4], {'mapping': len(Qs)}


def check_unescape_ux(db, fn, which):
    """unescape_u / unescape_x: digits from the second character to the end"""
    sp = Space(); sp.var('ok', 2)
    it = Interp(db, sp); ainput(it)
    probs = []; calls = []
    def unhex(itp, e, ov, av, st):
        a, b = av
        calls.append((a, b, e.get('t')))
        if not (isinstance(a, Ptr) and isinstance(b, Ptr) and a.base == 'cur' and a.off == 1 and b.base == 'end' and b.off == 0):
            probs.append('the digits are taken from %r .. %r, expected begin() + 1 .. end()' % (a, b))
        return iter([(Opaque('value'), st)])
    def append(itp, e, ov, av, st):
        st.eff = st.eff + (('emit', av[1]),)
        return ((Val.const(int(b)), s2) for b, s2 in itp.split(sp.restrict(0, ((1, 1),)), st))
    it.intercept.update({U + 'unhex_string': unhex, U + 'utf8_append_utf32': append})
    st = St(sp.full())
    st.env[fn['params'][0]['id']] = Opaque('ainput'); st.env[fn['params'][1]['id']] = Opaque('string')
    outs = []
    for kind, rv, s in outcomes(it, fn, st):
        outs.append((kind, rv, s))
    if which == 'u':
        for kind, rv, s in outs:
            ok = sp.project(s.cond, 0)
            emits = [e for e in s.eff if e[0] == 'emit']
            if len(emits) != 1 or not isinstance(emits[0][1], Opaque): probs.append('the converted code point is not passed to utf8_append_utf32 exactly once')
            if ok == ((1, 1),) and kind not in ('fall', 'return'): probs.append('a valid code point ends with ' + kind)
            if ok == ((0, 0),) and not (kind == 'throw' or (kind == 'return' and isinstance(rv, Val) and rv.is_const() and rv.off == 0)): probs.append('an invalid code point is not rejected (path ends with %s)' % kind)
        if len(calls) < 1 or any(ctype(t) != (32, False) for a, b, t in calls): probs.append('the code point is not accumulated in an unsigned 32-bit value')
    else:
        for kind, rv, s in outs:
            app = [e for e in s.eff if e[0] == 'append']
            if kind not in ('fall', 'return') or len(app) != 1 or len(app[0][1]) != 1 or not isinstance(app[0][1][0], Opaque): probs.append('the converted byte is not appended exactly once')
        if len(calls) < 1 or any(ctype(t) is None or ctype(t)[0] != 8 for a, b, t in calls): probs.append('the byte is not accumulated in a char')
    return probs[:4], {'paths': len(outs)}


def run(tier):
    R = core.Result('C17', tier)
    db = core.DB(core.extract(list(units.BITS)))
    kinds = collections.Counter()
    def ob(kind, key, rule, site, f):
        try:
            probs, cov = f()
        except (Unmodelled, Blowup) as e:
            R.broke('%s: %s' % (key, e)); return
        kinds[kind] += 1
        R.ob(ok=not probs, key=(kind, key))
        for p in probs: R.violation(rule, site, p, key=(kind, key, p))
        if not probs and len(R.samples) < 12: R.sample(dict(cov, function=key))
    for fn in db.order:
        q = fn['q']
        if q == U + 'utf8_append_utf32': ob('utf8', 'utf8_append_utf32', 'X-utf8', 'contrib/unescape.hpp::utf8_append_utf32', lambda: check_utf8_append(db, fn))
        elif q == U + 'unhex_char': ob('hexchar', 'unhex_char<%s>' % fn['ta'][0]['s'], 'X-hexchar', 'contrib/unescape.hpp::unhex_char', lambda: check_unhex_char(db, fn))
        elif q == U + 'unhex_string':
            bits_ = ctype(fn['ta'][0]['s'])[0]
            for k in range(0, bits_ // 4 + 1):
                ob('hexstr', 'unhex_string<%s> %d digits' % (fn['ta'][0]['s'], k), 'X-hexstr', 'contrib/unescape.hpp::unhex_string', lambda: check_unhex_string(db, fn, k))
        elif q.startswith(U + 'unescape_c<') and fn['n'] == 'apply_one': ob('c', 'unescape_c::apply_one', 'X-c', 'contrib/unescape.hpp::unescape_c::apply_two', lambda: check_unescape_c(db, fn))
        elif q == U + 'unescape_u::apply': ob('u', 'unescape_u::apply', 'X-u', 'contrib/unescape.hpp::unescape_u::apply', lambda: check_unescape_ux(db, fn, 'u'))
        elif q == U + 'unescape_x::apply': ob('x', 'unescape_x::apply', 'X-x', 'contrib/unescape.hpp::unescape_x::apply', lambda: check_unescape_ux(db, fn, 'x'))
        elif q == U + 'unescape_j::apply': ob('json', 'unescape_j::apply', 'X-json', 'contrib/unescape.hpp::unescape_j::apply', lambda: check_unescape_j(db, fn))
    R.cov['obligations_by_kind'] = dict(kinds)
    for k, fl in (('utf8', 1), ('hexchar', 3), ('hexstr', 3 + 9 + 17), ('json', 1), ('c', 1), ('u', 1), ('x', 1)):
        if kinds.get(k, 0) < fl: R.broke('only %d %s obligations (floor %d)' % (kinds.get(k, 0), k, fl))
    R.assumptions = ['unhex_string is analysed under its documented precondition (all characters are hexadecimal digits)',
                     'unescape_j is analysed per loop iteration: (this escape, is there a next escape, next escape); the iterations are independent because the only state carried over is the position']
    return R.finish(
        'Exact set evaluation (sa/bits.py) of utf8_append_utf32 over all 2^32 arguments, of unhex_char over all characters, of unhex_string for every length up to the width of the result type, and of one '
        'iteration of unescape_j over all pairs of escapes, compared with the Unicode encoding tables and the surrogate pair formula.',
        'one obligation per helper instantiation (per digit count for unhex_string)')
