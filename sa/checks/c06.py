"""C06  Reported positions are a function of the consumed prefix only (DESIGN.md 5/C06).

The position of an eager input is the result of the bump calls made so far; a lazy input recomputes it with internal::bump over
the consumed prefix.  Both are the documented function of the prefix iff

P-bump      internal::bump( it, n, ch ) is the per-byte definition (line+1, column=1 on ch; column+1 otherwise; byte, data += n),
            bump_in_this_line( it, n ) = ( data, byte, column += n ), bump_to_next_line( it, n ) = ( line+1, column=1, data, byte += n )
P-shortcut  every call of bump_in_this_line( n ) happens on a path on which the n bytes skipped are known not to be the end-of-line
            character of the input, and every call of bump_to_next_line( n ) on a path on which the last of the n bytes is that
            character and none of the earlier ones is; decided for every call site in the headers (closed table), over all five
            end-of-line policies, exactly (sa/bits.py) for the single-unit and fixed-string rules and the eol rules, and over class
            strings (sa/scan.py) for the digit, chunk-size and raw-string scanners
P-forward   the input classes forward bump* to the internal functions with their own cursor, the count and Eol::ch; the lazy
            position() bumps a copy of the begin iterator over ( it - begin ) bytes with Eol::ch; byte() of both modes includes the
            initial byte; action inputs and parse errors take the position from the input
P-writers   nothing but the bump functions, constructors, restart, discard and the rewind guards writes the cursor fields"""
import collections, glob, os, re, subprocess, json
from .. import core, units, bits
from ..bits import *
from ..bits import Abort
from . import c10

T = 'tao::pegtl::'; TI = T + 'internal::'
EOLCH = {'lf': 10, 'cr': 13, 'crlf': 10, 'lf_crlf': 10, 'cr_crlf': 13}


def eol_of(fn):
    """end-of-line policy of the input type of a match function"""
    for p in fn.get('params', []):
        m = re.search(r'memory_input<tao::pegtl::tracking_mode::eager, tao::pegtl::eol::(\w+)', p.get('t') or '')
        if m: return m.group(1)
    return None


def site_of(loc):
    f, l = loc.split(':')[0:2]
    return os.path.realpath(f).split('/include/tao/pegtl/')[-1] + ':' + l


def shortcut_sites():
    """every textual call of a position shortcut in the headers (the closed table the analyses must cover)"""
    out = {}
    root = os.path.join(core.REPO, 'include', 'tao', 'pegtl')
    for f in sorted(glob.glob(root + '/**/*.hpp', recursive=True)):
        rel = f[len(root) + 1:]
        for i, line in enumerate(open(f), 1):
            code = line.split('//')[0]
            if re.search(r'\bvoid\s+bump_', code): continue
            for m in re.finditer(r'\b(bump_in_this_line|bump_to_next_line)\s*\(', code):
                out['%s:%d' % (rel, i)] = m.group(1)
    return out


def check_effects(sp, it, fn, outs, ch, report, covered):
    """P-shortcut on the bump effects of all paths"""
    lv = lambda k: sp.byname['b%d' % k].level
    for kind, v, s in outs:
        for eff in s.eff:
            if eff[0] != 'bump': continue
            _, n, cn, cond, pos, loc = eff
            covered[site_of(loc)] += 1
            if cn == 'bump' or n.off == 0: continue
            for i in range(n.off):
                is_ch = sp.restrict(lv(pos + i), ((ch, ch),))
                last = (i == n.off - 1)
                if cn == 'bump_in_this_line' or not last:
                    bad = sp.AND(cond, is_ch)
                    if bad is not None:
                        report(loc, '%s( %d ) skips byte %d of %d although it can be the end-of-line character %r: line and column disagree with the definition (and with lazy tracking) on %s' % (
                            cn, n.off, i + 1, n.off, chr(ch), c10.show_tuple(sp, sp.witness(bad))))
                else:
                    bad = sp.DIFF(cond, is_ch)
                    if bad is not None:
                        report(loc, 'bump_to_next_line( %d ) starts a new line although the last byte skipped need not be the end-of-line character %r of this input: on %s' % (
                            n.off, chr(ch), c10.show_tuple(sp, sp.witness(bad))))


def analyse_shortcuts(db, R, kinds, covered):
    for fn in db.order:
        if fn['n'] != 'match' or '/tao/pegtl/' not in fn['pat'] or not fn.get('params'): continue
        eol = eol_of(fn)
        if eol is None: continue
        from ..exc import walk
        cls = fn.get('cls') or {}
        if not cls: continue
        combinator = bool(walk(fn.get('body'), lambda n: n.get('k') == 'call' and n.get('cn') == 'match', []))
        if combinator and not walk(fn.get('body'), lambda n: n.get('k') == 'call' and n.get('cn') in ('bump', 'bump_in_this_line', 'bump_to_next_line') and (n.get('obj') or {}).get('n') == 'in', []):
            continue      # combinators that leave all consuming to their sub-rules
        rule = (cls.get('s') or fn['q']).replace(TI, '').replace(T, '').replace('result_on_found::', '')
        ch = EOLCH[eol]
        try:
            sp = c10.space('be'); it = Interp(db, sp)
            st = St(sp.full()); st.env[fn['params'][0]['id']] = Opaque('input')
            if combinator:
                # a combinator that advances the cursor itself (until): its sub-rules are oracles - a failed attempt consumes nothing and tells nothing about the
                # bytes, a successful one ends the part of the path this analysis looks at; guards are transparent
                def oracle(itp, e, ov, av, s0):
                    if not (e.get('cc') and e.get('static')): return None
                    def g():
                        yield Val.const(0), s0.fork(s0.cond)
                        yield Abort('window'), s0
                    return g()
                it.intercept['match'] = oracle
                it.intercept['auto_rewind'] = lambda itp, e, ov, av, s0: iter([(Opaque('guard'), s0)])
                it.intercept['operator()'] = lambda itp, e, ov, av, s0: (iter([(av[0] if av else Val.const(1), s0)]) if isinstance(ov, Opaque) and ov.tag == 'guard' else None)
            outs = outcomes(it, fn, st)
        except (Unmodelled, Blowup) as e:
            R.broke('%s over eol::%s: %s' % (rule, eol, e)); continue
        probs = []
        def report(loc, msg): probs.append((site_of(loc), msg))
        check_effects(sp, it, fn, outs, ch, report, covered)
        kinds['shortcut'] += 1
        R.ob(ok=not probs, key=('shortcut', rule, eol))
        for site, msg in probs:
            R.violation('P-shortcut', site.split(':')[0] + '::' + site.split(':')[1], '%s over eol::%s: %s' % (rule, eol, msg), {'rule': rule, 'eol': eol}, key=('shortcut', site, rule, eol, msg[:60]))
        if not probs and len(R.samples) < 6 and any(e[2] != 'bump' for k, v, s in outs for e in s.eff):
            R.sample({'rule': rule, 'eol': eol, 'paths': len(outs), 'shortcut_calls': sum(1 for k, v, s in outs for e in s.eff if e[0] == 'bump' and e[2] != 'bump')})


def check_bump_fn(db, fn):
    """P-bump: the three internal bump functions against the per-byte definition, for counts 0..4, both line-ending characters,
    symbolic initial counters"""
    import itertools
    name = fn['n']; probs = []
    ps = fn['params']
    for ch in (10, 13):
        for count in range(0, 7):
            sp = Space()
            for v in ('L', 'C', 'B'): sp.var(v, 4)
            for k in range(max(count, 1)): sp.var('b%d' % k, 256)
            it = Interp(db, sp)
            st = St(sp.full())
            L, C, B = (Val({sp.byname[v].level: [10 * (i + 1) + x for x in range(4)]}) for i, v in enumerate(('L', 'C', 'B')))
            st.env[ps[0]['id']] = Rec({'data': Ptr('cur', 0), 'byte': B, 'line': L, 'column': C})
            st.env[ps[1]['id']] = Val.const(count)
            if len(ps) > 2: st.env[ps[2]['id']] = Val.const(ch)
            for kind, v, s in outcomes(it, fn, st):
                if kind not in ('fall', 'return'): raise Unmodelled('path ends with ' + kind)
                r = s.env[ps[0]['id']]
                for pat in itertools.product((0, 1), repeat=count):
                    reg = s.cond
                    for k, is_ch in enumerate(pat):
                        x = sp.restrict(sp.byname['b%d' % k].level, ((ch, ch),))
                        reg = sp.AND(reg, x) if is_ch else sp.DIFF(reg, x)
                    if reg is None: continue
                    if name == 'bump':
                        want_line = binop('+', L, Val.const(sum(pat)))
                        last = max([k for k, x in enumerate(pat) if x], default=None)
                        want_col = Val.const(count - last) if last is not None else binop('+', C, Val.const(count))
                    elif name == 'bump_in_this_line':
                        want_line = L; want_col = binop('+', C, Val.const(count))
                    else:
                        want_line = binop('+', L, Val.const(1)); want_col = Val.const(1)
                    want = {'line': want_line, 'column': want_col, 'byte': binop('+', B, Val.const(count))}
                    for f, w in want.items():
                        d = binop('-', r.f[f], w)
                        bad = reg if (d.is_const() and d.off) else (None if d.is_const() else sp.AND(reg, sp.sumset(d.tabs, ((-INF, -1 - d.off), (1 - d.off, INF)))))
                        if bad is not None:
                            probs.append('%s( it, %d%s ) over bytes %s: %s is not %s' % (name, count, ', %r' % chr(ch) if len(ps) > 2 else '', ''.join('E' if x else '.' for x in pat) or '(none)', f,
                                         {'line': 'line + number of line-ending characters', 'column': 'one plus the bytes since the last line-ending character', 'byte': 'byte + count'}[f] if name == 'bump' else 'as defined'))
                    if not (isinstance(r.f['data'], Ptr) and r.f['data'].off == count): probs.append('%s( it, %d ): data is advanced by %s' % (name, count, getattr(r.f['data'], 'off', '?')))
    return sorted(set(probs))[:6]


def analyse_bump(db, R, kinds):
    for fn in db.order:
        if fn['q'] not in (TI + 'bump', TI + 'bump_in_this_line', TI + 'bump_to_next_line'): continue
        try:
            probs = check_bump_fn(db, fn)
        except (Unmodelled, Blowup, KeyError) as e:
            R.broke('%s: %s' % (fn['q'], e)); continue
        kinds['bump'] += 1
        R.ob(ok=not probs, key=('bump', fn['n']))
        for p in probs: R.violation('P-bump', 'internal/bump.hpp::' + fn['n'], p, key=('bump', fn['n'], p))


def expected_cursor(sp, kind, ch, count, pat, L, C, B):
    """( line, column, byte ) after `kind` over `count` bytes whose line-ending pattern is pat"""
    if kind == 'bump':
        last = max([k for k, x in enumerate(pat) if x], default=None)
        return binop('+', L, Val.const(sum(pat))), (Val.const(count - last) if last is not None else binop('+', C, Val.const(count))), binop('+', B, Val.const(count))
    if kind == 'bump_in_this_line': return L, binop('+', C, Val.const(count)), binop('+', B, Val.const(count))
    return binop('+', L, Val.const(1)), Val.const(1), binop('+', B, Val.const(count))


def differs(sp, reg, a, b):
    if not isinstance(a, Val): return reg
    d = binop('-', a, b)
    if d.is_const(): return reg if d.off else None
    return sp.AND(reg, sp.sumset(d.tabs, ((-INF, -1 - d.off), (1 - d.off, INF))))


def input_object(sp, lazy, k=0):
    """abstract *this of memory_input_base / buffer_input with symbolic counters"""
    L, C, B = (Val({sp.byname[v].level: [10 * (i + 1) + x for x in range(4)]}) for i, v in enumerate(('L', 'C', 'B')))
    it = Rec({'data': Ptr('cur', 0), 'byte': B, 'line': L, 'column': C})
    if lazy: return Rec({'m_begin': it, 'm_current': Ptr('cur', k), 'm_end': Ptr('end', 0), 'm_source': Opaque('source')}), (L, C, B)
    return Rec({'m_begin': Ptr('cur', 0), 'm_current': it, 'm_end': Ptr('end', 0), 'm_source': Opaque('source'), 'm_buffer': Opaque('buffer')}), (L, C, B)


def forward_space(count):
    sp = Space(); sp.var('avail', CAP + 1)
    for v in ('L', 'C', 'B'): sp.var(v, 4)
    for k in range(max(count, 1)): sp.var('b%d' % k, 256)
    return sp


def patterns(sp, cond, ch, count):
    import itertools
    for pat in itertools.product((0, 1), repeat=count):
        reg = cond
        for k, is_ch in enumerate(pat):
            x = sp.restrict(sp.byname['b%d' % k].level, ((ch, ch),))
            reg = sp.AND(reg, x) if is_ch else sp.DIFF(reg, x)
        if reg is not None: yield pat, reg


def check_forward(db, fn, pol, lazy):
    """P-forward by evaluation: after in.bump*( n ) the cursor of the input is what the primitive of that name does to it with Eol::ch (eager,
    buffer) / the pointer has advanced by n and nothing else happened (lazy); the lazy position( it ) is the bump definition applied to the begin
    iterator over the bytes before it; byte() is the initial byte plus the bytes consumed"""
    name = fn['n']; ch = EOLCH[pol]; probs = []
    for count in range(0, 4):
        sp = forward_space(count); it = Interp(db, sp)
        this, (L, C, B) = input_object(sp, lazy, count if name in ('position', 'byte') else 0)
        st = St(sp.restrict(sp.byname['avail'].level, ((count, CAP),)))       # the bytes skipped are available (C03)
        st.env['this'] = this
        ps = fn['params']
        if name == 'position': st.env[ps[0]['id']] = Ptr('cur', count) if lazy else None
        elif name != 'byte' and ps: st.env[ps[0]['id']] = Val.const(count)
        for kind, v, s in outcomes(it, fn, st):
            if kind not in ('fall', 'return'): raise Unmodelled('path ends with ' + kind)
            t2 = s.env['this']
            if name in ('bump', 'bump_in_this_line', 'bump_to_next_line'):
                cur = t2.f['m_current']
                if lazy:
                    if not (isinstance(cur, Ptr) and cur.base == 'cur' and cur.off == count): probs.append('%s( %d ) leaves the lazy cursor at %r, expected begin + %d' % (name, count, cur, count))
                    if t2.f['m_begin'] is not this.f['m_begin'] and repr(t2.f['m_begin']) != repr(this.f['m_begin']): probs.append('%s changes the begin iterator of a lazy input' % name)
                    continue
                if not isinstance(cur, Rec): raise Unmodelled('cursor %r' % (cur,))
                for pat, reg in patterns(sp, s.cond, ch, count):
                    wl, wc, wb = expected_cursor(sp, name, ch, count, pat, L, C, B)
                    for f, w in (('line', wl), ('column', wc), ('byte', wb)):
                        if differs(sp, reg, cur.f[f], w) is not None:
                            probs.append('after %s( %d ) over bytes %s the %s of the cursor is not what internal::%s gives with the line-ending character %r of this input' % (name, count, ''.join('E' if x else '.' for x in pat) or '(none)', f, name, chr(ch)))
                    if not (isinstance(cur.f['data'], Ptr) and cur.f['data'].off == count): probs.append('%s( %d ) advances the data pointer by %s' % (name, count, getattr(cur.f['data'], 'off', '?')))
            elif name == 'position':
                if not isinstance(v, Rec) or not all(f in v.f for f in ('byte', 'line', 'column')): raise Unmodelled('position result %r' % (v,))
                for pat, reg in patterns(sp, s.cond, ch, count):
                    wl, wc, wb = expected_cursor(sp, 'bump', ch, count, pat, L, C, B)
                    for f, w in (('line', wl), ('column', wc), ('byte', wb)):
                        if differs(sp, reg, v.f[f], w) is not None:
                            probs.append('lazy position( begin + %d ) over bytes %s: %s is not the definition applied to the begin iterator' % (count, ''.join('E' if x else '.' for x in pat) or '(none)', f))
            elif name == 'byte':
                if differs(sp, s.cond, v, binop('+', B, Val.const(count if lazy else 0))) is not None:
                    probs.append('byte() is not the initial byte plus the bytes consumed (%s tracking)' % ('lazy' if lazy else 'eager'))
    return sorted(set(probs))[:4]


def analyse_ctors(db, R, kinds):
    """P-ctor: an input constructed from a counter-carrying iterator starts at exactly those counters (eager: the cursor; lazy: the begin iterator the position is
    recomputed from), an input constructed from a plain pointer at 0:1:1; evaluated from the member-init lists (delegation followed)"""
    for fn in db.order:
        cls = fn.get('cls') or {}
        if (cls.get('tn') or '') != TI + 'memory_input_base' or not fn.get('ctor') or '/tao/pegtl/' not in fn['pat'] or len(fn.get('params', [])) != 3: continue
        lazy = 'tracking_mode::lazy' in (cls.get('s') or '')
        from_iter = 'inputerator' in fn['params'][0]['t']
        sp = Space()
        for v in ('L', 'C', 'B'): sp.var(v, 4)
        it = Interp(db, sp)
        L, C, B = (Val({sp.byname[v].level: [10 * (i + 1) + x for x in range(4)]}) for i, v in enumerate(('L', 'C', 'B')))
        a0 = Rec({'data': Ptr('cur', 0), 'byte': B, 'line': L, 'column': C}) if from_iter else Ptr('cur', 0)
        want = (B, L, C) if from_iter else (Val.const(0), Val.const(1), Val.const(1))
        probs = []
        try:
            for obj, s in it.run_ctor(fn, [a0, Ptr('end', 0), Opaque('source')], St(sp.full())):
                if not isinstance(obj, Rec): raise Unmodelled('constructor result %r' % (obj,))
                start = obj.f.get('m_begin' if lazy else 'm_current')
                if not isinstance(start, Rec): raise Unmodelled('the %s of the constructed input is %r' % ('begin iterator' if lazy else 'cursor', start))
                for f, w in zip(('byte', 'line', 'column'), want):
                    if differs(sp, s.cond, start.f.get(f), w) is not None:
                        probs.append('an input constructed from %s starts with a %s counter that is not %s' % ('an iterator with counters' if from_iter else 'a plain pointer', f, 'the one of that iterator' if from_iter else {'byte': 0, 'line': 1, 'column': 1}[f]))
                if not (isinstance(start.f.get('data'), Ptr) and start.f['data'].off == 0): probs.append('the constructed input does not start at the given data pointer')
                if lazy and not (isinstance(obj.f.get('m_current'), Ptr) and obj.f['m_current'].off == 0): probs.append('the cursor of the lazy input does not start at the given data pointer')
        except (Unmodelled, Blowup, KeyError) as e:
            R.broke('constructor %s: %s' % (fn['disp'][:120], e)); continue
        kinds['ctor'] += 1
        R.ob(ok=not probs, key=('ctor', fn['disp']))
        for pmsg in sorted(set(probs)):
            R.violation('P-ctor', 'memory_input.hpp::memory_input_base', '%s tracking: %s' % ('lazy' if lazy else 'eager', pmsg), {'function': fn['disp'][:160]}, key=('ctor', lazy, from_iter, pmsg))


def analyse_restart(R, kinds):
    """P-restart: restart( byte, line, column ) of an eagerly tracked input leaves the cursor at the begin of the data with exactly the counters it is given"""
    db = core.DB(core.extract(list(units.INPUTS)))
    for fn in db.order:
        cls = fn.get('cls') or {}
        if (cls.get('tn') or '') != TI + 'memory_input_base' or fn['n'] != 'restart' or len(fn.get('params', [])) != 3 or 'tracking_mode::eager' not in (cls.get('s') or '') or '/tao/pegtl/' not in fn['pat']: continue
        sp = Space()
        for v in ('B', 'L', 'C'): sp.var(v, 4)
        it = Interp(db, sp)
        B, L, C = (Val({sp.byname[v].level: [10 * (i + 1) + x for x in range(4)]}) for i, v in enumerate(('B', 'L', 'C')))
        st = St(sp.full())
        st.env['this'] = Rec({'m_begin': Ptr('cur', 0), 'm_end': Ptr('end', 0), 'private_depth': Val.const(0), 'm_current': Rec({'data': Ptr('cur', 5), 'byte': Val.const(5), 'line': Val.const(2), 'column': Val.const(3)})})
        for p, v in zip(fn['params'], (B, L, C)): st.env[p['id']] = v
        probs = []
        try:
            for kind, v, s in outcomes(it, fn, st):
                if kind not in ('fall', 'return'): continue            # the assertions on line and column
                cur = s.env['this'].f.get('m_current')
                if not isinstance(cur, Rec): raise Unmodelled('cursor after restart is %r' % (cur,))
                if not (isinstance(cur.f.get('data'), Ptr) and cur.f['data'].base == 'cur' and cur.f['data'].off == 0): probs.append('after restart( byte, line, column ) the cursor is not at the begin of the data')
                for f, w in zip(('byte', 'line', 'column'), (B, L, C)):
                    if differs(sp, s.cond, cur.f.get(f), w) is not None: probs.append('after restart( byte, line, column ) the %s counter is not the %s it was given' % (f, f))
        except (Unmodelled, Blowup, KeyError) as e:
            R.broke('restart %s: %s' % (fn['disp'][:120], e)); continue
        kinds['restart'] += 1
        R.ob(ok=not probs, key=('restart', fn['disp']))
        for pmsg in sorted(set(probs)): R.violation('P-ctor', 'memory_input.hpp::memory_input_base::restart', pmsg, {'function': fn['disp'][:160]}, key=('restart', pmsg))


def analyse_forward(db, R, kinds, covered):
    for fn in db.order:
        cls = (fn.get('cls') or {}); tn = cls.get('tn') or ''
        if tn not in (TI + 'memory_input_base', T + 'buffer_input') or '/tao/pegtl/' not in fn['pat']: continue
        lazy = 'tracking_mode::lazy' in (cls.get('s') or '')
        m = re.search(r'eol::(\w+)', cls.get('s') or '')
        pol = m.group(1) if m else None
        if fn['n'] not in ('bump', 'bump_in_this_line', 'bump_to_next_line') and not (fn['n'] == 'byte' and 'memory_input_base' in tn) and not (fn['n'] == 'position' and lazy and len(fn['params']) == 1): continue
        site = '%s::%s' % ('memory_input.hpp' if 'memory_input' in tn else 'buffer_input.hpp', fn['n'])
        try:
            probs = check_forward(db, fn, pol, lazy)
        except (Unmodelled, Blowup, KeyError) as e:
            R.broke('%s %s: %s' % (site, (cls.get('s') or '').replace(T, '')[:80], e)); continue
        from ..exc import walk
        for c in walk(fn.get('body'), lambda n: n.get('k') == 'call' and n.get('cq') in (TI + 'bump_in_this_line', TI + 'bump_to_next_line'), []): covered[site_of(c['loc'])] += 1
        kinds['forward'] += 1
        R.ob(ok=not probs, key=('forward', fn['disp']))
        for p in probs: R.violation('P-forward', site, '%s: %s' % ((cls.get('s') or '').replace(T, '')[:90], p), key=('forward', site, pol, lazy, p))


def analyse_subinputs(db, R, kinds):
    """P-subinput: a rule that parses a sub-range with a second input (rematch) must start that input with the position counters of
    the main input at that point: the input is constructed from a counter-carrying iterator, and where the main iterator is a plain
    pointer (lazy tracking) the counters come from in.position( it )"""
    from ..exc import walk, leaves
    for fn in db.order:
        if fn['n'] != 'match' or '/tao/pegtl/' not in fn['pat']: continue
        cons = walk(fn.get('body'), lambda n: n.get('k') == 'construct' and (n.get('cq') or '').startswith(T + 'memory_input<'), [])
        if not cons: continue
        rule = ((fn.get('cls') or {}).get('s') or fn['q']).replace(T, '')[:80]
        lazy = 'tracking_mode::lazy' in fn['disp']
        import re
        def mode_eol(t):
            m = re.search(r'memory_input<tao::pegtl::tracking_mode::(\w+), tao::pegtl::eol::(\w+)', t or '')
            return m.groups() if m else None
        main = None
        for p in fn.get('params', []):
            main = main or mode_eol(p.get('t'))
        for c in cons:
            probs = []
            cpt = c.get('cpt') or []
            # lines are counted the same way inside the sub-range: the second input has the tracking mode and the end-of-line policy of the main input
            second = mode_eol(c.get('cq')) or mode_eol(c.get('t'))
            if main is not None:
                kinds['subinput-policy'] += 1
                if second is None: raise bits.Unmodelled('type of the second input in %s' % fn['disp'][:120])
                if second != main:
                    probs.append('the second input is a memory_input< tracking_mode::%s, eol::%s > while the main input is < tracking_mode::%s, eol::%s >: lines and columns inside the sub-range are counted with another end-of-line character' % (second + main))
            if not cpt or 'inputerator' not in cpt[0]:
                probs.append('the second input is constructed from %s: its byte, line and column start at 0:1:1 instead of the position of the main input' % (cpt[0] if cpt else '?'))
            else:
                a0 = c['args'][0]
                calls = walk(a0, lambda n: n.get('k') == 'call' and n.get('cu') in db.fns, [])
                for cl in calls:
                    g = db.get(cl['cu'])
                    if g is None or g.get('rt', '').startswith('const') or 'inputerator' not in (cl.get('crt') or ''): continue
                    if (cl.get('crt') or '').endswith('&'): continue            # hands the counter-carrying iterator through
                    mk = walk(g.get('body'), lambda n: n.get('k') == 'construct' and (n.get('cq') or '').endswith('inputerator::inputerator') and len(n.get('args', [])) == 4, [])
                    pos = walk(g.get('body'), lambda n: n.get('k') == 'call' and n.get('cn') == 'position', [])
                    if not mk or not pos: probs.append('%s builds the begin iterator without the counters of in.position( it )' % g['q'].replace(T, ''))
                    else:
                        lv = leaves(mk[0])
                        if [x for x in lv if x[0] == 'member'] != [('member', 'byte'), ('member', 'line'), ('member', 'column')]: probs.append('%s does not pass byte, line and column of the position in this order' % g['q'].replace(T, ''))
            kinds['subinput'] += 1
            R.ob(ok=not probs, key=('subinput', fn['disp']))
            for pmsg in probs: R.violation('P-subinput', core.relfile(fn['pat']) + '::' + rule.split('<')[0] + '::match', '%s (%s tracking): %s' % (rule, 'lazy' if lazy else 'eager', pmsg), key=('subinput', rule, lazy, pmsg))


FIELDS = {'data', 'byte', 'line', 'column'}
WRITERS = {   # who may write the cursor of an input or its counters (confirmed by reading; one reason each)
    TI + 'bump': 'the definition', TI + 'bump_in_this_line': 'shortcut (P-bump, P-shortcut)', TI + 'bump_to_next_line': 'shortcut (P-bump, P-shortcut)',
    TI + 'memory_input_base<>::bump': 'lazy tracking: pointer advance', TI + 'memory_input_base<>::bump_in_this_line': 'lazy tracking: pointer advance',
    TI + 'memory_input_base<>::bump_to_next_line': 'lazy tracking: pointer advance', TI + 'memory_input_base<>::restart': 'explicit reset to a given position',
    T + 'memory_input<>::restart': 'reset to the iterator saved by a rewind guard', T + 'memory_input<>::rewind_restore': 'whole-iterator restore by the rewind guard',
    T + 'buffer_input<>::rewind_restore': 'whole-iterator restore by the rewind guard', T + 'buffer_input<>::discard': 'moves the data pointer together with the buffer contents; counters untouched',
}
WRITER_KINDS = {   # what an allowed writer may write, where the table entry is narrower than "the cursor"
    T + 'buffer_input<>::discard': ({'counter data ='}, 'the data pointer only (the bytes moved, the position did not): byte, line and column stay what the consumed prefix made them'),
}
RESTORE_CALLERS = (TI + 'rewind_guard<',)


def cursor_lhs(l, local_ids=()):
    if not isinstance(l, dict): return None
    while l.get('k') == 'cast': l = l['e']
    # a local copy of an iterator (internal::inputerator c( m_begin ); bump( c, ... )) is not the cursor of an input
    b = l.get('b') if l.get('k') == 'member' else None
    while isinstance(b, dict) and b.get('k') == 'cast': b = b['e']
    if isinstance(b, dict) and b.get('k') == 'ref' and b.get('d') in local_ids: return None
    if l.get('k') == 'ref' and l.get('d') in local_ids: return None
    if l.get('k') == 'member' and l.get('n') in FIELDS and 'inputerator' in ((l.get('b') or {}).get('t') or '').replace('inputerator_t', ''):
        bb = l.get('b') or {}
        while bb.get('k') == 'cast': bb = bb['e']
        if bb.get('k') == 'member' and bb.get('n') not in ('m_current',): return None      # a counter of a stored copy (node begin / end, marker), not of a cursor
        return 'counter ' + l['n']
    if l.get('k') == 'member' and l.get('n') == 'm_current': return 'm_current'
    if l.get('k') == 'call' and l.get('cn') == 'inputerator': return 'inputerator()'
    t = l.get('t') or ''
    # a whole iterator: only a by-reference parameter can be somebody's cursor (members of other classes - parse tree nodes, markers - hold copies)
    if l.get('k') == 'ref' and l.get('dk') == 'ParmVar' and 'internal::inputerator' in t and not t.startswith('const'): return 'iterator ' + str(l.get('n'))
    return None


def restores_saved_state(call, fn):
    """the argument of rewind_restore is a local that was initialised from rewind_save() (a whole earlier cursor of the same input)"""
    from ..exc import walk, leaves
    args = call.get('args') or []
    if len(args) != 1: return False
    a = args[0]
    while a.get('k') == 'cast': a = a['e']
    if a.get('k') != 'ref' or a.get('dk') != 'Var': return False
    for d in [d for s2 in walk(fn.get('body'), lambda n: n.get('k') == 'Decl', []) for d in s2.get('decls', [])]:
        if d.get('id') == a.get('d'):
            return bool(walk(d.get('init'), lambda n: n.get('k') == 'call' and n.get('cn') == 'rewind_save', []))
    return False


def writers_of(path):
    """( {generic function name: [what is written]}, [callers of rewind_restore] ) for one extracted unit"""
    db = core.DB([path])
    found = collections.defaultdict(set); callers = set(); resets = set(); nfn = 0
    locals_of = {}
    def walk(n, fn):
        if isinstance(n, dict):
            k = n.get('k')
            if k == 'bin' and (n['op'] == '=' or (n['op'].endswith('=') and n['op'] not in ('==', '!=', '<=', '>='))):
                w = cursor_lhs(n.get('l'), locals_of.get('cur', ()))
                if w: found[fn['q']].add(w + ' ' + n['op'])
            elif k == 'un' and n.get('op') in ('++', '--'):
                w = cursor_lhs(n.get('e'), locals_of.get('cur', ()))
                if w: found[fn['q']].add(w + ' ' + n['op'])
            elif k == 'call':
                if n.get('opc') in ('=', '+=', '-=', '++', '--') and n.get('args'):
                    w = cursor_lhs(n['args'][0], locals_of.get('cur', ()))
                    if w: found[fn['q']].add(w + ' operator' + n['opc'])
                if n.get('cn') == 'rewind_restore' and not restores_saved_state(n, fn): callers.add(fn['q'])
                if n.get('cn') == 'restart' and 'memory_input_base<tao::pegtl::tracking_mode::eager' in (n.get('cq') or '') and '/tao/pegtl/' in fn['pat']:
                    resets.add(fn['q'])
            for v in n.values(): walk(v, fn)
        elif isinstance(n, list):
            for v in n: walk(v, fn)
    from ..exc import walk as awalk
    for fn in db.order:
        nfn += 1
        loc = set()
        for d in [d for s2 in awalk(fn.get('body'), lambda n: n.get('k') == 'Decl', []) for d in s2.get('decls', [])]:
            if not (d.get('t') or '').strip().endswith('&'): loc.add(d.get('id'))
        locals_of['cur'] = loc
        walk(fn.get('body'), fn)
    return {re.sub(r'<.*>', '<>', q): sorted(v) for q, v in found.items()}, sorted(callers) + ['reset:' + q for q in sorted(resets)], nfn


def analyse_writers(R, kinds, tier):
    from .. import repo_units
    paths = core.extract(list(units.INPUTS) + list(units.POS) + list(units.RULES) + list(units.DISPATCH))
    if tier == 'thorough': paths = paths + repo_units.extract_all(R)
    res = repo_units.map_units('sa.checks.c06', 'writers_of', paths)
    allw = collections.defaultdict(set); callers = set(); nfn = 0
    for pth, (w, c, n) in res.items():
        nfn += n
        for q, v in w.items(): allw[q] |= set(v)
        callers |= set(c)
    R.cov['functions_scanned_for_cursor_writes'] = nfn
    for q, v in sorted(allw.items()):
        kinds['writer'] += 1
        ok = q in WRITERS
        R.ob(ok=ok, key=('writer', q))
        if not ok: R.violation('P-writers', q.replace(T, ''), 'writes the cursor of an input (%s) but is not one of the position primitives: a position written here is not a function of the consumed prefix' % ', '.join(sorted(v)), key=('writer', q))
        if ok and q in WRITER_KINDS and not set(v) <= WRITER_KINDS[q][0]:
            kinds['writer-kind'] += 1
            R.ob(ok=False, key=('writer-kind', q))
            R.violation('P-writers', q.replace(T, ''), 'writes %s; it may write %s' % (', '.join(sorted(set(v) - WRITER_KINDS[q][0])), WRITER_KINDS[q][1]), key=('writer-kind', q))
    for q in sorted(callers):
        if q.startswith('reset:'):
            kinds['restore-caller'] += 1
            R.ob(ok=False, key=('reset', q))
            R.violation('P-writers', re.sub(r'<.*>', '<>', q[6:]).replace(T, ''), 'a library rule calls the counter-resetting restart( byte, line, column ) of an eagerly tracked input: the position continues from the given (default 0:1:1) counters, not from the consumed prefix; a sub-range is re-entered through restart( rewind guard )', key=('reset', re.sub(r'<.*>', '<>', q)))
            continue
        kinds['restore-caller'] += 1
        ok = q.startswith(RESTORE_CALLERS)
        R.ob(ok=ok, key=('restore', q))
        if not ok: R.violation('P-writers', q.replace(T, '')[:120], 'calls rewind_restore with something that is not a cursor saved by rewind_save() (outside of a rewind guard)', key=('restore', q))
    missing = [q for q in WRITERS if q not in allw]
    if missing: R.broke('expected writers not seen (the table is out of date or the universe lost them): %s' % missing)


SCAN_TARGETS = (T + 'unsigned_rule', T + 'unsigned_rule_with_action', T + 'maximum_rule', T + 'maximum_rule_with_action',     # the signed rules reach the same internal scanners through a nested parse
               
                T + 'http::chunk_size', T + 'http::chunk_data', T + 'raw_string')


def scan_sites(db, u, maxlen):
    """class strings through a hand-written scanner: every position shortcut must skip bytes that are not line endings (of any policy)"""
    from .. import scan
    import time
    fn = db.get(u); t0 = time.time()
    raw = (fn.get('cls') or {}).get('tn') == T + 'raw_string'
    if raw: maxlen += 1
    try:
        parts = scan.byte_partition(db, fn, (10, 13), merge_gaps=raw)
        probs = []; sites = collections.Counter(); n = 0
        # a rule that is handed a number (http::chunk_data: the size read by chunk_size) is run for every value of it up to one more than the length of the string
        sized = [p.get('n') for p in fn.get('params', [])[1:] if (p.get('t') or '').replace('const ', '').strip() in ('unsigned long', 'std::size_t', 'size_t')]
        for w in scan.class_strings(parts, maxlen):
            n += 1
            for extra in ([{sized[0]: k} for k in range(len(w) + 2)] if sized else [None]):
                mo = []
                for r in scan.run_on(db, fn, w, oracles=(T + 'internal::accumulate_digit',), extra_args=extra, eol_check={10, 13}, mon_out=mo):
                    for v in r[4]:
                        if v[0] == 'S-eol': probs.append((v[2], '%s on input %r%s' % (v[1], bytes(w), (' with %s = %d' % list(extra.items())[0]) if extra else '')))
                for k, c in mo[0].sites.items(): sites[k] += c
    except (scan.Budget, scan.Unmodelled) as e:
        return {'broken': str(e)}
    return {'n': n, 'probs': probs[:20], 'sites': dict(sites), 'wall': time.time() - t0, 'classes': len(parts)}


def analyse_scanners(R, kinds, covered, tier):
    from .. import repo_units
    maxlen = 3 if tier == 'quick' else 4
    for unit in (units.INTEGER, units.RAW):
        paths = core.extract(list(unit)); db = core.DB(paths)
        items = []
        for fn in db.order:
            cls = fn.get('cls') or {}
            q = cls.get('tn') or cls.get('q')
            if fn['n'] != 'match' or q not in SCAN_TARGETS or '/tao/pegtl/' not in fn['pat']: continue
            if unit is units.RAW and q == T + 'raw_string' and (eol_of(fn) != 'lf_crlf' or cls.get('s') != T + "raw_string<'[', '=', ']'>"): continue
            items.append(fn['u'])
        for u, res in repo_units.map_items('sa.checks.c06', 'scan_sites', paths, items, extra=(maxlen,)).items():
            fn = db.get(u)
            name = ((fn.get('cls') or {}).get('s') or fn['q']).replace(T, '')[:100]
            if res.get('broken'):
                R.broke('scanner %s: %s' % (name, res['broken'])); continue
            kinds['scanner'] += 1
            if os.environ.get('VERIF_DEBUG'): print(name, res['n'], res['classes'], '%.1fs' % res['wall'])
            for k, c in res['sites'].items(): covered[site_of(k)] += c
            R.ob(ok=not res['probs'], key=('scanner', fn['disp']))
            seen = set()
            for loc, msg in res['probs']:
                site = site_of(loc)
                if site in seen: continue
                seen.add(site)
                R.violation('P-shortcut', site.split(':')[0] + '::' + site.split(':')[1], '%s: %s' % (name, msg), key=('scan', site, name))


def run(tier):
    R = core.Result('C06', tier)
    kinds = collections.Counter(); covered = collections.Counter()
    db = core.DB(core.extract(list(units.POS)))
    analyse_shortcuts(db, R, kinds, covered)
    analyse_bump(db, R, kinds)
    analyse_forward(db, R, kinds, covered)
    analyse_ctors(db, R, kinds)
    analyse_subinputs(db, R, kinds)
    analyse_restart(R, kinds)
    analyse_writers(R, kinds, tier)
    analyse_scanners(R, kinds, covered, tier)
    sites = shortcut_sites()
    R.cov['shortcut_sites'] = len(sites); R.cov['shortcut_sites_covered'] = sorted(set(sites) & set(covered))
    for site in sorted(set(sites) - set(covered)):
        R.broke('the position shortcut at %s (%s) is not reached by any analysed instantiation: it cannot be justified' % (site, sites[site]))
    R.cov['obligations_by_kind'] = dict(kinds)
    for k, fl in (('shortcut', 220), ('bump', 3), ('forward', 55), ('scanner', 12), ('subinput', 2), ('subinput-policy', 4), ('writer', 11), ('ctor', 8), ('restart', 1)):
        if kinds.get(k, 0) < fl: R.broke('only %d %s obligations (floor %d)' % (kinds.get(k, 0), k, fl))
    R.assumptions = ['UTF-16/32 and multi-byte binary rules are outside the statement (documented exclusion); the ICU rules use the general bump()',
                     'single-unit and fixed-string rules are decided exactly for all inputs whose relevant window is 9 bytes; the digit, chunk-size and raw-string scanners on all class strings up to the bound; '
                     'internal::bump and the forwarding functions of the inputs are evaluated for counts 0..6 / 0..3 with symbolic counters and all line-ending patterns; the loops are uniform in the byte index',
                     'backtracking restores whole iterators (rewind guards; P-writers shows nothing else writes the cursor), so histories do not matter']
    return R.finish(
        'Who-may-write inventory of the cursor; exact evaluation of the bump primitives; justification of every position shortcut call site by the byte facts known on the paths that reach it '
        '(exact set analysis for the single-unit, string and end-of-line rules over all five policies, class strings for the hand-written scanners); forwarding structure of the input classes, lazy recomputation, sub-inputs.',
        'one obligation per (rule, policy) / primitive / forwarding function / scanner / writer')
