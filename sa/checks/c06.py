"""C06  Reported positions are a function of the consumed prefix only (DESIGN.md 5/C06).

The position of an eager input is the result of the bump calls made so far; a lazy input recomputes it with internal::bump over
the consumed prefix.  Both are the documented function of the prefix iff

P-bump      internal::bump( it, n, ch ) is the per-byte definition (line+1, column=1 on ch; column+1 otherwise; byte, data += n),
            bump_in_this_line( it, n ) = ( data, byte, column += n ), bump_to_next_line( it, n ) = ( line+1, column=1, data, byte += n )
P-shortcut  every call of bump_in_this_line( n ) happens on a path on which the n bytes skipped are known not to be the end-of-line
            character of the input, and every call of bump_to_next_line( n ) on a path on which the last of the n bytes is that
            character and none of the earlier ones is; decided for every call site in the headers (closed table), over all five
            end-of-line policies, exactly (sa/bits.py) for the single-unit and fixed-string rules and the eol rules, and over class
            strings (sa/scan.py) for the digit, chunk-size and raw-string scanners
P-forward   the input classes forward bump* to the internal functions with their own cursor, the count and Eol::ch; the lazy
            position() bumps a copy of the begin iterator over ( it - begin ) bytes with Eol::ch; byte() of both modes includes the
            initial byte; action inputs and parse errors take the position from the input
P-writers   nothing but the bump functions, constructors, restart, discard and the rewind guards writes the cursor fields"""
import collections, glob, os, re, subprocess, json
from .. import core, units, bits
from ..bits import *
from . import c10

T = 'tao::pegtl::'; TI = T + 'internal::'
EOLCH = {'lf': 10, 'cr': 13, 'crlf': 10, 'lf_crlf': 10, 'cr_crlf': 13}


def eol_of(fn):
    """end-of-line policy of the input type of a match function"""
    for p in fn.get('params', []):
        m = re.search(r'memory_input<tao::pegtl::tracking_mode::eager, tao::pegtl::eol::(\w+)', p.get('t') or '')
        if m: return m.group(1)
    return None


def site_of(loc):
    f, l = loc.split(':')[0:2]
    return os.path.realpath(f).split('/include/tao/pegtl/')[-1] + ':' + l


def shortcut_sites():
    """every textual call of a position shortcut in the headers (the closed table the analyses must cover)"""
    out = {}
    root = os.path.join(core.REPO, 'include', 'tao', 'pegtl')
    for f in sorted(glob.glob(root + '/**/*.hpp', recursive=True)):
        rel = f[len(root) + 1:]
        for i, line in enumerate(open(f), 1):
            code = line.split('//')[0]
            if re.search(r'\bvoid\s+bump_', code): continue
            for m in re.finditer(r'\b(bump_in_this_line|bump_to_next_line)\s*\(', code):
                out['%s:%d' % (rel, i)] = m.group(1)
    return out


def check_effects(sp, it, fn, outs, ch, report, covered):
    """P-shortcut on the bump effects of all paths"""
    lv = lambda k: sp.byname['b%d' % k].level
    for kind, v, s in outs:
        for eff in s.eff:
            if eff[0] != 'bump': continue
            _, n, cn, cond, pos, loc = eff
            covered[site_of(loc)] += 1
            if cn == 'bump' or n.off == 0: continue
            for i in range(n.off):
                is_ch = sp.restrict(lv(pos + i), ((ch, ch),))
                last = (i == n.off - 1)
                if cn == 'bump_in_this_line' or not last:
                    bad = sp.AND(cond, is_ch)
                    if bad is not None:
                        report(loc, '%s( %d ) skips byte %d of %d although it can be the end-of-line character %r: line and column disagree with the definition (and with lazy tracking) on %s' % (
                            cn, n.off, i + 1, n.off, chr(ch), c10.show_tuple(sp, sp.witness(bad))))
                else:
                    bad = sp.DIFF(cond, is_ch)
                    if bad is not None:
                        report(loc, 'bump_to_next_line( %d ) starts a new line although the last byte skipped need not be the end-of-line character %r of this input: on %s' % (
                            n.off, chr(ch), c10.show_tuple(sp, sp.witness(bad))))


def analyse_shortcuts(db, R, kinds, covered):
    for fn in db.order:
        if fn['n'] != 'match' or '/tao/pegtl/' not in fn['pat'] or len(fn.get('params', [])) != 1: continue
        eol = eol_of(fn)
        if eol is None: continue
        cls = fn.get('cls') or {}
        rule = (cls.get('s') or fn['q']).replace(TI, '').replace(T, '').replace('result_on_found::', '')
        ch = EOLCH[eol]
        try:
            sp = c10.space('be'); it = Interp(db, sp)
            st = St(sp.full()); st.env[fn['params'][0]['id']] = Opaque('input')
            outs = outcomes(it, fn, st)
        except (Unmodelled, Blowup) as e:
            R.broke('%s over eol::%s: %s' % (rule, eol, e)); continue
        probs = []
        def report(loc, msg): probs.append((site_of(loc), msg))
        check_effects(sp, it, fn, outs, ch, report, covered)
        kinds['shortcut'] += 1
        R.ob(ok=not probs, key=('shortcut', rule, eol))
        for site, msg in probs:
            R.violation('P-shortcut', site.split(':')[0] + '::' + site.split(':')[1], '%s over eol::%s: %s' % (rule, eol, msg), {'rule': rule, 'eol': eol}, key=('shortcut', site, rule, eol, msg[:60]))
        if not probs and len(R.samples) < 6 and any(e[2] != 'bump' for k, v, s in outs for e in s.eff):
            R.sample({'rule': rule, 'eol': eol, 'paths': len(outs), 'shortcut_calls': sum(1 for k, v, s in outs for e in s.eff if e[0] == 'bump' and e[2] != 'bump')})


def run(tier):
    R = core.Result('C06', tier)
    kinds = collections.Counter(); covered = collections.Counter()
    db = core.DB(core.extract(list(units.POS)))
    analyse_shortcuts(db, R, kinds, covered)
    sites = shortcut_sites()
    R.cov['shortcut_sites'] = len(sites); R.cov['covered'] = dict(covered)
    print(sorted(set(sites) - set(covered)))
    R.cov['obligations_by_kind'] = dict(kinds)
    return R.finish('x', 'y')
