"""C06  Reported positions are a function of the consumed prefix only (DESIGN.md 5/C06).

The position of an eager input is the result of the bump calls made so far; a lazy input recomputes it with internal::bump over
the consumed prefix.  Both are the documented function of the prefix iff

P-bump      internal::bump( it, n, ch ) is the per-byte definition (line+1, column=1 on ch; column+1 otherwise; byte, data += n),
            bump_in_this_line( it, n ) = ( data, byte, column += n ), bump_to_next_line( it, n ) = ( line+1, column=1, data, byte += n )
P-shortcut  every call of bump_in_this_line( n ) happens on a path on which the n bytes skipped are known not to be the end-of-line
            character of the input, and every call of bump_to_next_line( n ) on a path on which the last of the n bytes is that
            character and none of the earlier ones is; decided for every call site in the headers (closed table), over all five
            end-of-line policies, exactly (sa/bits.py) for the single-unit and fixed-string rules and the eol rules, and over class
            strings (sa/scan.py) for the digit, chunk-size and raw-string scanners
P-forward   the input classes forward bump* to the internal functions with their own cursor, the count and Eol::ch; the lazy
            position() bumps a copy of the begin iterator over ( it - begin ) bytes with Eol::ch; byte() of both modes includes the
            initial byte; action inputs and parse errors take the position from the input
P-writers   nothing but the bump functions, constructors, restart, discard and the rewind guards writes the cursor fields"""
import collections, glob, os, re, subprocess, json
from .. import core, units, bits
from ..bits import *
from . import c10

T = 'tao::pegtl::'; TI = T + 'internal::'
EOLCH = {'lf': 10, 'cr': 13, 'crlf': 10, 'lf_crlf': 10, 'cr_crlf': 13}


def eol_of(fn):
    """end-of-line policy of the input type of a match function"""
    for p in fn.get('params', []):
        m = re.search(r'memory_input<tao::pegtl::tracking_mode::eager, tao::pegtl::eol::(\w+)', p.get('t') or '')
        if m: return m.group(1)
    return None


def site_of(loc):
    f, l = loc.split(':')[0:2]
    return os.path.realpath(f).split('/include/tao/pegtl/')[-1] + ':' + l


def shortcut_sites():
    """every textual call of a position shortcut in the headers (the closed table the analyses must cover)"""
    out = {}
    root = os.path.join(core.REPO, 'include', 'tao', 'pegtl')
    for f in sorted(glob.glob(root + '/**/*.hpp', recursive=True)):
        rel = f[len(root) + 1:]
        for i, line in enumerate(open(f), 1):
            code = line.split('//')[0]
            if re.search(r'\bvoid\s+bump_', code): continue
            for m in re.finditer(r'\b(bump_in_this_line|bump_to_next_line)\s*\(', code):
                out['%s:%d' % (rel, i)] = m.group(1)
    return out


def check_effects(sp, it, fn, outs, ch, report, covered):
    """P-shortcut on the bump effects of all paths"""
    lv = lambda k: sp.byname['b%d' % k].level
    for kind, v, s in outs:
        for eff in s.eff:
            if eff[0] != 'bump': continue
            _, n, cn, cond, pos, loc = eff
            covered[site_of(loc)] += 1
            if cn == 'bump' or n.off == 0: continue
            for i in range(n.off):
                is_ch = sp.restrict(lv(pos + i), ((ch, ch),))
                last = (i == n.off - 1)
                if cn == 'bump_in_this_line' or not last:
                    bad = sp.AND(cond, is_ch)
                    if bad is not None:
                        report(loc, '%s( %d ) skips byte %d of %d although it can be the end-of-line character %r: line and column disagree with the definition (and with lazy tracking) on %s' % (
                            cn, n.off, i + 1, n.off, chr(ch), c10.show_tuple(sp, sp.witness(bad))))
                else:
                    bad = sp.DIFF(cond, is_ch)
                    if bad is not None:
                        report(loc, 'bump_to_next_line( %d ) starts a new line although the last byte skipped need not be the end-of-line character %r of this input: on %s' % (
                            n.off, chr(ch), c10.show_tuple(sp, sp.witness(bad))))


def analyse_shortcuts(db, R, kinds, covered):
    for fn in db.order:
        if fn['n'] != 'match' or '/tao/pegtl/' not in fn['pat'] or len(fn.get('params', [])) != 1: continue
        eol = eol_of(fn)
        if eol is None: continue
        from ..exc import walk
        if walk(fn.get('body'), lambda n: n.get('k') == 'call' and n.get('cn') == 'match', []): continue      # combinators: their sub-rules do the consuming
        cls = fn.get('cls') or {}
        if not cls: continue
        rule = (cls.get('s') or fn['q']).replace(TI, '').replace(T, '').replace('result_on_found::', '')
        ch = EOLCH[eol]
        try:
            sp = c10.space('be'); it = Interp(db, sp)
            st = St(sp.full()); st.env[fn['params'][0]['id']] = Opaque('input')
            outs = outcomes(it, fn, st)
        except (Unmodelled, Blowup) as e:
            R.broke('%s over eol::%s: %s' % (rule, eol, e)); continue
        probs = []
        def report(loc, msg): probs.append((site_of(loc), msg))
        check_effects(sp, it, fn, outs, ch, report, covered)
        kinds['shortcut'] += 1
        R.ob(ok=not probs, key=('shortcut', rule, eol))
        for site, msg in probs:
            R.violation('P-shortcut', site.split(':')[0] + '::' + site.split(':')[1], '%s over eol::%s: %s' % (rule, eol, msg), {'rule': rule, 'eol': eol}, key=('shortcut', site, rule, eol, msg[:60]))
        if not probs and len(R.samples) < 6 and any(e[2] != 'bump' for k, v, s in outs for e in s.eff):
            R.sample({'rule': rule, 'eol': eol, 'paths': len(outs), 'shortcut_calls': sum(1 for k, v, s in outs for e in s.eff if e[0] == 'bump' and e[2] != 'bump')})


def check_bump_fn(db, fn):
    """P-bump: the three internal bump functions against the per-byte definition, for counts 0..4, both line-ending characters,
    symbolic initial counters"""
    import itertools
    name = fn['n']; probs = []
    ps = fn['params']
    for ch in (10, 13):
        for count in range(0, 5):
            sp = Space()
            for v in ('L', 'C', 'B'): sp.var(v, 4)
            for k in range(max(count, 1)): sp.var('b%d' % k, 256)
            it = Interp(db, sp)
            st = St(sp.full())
            L, C, B = (Val({sp.byname[v].level: [10 * (i + 1) + x for x in range(4)]}) for i, v in enumerate(('L', 'C', 'B')))
            st.env[ps[0]['id']] = Rec({'data': Ptr('cur', 0), 'byte': B, 'line': L, 'column': C})
            st.env[ps[1]['id']] = Val.const(count)
            if len(ps) > 2: st.env[ps[2]['id']] = Val.const(ch)
            for kind, v, s in outcomes(it, fn, st):
                if kind not in ('fall', 'return'): raise Unmodelled('path ends with ' + kind)
                r = s.env[ps[0]['id']]
                for pat in itertools.product((0, 1), repeat=count):
                    reg = s.cond
                    for k, is_ch in enumerate(pat):
                        x = sp.restrict(sp.byname['b%d' % k].level, ((ch, ch),))
                        reg = sp.AND(reg, x) if is_ch else sp.DIFF(reg, x)
                    if reg is None: continue
                    if name == 'bump':
                        want_line = binop('+', L, Val.const(sum(pat)))
                        last = max([k for k, x in enumerate(pat) if x], default=None)
                        want_col = Val.const(count - last) if last is not None else binop('+', C, Val.const(count))
                    elif name == 'bump_in_this_line':
                        want_line = L; want_col = binop('+', C, Val.const(count))
                    else:
                        want_line = binop('+', L, Val.const(1)); want_col = Val.const(1)
                    want = {'line': want_line, 'column': want_col, 'byte': binop('+', B, Val.const(count))}
                    for f, w in want.items():
                        d = binop('-', r.f[f], w)
                        bad = reg if (d.is_const() and d.off) else (None if d.is_const() else sp.AND(reg, sp.sumset(d.tabs, ((-INF, -1 - d.off), (1 - d.off, INF)))))
                        if bad is not None:
                            probs.append('%s( it, %d%s ) over bytes %s: %s is not %s' % (name, count, ', %r' % chr(ch) if len(ps) > 2 else '', ''.join('E' if x else '.' for x in pat) or '(none)', f,
                                         {'line': 'line + number of line-ending characters', 'column': 'one plus the bytes since the last line-ending character', 'byte': 'byte + count'}[f] if name == 'bump' else 'as defined'))
                    if not (isinstance(r.f['data'], Ptr) and r.f['data'].off == count): probs.append('%s( it, %d ): data is advanced by %s' % (name, count, getattr(r.f['data'], 'off', '?')))
    return sorted(set(probs))[:6]


def loop_shape(fn):
    """internal::bump visits the bytes 0..count-1 in order: for( i = 0; i < count; ++i )"""
    from ..exc import walk
    loops = walk(fn.get('body'), lambda n: n.get('k') in ('For', 'While', 'Do'), [])
    if len(loops) != 1 or loops[0]['k'] != 'For': return ['expected exactly one for loop over the bytes']
    lp = loops[0]; probs = []
    d = (lp.get('init') or {}).get('decls') or []
    if len(d) != 1 or (d[0].get('init') or {}).get('v') != 0: probs.append('the loop does not start at byte 0')
    c = lp.get('cond') or {}
    if not (c.get('k') == 'bin' and c.get('op') == '<' and (c.get('l') or {}).get('k') == 'cast' or (c.get('l') or {}).get('k') == 'ref'): probs.append('the loop condition is not i < count')
    else:
        from ..exc import leaves
        if ('ref', 'count') not in leaves(c.get('r')) or ('ref', 'i') not in leaves(c.get('l')): probs.append('the loop condition is not i < count')
    inc = lp.get('inc') or {}
    if not (inc.get('k') == 'un' and inc.get('op') == '++'): probs.append('the loop does not advance byte by byte')
    return probs


def analyse_bump(db, R, kinds):
    for fn in db.order:
        if fn['q'] not in (TI + 'bump', TI + 'bump_in_this_line', TI + 'bump_to_next_line'): continue
        try:
            probs = check_bump_fn(db, fn)
            if fn['n'] == 'bump': probs += loop_shape(fn)
        except (Unmodelled, Blowup, KeyError) as e:
            R.broke('%s: %s' % (fn['q'], e)); continue
        kinds['bump'] += 1
        R.ob(ok=not probs, key=('bump', fn['n']))
        for p in probs: R.violation('P-bump', 'internal/bump.hpp::' + fn['n'], p, key=('bump', fn['n'], p))


def call_of(fn):
    """the single call statement of a forwarding function"""
    b = fn.get('body') or {}
    ss = [x for x in b.get('s', []) if x.get('k') != 'Null']
    if len(ss) != 1 or ss[0].get('k') != 'Expr' or (ss[0].get('e') or {}).get('k') != 'call': return None
    return ss[0]['e']


def analyse_forward(db, R, kinds, covered):
    """P-forward for memory_input_base< eager > and buffer_input (bump*), memory_input_base< lazy > (pointer advance, position(), byte())"""
    from ..exc import walk, leaves
    for fn in db.order:
        q = fn['q']; cls = (fn.get('cls') or {})
        tn = cls.get('tn') or ''
        if tn not in (TI + 'memory_input_base', T + 'buffer_input') or '/tao/pegtl/' not in fn['pat']: continue
        lazy = 'tracking_mode::lazy' in (cls.get('s') or '')
        m = re.search(r'eol::(\w+)', cls.get('s') or '')
        pol = m.group(1) if m else None
        site = '%s::%s' % ('memory_input.hpp' if 'memory_input' in tn else 'buffer_input.hpp', fn['n'])
        probs = None
        if fn['n'] in ('bump', 'bump_in_this_line', 'bump_to_next_line'):
            probs = []
            if lazy:
                ss = [x for x in (fn.get('body') or {}).get('s', [])]
                e = (ss[0].get('e') if len(ss) == 1 and ss[0].get('k') == 'Expr' else None) or {}
                if not (e.get('k') == 'bin' and e.get('op') == '+=' and (e.get('l') or {}).get('n') == 'm_current' and leaves(e.get('r')) == [('ref', 'in_count')]):
                    probs.append('a lazy input must advance m_current by the count and nothing else')
            else:
                c = call_of(fn)
                if c is None or c.get('cq') != TI + fn['n']: probs.append('does not forward to internal::%s' % fn['n'])
                else:
                    a = c.get('args', [])
                    covered[site_of(c['loc'])] += 1
                    if not a or (a[0].get('n') != 'm_current'): probs.append('the cursor passed on is not m_current')
                    if len(a) < 2 or leaves(a[1]) != [('ref', 'in_count')]: probs.append('the count passed on is not the argument')
                    if fn['n'] == 'bump' and (len(a) < 3 or a[2].get('v') != EOLCH.get(pol)): probs.append('the line-ending character passed on is not Eol::ch of the input (%r)' % (a[2].get('v') if len(a) > 2 else None))
        elif fn['n'] == 'position' and lazy and 'memory_input_base' in tn:
            probs = []
            calls = walk(fn.get('body'), lambda n: n.get('k') == 'call' and n.get('cq') == TI + 'bump', [])
            decls = [d for s2 in walk(fn.get('body'), lambda n: n.get('k') == 'Decl', []) for d in s2.get('decls', [])]
            if len(calls) != 1: probs.append('the lazy position is not computed by one internal::bump')
            else:
                a = calls[0]['args']
                c0 = [d for d in decls if d.get('id') == a[0].get('d')]
                if not c0 or ('member', 'm_begin') not in leaves(c0[0].get('init')): probs.append('the position is not recomputed from a copy of the begin iterator')
                lv = leaves(a[1])
                if not (('ref', 'it') in lv and ('member', 'm_begin') in lv and walk(a[1], lambda n: n.get('k') == 'bin' and n.get('op') == '-', [])): probs.append('the number of bytes bumped is not it - m_begin.data')
                if a[2].get('v') != EOLCH.get(pol): probs.append('the line-ending character is not Eol::ch')
                rets = walk(fn.get('body'), lambda n: n.get('k') == 'Return', [])
                if not rets or ('ref', c0[0]['n'] if c0 else '?') not in leaves(rets[-1].get('e')): probs.append('the returned position is not built from the bumped copy')
        elif fn['n'] == 'byte' and 'memory_input_base' in tn:
            probs = []
            rets = walk(fn.get('body'), lambda n: n.get('k') == 'Return', [])
            lv = leaves(rets[-1].get('e')) if rets else []
            if lazy:
                if ('member', 'byte') not in lv or not walk(rets[-1].get('e'), lambda n: n.get('k') == 'bin' and n.get('op') == '+', []): probs.append('lazy byte() does not add the initial byte of the begin iterator to the distance from the beginning')
            elif ('member', 'byte') not in lv: probs.append('eager byte() is not the tracked byte counter')
        if probs is None: continue
        kinds['forward'] += 1
        R.ob(ok=not probs, key=('forward', fn['disp']))
        for p in probs: R.violation('P-forward', site, '%s: %s' % ((cls.get('s') or '').replace(T, '')[:90], p), key=('forward', site, pol, lazy, p))


def analyse_subinputs(db, R, kinds):
    """P-subinput: a rule that parses a sub-range with a second input (rematch) must start that input with the position counters of
    the main input at that point: the input is constructed from a counter-carrying iterator, and where the main iterator is a plain
    pointer (lazy tracking) the counters come from in.position( it )"""
    from ..exc import walk, leaves
    for fn in db.order:
        if fn['n'] != 'match' or '/tao/pegtl/' not in fn['pat']: continue
        cons = walk(fn.get('body'), lambda n: n.get('k') == 'construct' and (n.get('cq') or '').startswith(T + 'memory_input<'), [])
        if not cons: continue
        rule = ((fn.get('cls') or {}).get('s') or fn['q']).replace(T, '')[:80]
        lazy = 'tracking_mode::lazy' in fn['disp']
        for c in cons:
            probs = []
            cpt = c.get('cpt') or []
            if not cpt or 'inputerator' not in cpt[0]:
                probs.append('the second input is constructed from %s: its byte, line and column start at 0:1:1 instead of the position of the main input' % (cpt[0] if cpt else '?'))
            else:
                a0 = c['args'][0]
                calls = walk(a0, lambda n: n.get('k') == 'call' and n.get('cu') in db.fns, [])
                for cl in calls:
                    g = db.get(cl['cu'])
                    if g is None or g.get('rt', '').startswith('const') or 'inputerator' not in (cl.get('crt') or ''): continue
                    if (cl.get('crt') or '').endswith('&'): continue            # hands the counter-carrying iterator through
                    mk = walk(g.get('body'), lambda n: n.get('k') == 'construct' and (n.get('cq') or '').endswith('inputerator::inputerator') and len(n.get('args', [])) == 4, [])
                    pos = walk(g.get('body'), lambda n: n.get('k') == 'call' and n.get('cn') == 'position', [])
                    if not mk or not pos: probs.append('%s builds the begin iterator without the counters of in.position( it )' % g['q'].replace(T, ''))
                    else:
                        lv = leaves(mk[0])
                        if [x for x in lv if x[0] == 'member'] != [('member', 'byte'), ('member', 'line'), ('member', 'column')]: probs.append('%s does not pass byte, line and column of the position in this order' % g['q'].replace(T, ''))
            kinds['subinput'] += 1
            R.ob(ok=not probs, key=('subinput', fn['disp']))
            for pmsg in probs: R.violation('P-subinput', core.relfile(fn['pat']) + '::' + rule.split('<')[0] + '::match', '%s (%s tracking): %s' % (rule, 'lazy' if lazy else 'eager', pmsg), key=('subinput', rule, lazy, pmsg))


FIELDS = {'data', 'byte', 'line', 'column'}
WRITERS = {   # who may write the cursor of an input or its counters (confirmed by reading; one reason each)
    TI + 'bump': 'the definition', TI + 'bump_in_this_line': 'shortcut (P-bump, P-shortcut)', TI + 'bump_to_next_line': 'shortcut (P-bump, P-shortcut)',
    TI + 'memory_input_base<>::bump': 'lazy tracking: pointer advance', TI + 'memory_input_base<>::bump_in_this_line': 'lazy tracking: pointer advance',
    TI + 'memory_input_base<>::bump_to_next_line': 'lazy tracking: pointer advance', TI + 'memory_input_base<>::restart': 'explicit reset to a given position',
    T + 'memory_input<>::restart': 'reset to the iterator saved by a rewind guard', T + 'memory_input<>::rewind_restore': 'whole-iterator restore by the rewind guard',
    T + 'buffer_input<>::rewind_restore': 'whole-iterator restore by the rewind guard', T + 'buffer_input<>::discard': 'moves the data pointer together with the buffer contents; counters untouched',
}
RESTORE_CALLERS = (TI + 'rewind_guard<',)


def cursor_lhs(l):
    if not isinstance(l, dict): return None
    while l.get('k') == 'cast': l = l['e']
    if l.get('k') == 'member' and l.get('n') in FIELDS and 'inputerator' in ((l.get('b') or {}).get('t') or '').replace('inputerator_t', ''): return 'counter ' + l['n']
    if l.get('k') == 'member' and l.get('n') == 'm_current': return 'm_current'
    if l.get('k') == 'call' and l.get('cn') == 'inputerator': return 'inputerator()'
    t = l.get('t') or ''
    if l.get('k') in ('ref', 'member') and 'internal::inputerator' in t and not t.startswith('const'): return 'iterator ' + str(l.get('n'))
    return None


def restores_saved_state(call, fn):
    """the argument of rewind_restore is a local that was initialised from rewind_save() (a whole earlier cursor of the same input)"""
    from ..exc import walk, leaves
    args = call.get('args') or []
    if len(args) != 1: return False
    a = args[0]
    while a.get('k') == 'cast': a = a['e']
    if a.get('k') != 'ref' or a.get('dk') != 'Var': return False
    for d in [d for s2 in walk(fn.get('body'), lambda n: n.get('k') == 'Decl', []) for d in s2.get('decls', [])]:
        if d.get('id') == a.get('d'):
            return bool(walk(d.get('init'), lambda n: n.get('k') == 'call' and n.get('cn') == 'rewind_save', []))
    return False


def writers_of(path):
    """( {generic function name: [what is written]}, [callers of rewind_restore] ) for one extracted unit"""
    db = core.DB([path])
    found = collections.defaultdict(set); callers = set(); nfn = 0
    def walk(n, fn):
        if isinstance(n, dict):
            k = n.get('k')
            if k == 'bin' and (n['op'] == '=' or (n['op'].endswith('=') and n['op'] not in ('==', '!=', '<=', '>='))):
                w = cursor_lhs(n.get('l'))
                if w: found[fn['q']].add(w + ' ' + n['op'])
            elif k == 'un' and n.get('op') in ('++', '--'):
                w = cursor_lhs(n.get('e'))
                if w: found[fn['q']].add(w + ' ' + n['op'])
            elif k == 'call':
                if n.get('opc') in ('=', '+=', '-=', '++', '--') and n.get('args'):
                    w = cursor_lhs(n['args'][0])
                    if w: found[fn['q']].add(w + ' operator' + n['opc'])
                if n.get('cn') == 'rewind_restore' and not restores_saved_state(n, fn): callers.add(fn['q'])
            for v in n.values(): walk(v, fn)
        elif isinstance(n, list):
            for v in n: walk(v, fn)
    for fn in db.order:
        if '/tao/pegtl/' not in fn['pat'] and 'rewind_restore' not in json.dumps(fn.get('body'))[:0]: pass
        nfn += 1
        walk(fn.get('body'), fn)
    return {re.sub(r'<.*>', '<>', q): sorted(v) for q, v in found.items()}, sorted(callers), nfn


def analyse_writers(R, kinds, tier):
    from .. import repo_units
    paths = core.extract(list(units.INPUTS) + list(units.POS) + list(units.RULES) + list(units.DISPATCH))
    if tier == 'thorough': paths = paths + repo_units.extract_all(R)
    res = repo_units.map_units('sa.checks.c06', 'writers_of', paths)
    allw = collections.defaultdict(set); callers = set(); nfn = 0
    for pth, (w, c, n) in res.items():
        nfn += n
        for q, v in w.items(): allw[q] |= set(v)
        callers |= set(c)
    R.cov['functions_scanned_for_cursor_writes'] = nfn
    for q, v in sorted(allw.items()):
        kinds['writer'] += 1
        ok = q in WRITERS
        R.ob(ok=ok, key=('writer', q))
        if not ok: R.violation('P-writers', q.replace(T, ''), 'writes the cursor of an input (%s) but is not one of the position primitives: a position written here is not a function of the consumed prefix' % ', '.join(sorted(v)), key=('writer', q))
    for q in sorted(callers):
        kinds['restore-caller'] += 1
        ok = q.startswith(RESTORE_CALLERS)
        R.ob(ok=ok, key=('restore', q))
        if not ok: R.violation('P-writers', q.replace(T, '')[:120], 'calls rewind_restore with something that is not a cursor saved by rewind_save() (outside of a rewind guard)', key=('restore', q))
    missing = [q for q in WRITERS if q not in allw]
    if missing: R.broke('expected writers not seen (the table is out of date or the universe lost them): %s' % missing)


SCAN_TARGETS = (T + 'unsigned_rule', T + 'unsigned_rule_with_action', T + 'maximum_rule', T + 'maximum_rule_with_action',     # the signed rules reach the same internal scanners through a nested parse
               
                T + 'http::chunk_size', T + 'raw_string')


def scan_sites(db, u, maxlen):
    """class strings through a hand-written scanner: every position shortcut must skip bytes that are not line endings (of any policy)"""
    from .. import scan
    import time
    fn = db.get(u); t0 = time.time()
    raw = (fn.get('cls') or {}).get('tn') == T + 'raw_string'
    if raw: maxlen += 1
    try:
        parts = scan.byte_partition(db, fn, (10, 13), merge_gaps=raw)
        probs = []; sites = collections.Counter(); n = 0
        for w in scan.class_strings(parts, maxlen):
            n += 1
            mo = []
            for r in scan.run_on(db, fn, w, oracles=(T + 'internal::accumulate_digit',), eol_check={10, 13}, mon_out=mo):
                for v in r[4]:
                    if v[0] == 'S-eol': probs.append((v[2], '%s on input %r' % (v[1], bytes(w))))
            for k, c in mo[0].sites.items(): sites[k] += c
    except (scan.Budget, scan.Unmodelled) as e:
        return {'broken': str(e)}
    return {'n': n, 'probs': probs[:20], 'sites': dict(sites), 'wall': time.time() - t0, 'classes': len(parts)}


def analyse_scanners(R, kinds, covered, tier):
    from .. import repo_units
    maxlen = 3 if tier == 'quick' else 4
    for unit in (units.INTEGER, units.RAW):
        paths = core.extract(list(unit)); db = core.DB(paths)
        items = []
        for fn in db.order:
            cls = fn.get('cls') or {}
            q = cls.get('tn') or cls.get('q')
            if fn['n'] != 'match' or q not in SCAN_TARGETS or '/tao/pegtl/' not in fn['pat']: continue
            if unit is units.RAW and q == T + 'raw_string' and (eol_of(fn) != 'lf_crlf' or cls.get('s') != T + "raw_string<'[', '=', ']'>"): continue
            items.append(fn['u'])
        for u, res in repo_units.map_items('sa.checks.c06', 'scan_sites', paths, items, extra=(maxlen,)).items():
            fn = db.get(u)
            name = ((fn.get('cls') or {}).get('s') or fn['q']).replace(T, '')[:100]
            if res.get('broken'):
                R.broke('scanner %s: %s' % (name, res['broken'])); continue
            kinds['scanner'] += 1
            if os.environ.get('VERIF_DEBUG'): print(name, res['n'], res['classes'], '%.1fs' % res['wall'])
            for k, c in res['sites'].items(): covered[site_of(k)] += c
            R.ob(ok=not res['probs'], key=('scanner', fn['disp']))
            seen = set()
            for loc, msg in res['probs']:
                site = site_of(loc)
                if site in seen: continue
                seen.add(site)
                R.violation('P-shortcut', site.split(':')[0] + '::' + site.split(':')[1], '%s: %s' % (name, msg), key=('scan', site, name))


def run(tier):
    R = core.Result('C06', tier)
    kinds = collections.Counter(); covered = collections.Counter()
    db = core.DB(core.extract(list(units.POS)))
    analyse_shortcuts(db, R, kinds, covered)
    analyse_bump(db, R, kinds)
    analyse_forward(db, R, kinds, covered)
    analyse_subinputs(db, R, kinds)
    analyse_writers(R, kinds, tier)
    analyse_scanners(R, kinds, covered, tier)
    sites = shortcut_sites()
    R.cov['shortcut_sites'] = len(sites); R.cov['shortcut_sites_covered'] = sorted(set(sites) & set(covered))
    for site in sorted(set(sites) - set(covered)):
        R.broke('the position shortcut at %s (%s) is not reached by any analysed instantiation: it cannot be justified' % (site, sites[site]))
    R.cov['obligations_by_kind'] = dict(kinds)
    for k, fl in (('shortcut', 220), ('bump', 3), ('forward', 55), ('scanner', 12), ('subinput', 2), ('writer', 11)):
        if kinds.get(k, 0) < fl: R.broke('only %d %s obligations (floor %d)' % (kinds.get(k, 0), k, fl))
    R.assumptions = ['UTF-16/32 and multi-byte binary rules are outside the statement (documented exclusion); the ICU rules use the general bump()',
                     'single-unit and fixed-string rules are decided exactly for all inputs whose relevant window is 9 bytes; the digit, chunk-size and raw-string scanners on all class strings up to the bound; '
                     'internal::bump is evaluated for counts 0..4 with symbolic counters and its loop shape (i = 0; i < count; ++i) is checked, which gives the per-byte definition for every count',
                     'backtracking restores whole iterators (rewind guards; P-writers shows nothing else writes the cursor), so histories do not matter']
    return R.finish(
        'Who-may-write inventory of the cursor; exact evaluation of the bump primitives; justification of every position shortcut call site by the byte facts known on the paths that reach it '
        '(exact set analysis for the single-unit, string and end-of-line rules over all five policies, class strings for the hand-written scanners); forwarding structure of the input classes, lazy recomputation, sub-inputs.',
        'one obligation per (rule, policy) / primitive / forwarding function / scanner / writer')
