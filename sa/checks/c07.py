"""C07  Parse results do not depend on the input class, buffering or chunking - structural necessary conditions
(DESIGN.md 5/C07):
  (a) every inspection of input bytes by a rule is dominated by an availability test on the same path (B1, B2), and the
      result of size( a ) is never relied upon for more than a bytes (B3) - this is what makes buffer_input::require()
      see every byte a memory input would expose;
  (b) rule code uses only members present in both input families (memory_input, buffer_input), apart from the
      documented memory-only places;
  (c) buffer_input: window arithmetic of require()/discard()/size()/empty()/end()/bump*() (sa/bufinput.py, B6);
  (d) string_input, read_input, mmap_input, file_input, argv_input, istream_input, cstream_input add constructors only."""
import collections
from .. import core, units, bufinput, repo_units
from . import c03
from ..hooks import methods_of

T = 'tao::pegtl::'
INPUTC = (T + 'memory_input', T + 'internal::memory_input_base', T + 'buffer_input')
MEMORY_ONLY = {   # (member, header of the caller): documented memory-input-only places
    ('private_set_end', 'contrib/limit_bytes.hpp'): 'limit_bytes works on memory inputs only (documented)',
    ('end', 'contrib/limit_bytes.hpp'): 'bytes_guard saves the end of a memory input',
    ('begin', 'contrib/limit_bytes.hpp'): 'bytes_guard of a memory input',
    ('restart', 'internal/rematch.hpp'): 'rematch restarts its own memory_input over the matched region',
    ('source', 'internal/rematch.hpp'): 'rematch builds its own memory_input over the matched region',
}
DERIVED = ('string_input', 'read_input', 'mmap_input', 'file_input', 'argv_input', 'istream_input', 'cstream_input')
BUF_FLOOR = 12


def iface_unit(path):
    """members of the input classes called from code outside the input classes: {name: [caller sites]}"""
    db = core.DB([path])
    uses = collections.defaultdict(set)
    def walk(n, fn):
        if isinstance(n, dict):
            if n.get('k') in ('call', 'member') and 'cn' in n:
                cc = n.get('cc') or {}
                if (cc.get('tn') or cc.get('q')) in INPUTC:
                    uses[n['cn']].add((core.relfile(fn['pat']), fn['q'].replace(T, '')[:80]))
            for v in n.values(): walk(v, fn)
        elif isinstance(n, list):
            for v in n: walk(v, fn)
    for fn in db.order:
        cls = (fn.get('cls') or {}).get('tn') or (fn.get('cls') or {}).get('q') or ''
        if cls in INPUTC or 'rewind_guard' in cls or 'action_input' in cls or '/tao/pegtl/' not in fn['pat']: continue
        if fn['q'].startswith(T + 'parse') or cls.startswith(T + 'parse_error') or cls.startswith(T + 'position'): continue
        walk(fn.get('body'), fn)
    return {k: sorted(v) for k, v in uses.items()}


def run(tier):
    R = core.Result('C07', tier)
    # (a) BOUNDS
    paths = core.extract(list(units.RULES) + list(units.ATOMS))
    allp = list(paths)
    if tier == 'thorough':
        allp += repo_units.extract_all(R)
    results = repo_units.map_units('sa.checks.c03', 'analyse_unit', allp)
    seen = set(); fam = collections.Counter()
    for p in allp:
        res = results[p]
        for b in res['broken']: R.broke(b)
        for f in res['fns']:
            if f['disp'] in seen: continue
            seen.add(f['disp']); fam[f['input']] += 1
            reps = [r for r in f['reports'] if r[0] in ('B1', 'B2', 'B3')]
            R.ob(ok=not reps, key=f['disp'])
            for r in reps:
                R.violation(r[0], f['site'], r[1], {'function': f['disp'], 'at': r[2], 'path': r[3]}, key=(r[0], f['site'], r[1].split(' needs')[0]))
    R.cov['bounds_instantiations'] = len(seen); R.cov['by_input_family'] = dict(fam)
    if fam.get('buffer', 0) < 60: R.broke('only %d instantiations over buffer inputs (floor 60)' % fam.get('buffer', 0))
    # (b) common interface
    uses = collections.defaultdict(set)
    for p, u in repo_units.map_units('sa.checks.c07', 'iface_unit', paths).items():
        for k, v in u.items(): uses[k].update(map(tuple, v))
    db = core.DB(core.extract(list(units.INPUTS)))
    mem = buf = None
    for k in db.records:
        if k.startswith(T + 'memory_input<tao::pegtl::tracking_mode::eager') and 'basic_string' in k: mem = methods_of(db, k)
        if k.startswith(T + 'buffer_input<vu::Reader'): buf = methods_of(db, k)
    if not mem or not buf:
        R.broke('records of memory_input / buffer_input not found')
    else:
        R.cov['interface_members_used_by_rules'] = sorted(uses)
        if len(uses) < 10: R.broke('only %d input members seen in rule code (floor 10)' % len(uses))
        for name, sites in sorted(uses.items()):
            for hdr, q in sorted(sites):
                ok = (name in mem and name in buf) or (name, hdr) in MEMORY_ONLY
                R.ob(ok=ok, key=('iface', name, hdr))
                if not ok:
                    R.violation('I1', '%s::%s' % (hdr, q.split('<')[0]), 'rule code calls the input member %s(), which %s does not provide: the rule cannot behave the same on every input class'
                                % (name, 'buffer_input' if name not in buf else 'memory_input'), {'callers': [list(s) for s in sites][:5]}, key=('I1', name, hdr))
    # (c) buffer_input window arithmetic
    nbuf = 0
    for fn in db.order:
        cls = (fn.get('cls') or {}).get('tn')
        if cls != T + 'buffer_input' or '/tao/pegtl/' not in fn['pat']: continue
        n = fn['n']
        try:
            if n.startswith('buffer_'): probs = bufinput.check_accessor(db, fn)
            elif n == 'require': probs = bufinput.check_require(db, fn)
            elif n == 'discard': probs = bufinput.check_discard(db, fn)
            elif n in ('size', 'empty', 'end'): probs = bufinput.check_query(db, fn)
            elif n in ('bump', 'bump_in_this_line', 'bump_to_next_line'): probs = bufinput.check_bump(db, fn)
            else: continue
        except (bufinput.Budget, bufinput.Unmodelled) as e:
            R.broke('buffer_input::%s: %s' % (n, e)); continue
        if probs is None: continue
        nbuf += 1
        R.ob(ok=not probs, key=('buf', fn['disp']))
        for p in probs:
            R.violation('B6', 'buffer_input.hpp::buffer_input::' + n, p, {'function': fn['disp']})
        R.sample({'buffer_input member': n, 'problems': probs})
    R.cov['buffer_input_members_analysed'] = nbuf
    if nbuf < BUF_FLOOR: R.broke('only %d buffer_input members analysed (floor %d)' % (nbuf, BUF_FLOOR))
    # (d) derived input classes
    found = 0
    for k, r in db.records.items():
        base = (r.get('tn') or r.get('q') or '').replace(T, '')
        if base not in DERIVED: continue
        found += 1
        extra = sorted(set(m['n'] for m in r['methods'] if m['n'] not in (base, '~' + base, 'operator=')))
        R.ob(ok=not extra and not r['fields'], key=('derived', k))
        if extra or r['fields']:
            R.violation('I2', '%s.hpp::%s' % (base, base), '%s declares %s beyond its constructors: derived input classes must not change what rules see' % (base, extra + [f['n'] for f in r['fields']]), {'record': k})
    R.cov['derived_input_classes'] = found
    if found < 7: R.broke('only %d of the 7 derived input classes found' % found)
    R.assumptions = ['file-system and stream behaviour (mmap of empty files, page boundaries, fread errors) are not properties of this source and are not decided',
                     'readers honour their contract: write at most `length` bytes, return the number written, zero only at end of input',
                     'the general form of amount adequacy (every read within the requested amount) needs value reasoning and is not decided; the narrow form B3 is']
    return R.finish(
        'Structural necessary conditions of input-class independence: BOUNDS B1-B3 on every rule/peek/eol instantiation over memory and buffer inputs; the set of input members '
        'called from rule code is a subset of what both families provide; symbolic window arithmetic of every buffer_input member (reader length bounded by the current free space, '
        'exits of require(), discard() preserves the window and the counters); derived input classes add constructors only.',
        'one obligation per instantiated function / interface member use / buffer_input member / derived class')
