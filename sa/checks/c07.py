"""C07  Parse results do not depend on the input class, buffering or chunking - structural necessary conditions
(DESIGN.md 5/C07):
  (a) every inspection of input bytes by a rule is dominated by an availability test on the same path (B1, B2), and the
      result of size( a ) is never relied upon for more than a bytes (B3) - this is what makes buffer_input::require()
      see every byte a memory input would expose;
  (b) rule code uses only members present in both input families (memory_input, buffer_input), apart from the
      documented memory-only places;
  (c) buffer_input: window arithmetic of require()/discard()/size()/empty()/end()/bump*() (sa/bufinput.py, B6);
  (d) string_input, read_input, mmap_input, file_input, argv_input, istream_input, cstream_input add constructors only;
  (e) the stdio reader and the mmap holder give an empty input for a zero-length file (under the ISO C / POSIX contracts of fread and mmap);
  (f) single-unit, string, end-of-line and counted rules give the same result whether the input answers size( a ) with min( remaining, a ) or with all it has."""
import collections
from .. import core, units, bufinput, repo_units
from . import c03
from ..hooks import methods_of

T = 'tao::pegtl::'
INPUTC = (T + 'memory_input', T + 'internal::memory_input_base', T + 'buffer_input')
MEMORY_ONLY = {   # (member, header of the caller): documented memory-input-only places
    ('private_set_end', 'contrib/limit_bytes.hpp'): 'limit_bytes works on memory inputs only (documented)',
    ('end', 'contrib/limit_bytes.hpp'): 'bytes_guard saves the end of a memory input',
    ('begin', 'contrib/limit_bytes.hpp'): 'bytes_guard of a memory input',
    ('restart', 'internal/rematch.hpp'): 'rematch restarts its own memory_input over the matched region',
    ('source', 'internal/rematch.hpp'): 'rematch builds its own memory_input over the matched region',
}
DERIVED = ('string_input', 'read_input', 'mmap_input', 'file_input', 'argv_input', 'istream_input', 'cstream_input')
BUF_FLOOR = 12


def iface_unit(path):
    """members of the input classes called from code outside the input classes: {name: [caller sites]}"""
    db = core.DB([path])
    uses = collections.defaultdict(set)
    def walk(n, fn):
        if isinstance(n, dict):
            if n.get('k') in ('call', 'member') and 'cn' in n:
                cc = n.get('cc') or {}
                if (cc.get('tn') or cc.get('q')) in INPUTC:
                    uses[n['cn']].add((core.relfile(fn['pat']), fn['q'].replace(T, '')[:80]))
            for v in n.values(): walk(v, fn)
        elif isinstance(n, list):
            for v in n: walk(v, fn)
    for fn in db.order:
        cls = (fn.get('cls') or {}).get('tn') or (fn.get('cls') or {}).get('q') or ''
        if cls in INPUTC or 'rewind_guard' in cls or 'action_input' in cls or '/tao/pegtl/' not in fn['pat']: continue
        if fn['q'].startswith(T + 'parse') or cls.startswith(T + 'parse_error') or cls.startswith(T + 'position'): continue
        walk(fn.get('body'), fn)
    return {k: sorted(v) for k, v in uses.items()}


def buffering_independence(R):
    """(f) I-buffer: size( a ) of an incremental input may answer anything between min( remaining, a ) and the remaining size.  Every single-unit, string,
    end-of-line and counted rule is evaluated (sa/bits.py) twice over all inputs of the window - with the input answering the least and the most it may -
    and the two partitions into ( result, consumed ) must coincide: a rule whose outcome depends on how much happened to be buffered gives different
    results on buffer_input and memory_input (or with different chunk sizes)."""
    from ..bits import Space, Interp, St, Opaque, Val, outcomes, Unmodelled, Blowup, CAP
    from . import c06, c10
    from ..exc import walk
    db = core.DB(core.extract(list(units.POS)))
    rdb = core.DB(core.extract(list(units.RAW)))
    n = 0
    work = []
    for fn in db.order:
        cls = fn.get('cls') or {}
        if fn['n'] != 'match' or len(fn.get('params', [])) != 1 or c06.eol_of(fn) is None or not cls: continue
        if walk(fn.get('body'), lambda x: x.get('k') == 'call' and x.get('cn') == 'match', []): continue
        work.append((db, fn, None, ''))
    # the hand-written scanners of raw_string that look at the input themselves: the opening bracket (writes the bracket length), the closing bracket (is given it)
    for fn in rdb.order:
        cls = fn.get('cls') or {}
        if fn['n'] != 'match' or len(fn.get('params', [])) != 2 or c06.eol_of(fn) is None: continue
        if cls.get('tn') == T + 'internal::raw_string_open': work.append((rdb, fn, 0, ''))
        elif cls.get('tn') == T + 'internal::at_raw_string_close':
            for k in (2, 3): work.append((rdb, fn, k, ' with a bracket of %d characters' % k))
    nraw = 0
    for db, fn, second, note in work:
        cls = fn.get('cls') or {}
        rule = (cls.get('s') or '').replace(T, '').replace('internal::', '').replace('result_on_found::', '') + note
        nraw += second is not None
        parts = []
        try:
            for minimal in (False, True):
                sp = c10.space('be'); it = Interp(db, sp); it.buffer_min = minimal
                st = St(sp.full()); st.env[fn['params'][0]['id']] = Opaque('input')
                if second is not None: st.env[fn['params'][1]['id']] = Val.const(second)
                part = {}
                for kind, v, s in outcomes(it, fn, st):
                    if kind == 'window': k = ('window', 0)
                    elif kind == 'return' and isinstance(v, Val) and v.is_const(): k = (('ok', s.pos) if second is None else ('ok', s.pos, repr(s.env.get(fn['params'][1]['id'])))) if v.off else ('fail', 0)
                    else: raise Unmodelled('path ends with ' + kind)
                    part[k] = sp.OR(part.get(k), s.cond)
                parts.append((sp, part))
        except (Unmodelled, Blowup) as e:
            R.broke('%s over eol::%s: %s' % (rule, c06.eol_of(fn), e)); continue
        (sp, full), (sp2, mini) = parts
        probs = []
        for k1, c1 in full.items():
            for k2, c2 in mini.items():
                if k1 == k2 or 'window' in (k1[0], k2[0]): continue
                # both spaces have the same variables in the same order: tuple sets are directly comparable
                both = sp.AND(c1, c2)
                if both is not None:
                    show = lambda k: 'matches %d byte(s)' % k[1] if k[0] == 'ok' else 'fails'
                    probs.append('on %s the rule %s when the input answers size() with everything it has, but %s when it buffers only what was asked for' % (c10.show_tuple(sp, sp.witness(both)), show(k1), show(k2)))
        n += 1
        R.ob(ok=not probs, key=('buffer', rule, c06.eol_of(fn)))
        for pmsg in probs[:2]:
            R.violation('I-buffer', 'rule %s' % rule, '%s over eol::%s: %s' % (rule, c06.eol_of(fn), pmsg), key=('buffer', rule, c06.eol_of(fn), pmsg[:80]))
    R.cov['buffering_independence_rules'] = n
    if n < 200: R.broke('only %d rules evaluated for buffering independence (floor 200)' % n)
    R.cov['buffering_independence_raw_string_scanners'] = nraw
    if nraw < 10: R.broke('only %d raw string scanners evaluated for buffering independence (floor 10)' % nraw)


def empty_file_paths(db):
    """(e) I-empty: a zero-length file must yield an empty input with every file-based input class, as an empty memory input does.
    The stdio reader and the mmap holder are evaluated (sa/bits.py) over ( file size 0 / positive, outcome of the C library call ) under the
    contracts of ISO C 7.21.8.1 (fread returns 0 when size or nmemb is 0) and POSIX mmap (fails with EINVAL when the length is 0)."""
    from ..bits import Space, Interp, St, Val, Rec, Opaque, Ptr, Agg, Abort, Unmodelled, outcomes
    out = []
    for fn in db.order:
        q = fn['q']
        if q == T + 'internal::read_file_stdio::read_string':
            sp = Space(); sp.var('size', 3); sp.var('ok', 2)
            it = Interp(db, sp)
            state = {'len': None}
            def size_(itp, e, ov, av, st): return iter([(Val({0: [0, 1, 2]}), st)])
            def resize(itp, e, ov, av, st):
                st.env['strlen'] = av[1]; return iter([(Opaque('void'), st)])
            def data(itp, e, ov, av, st):
                if isinstance(ov, Opaque) and ov.tag == 'str0': return iter([(Ptr('buf', 0), st)])
                return None
            def ssize(itp, e, ov, av, st):
                if isinstance(ov, Opaque) and ov.tag == 'str0': return iter([(st.env.get('strlen', Val.const(0)), st)])
                return None
            def fread(itp, e, ov, av, st):
                ln = av[1]
                def g():
                    for z, s1 in itp.compare('==', ln, Val.const(0), st):
                        if z: s1.eff = s1.eff + (('fread', 0),); yield Val.const(0), s1       # ISO C: nothing is read, 0 is returned
                        else:
                            for b, s2 in itp.split(sp.restrict(1, ((1, 1),)), s1):
                                s2.eff = s2.eff + (('fread', 1),); yield Val.const(1 if b else 0), s2
                return g()
            def errno_(itp, e, ov, av, st): return iter([(Ptr('errno', 0), st)])
            it.intercept.update({T + 'internal::read_file_stdio::size': size_, T + 'internal::resize_uninitialized': resize, 'data': data, 'size': ssize, 'fread': fread, '__errno_location': errno_})
            it.construct_hook = lambda e, av=None, st=None: ((e.get('cq') or '').startswith('std::basic_string') if av is None else iter([(Opaque('str0'), st)]))
            st = St(sp.full()); st.env['this'] = Rec({'m_file': Opaque('file'), 'm_path': Opaque('path')})
            try:
                res = outcomes(it, fn, st)
            except Unmodelled as e:
                out.append(('read_file_stdio::read_string', None, str(e))); continue
            probs = []
            zero = sp.restrict(0, ((0, 0),))
            for kind, v, s in res:
                if sp.AND(s.cond, zero) is not None and kind != 'return':
                    probs.append('for a file of size 0 the read ends with %s: read_input raises where memory, mmap and file inputs give an empty input (std::fread( p, 0, 1, f ) returns 0, which is not an error)' % kind)
                pos = sp.AND(s.cond, sp.DIFF(sp.full(), zero))
                if pos is not None and kind == 'return' and not any(e2[0] == 'fread' for e2 in s.eff):
                    probs.append('a non-empty file is returned without reading it')
            out.append(('read_file_stdio::read_string', sorted(set(probs)), None))
        elif q == T + 'internal::mmap_file_posix::mmap_file_posix' and len(fn['params']) == 1 and 'mmap_file_open' in fn['params'][0]['t']:
            sp = Space(); sp.var('size', 3); sp.var('ok', 2)
            it = Interp(db, sp)
            def msize(itp, e, ov, av, st): return iter([(Val({0: [0, 1, 2]}), st)])
            def mmap(itp, e, ov, av, st):
                ln = av[1]
                def g():
                    for z, s1 in itp.compare('==', ln, Val.const(0), st):
                        if z: yield Val.const(-1), s1                                        # POSIX: EINVAL, MAP_FAILED
                        else:
                            for b, s2 in itp.split(sp.restrict(1, ((1, 1),)), s1): yield Val.const(4096 if b else -1), s2
                return g()
            def errno_(itp, e, ov, av, st): return iter([(Ptr('errno', 0), st)])
            it.intercept.update({T + 'internal::mmap_file_open::size': msize, 'mmap': mmap, '__errno_location': errno_})
            st = St(sp.full())
            st.env[fn['params'][0]['id']] = Rec({'m_fd': Val.const(3), 'm_path': Opaque('path')})
            probs = []
            try:
                # member initialisers in order, each seeing the members before it, then the body
                states = [st]; st.env['this'] = Rec({})
                for ini in fn['inits']:
                    nxt = []
                    for s0 in states:
                        for v, s1 in it.ev(ini['e'], s0):
                            if isinstance(v, Abort): raise Unmodelled('initialiser aborts')
                            s1.env['this'] = s1.env['this'].with_(ini['field'], v); nxt.append(s1)
                    states = nxt
                res = [o for s0 in states for o in it.run(fn['body'], s0)]
            except Unmodelled as e:
                out.append(('mmap_file_posix::mmap_file_posix', None, str(e))); continue
            zero = sp.restrict(0, ((0, 0),))
            for kind, v, s in res:
                if sp.AND(s.cond, zero) is not None and kind not in ('fall', 'return'):
                    probs.append('for a file of size 0 the mapping ends with %s: mmap_input / file_input raise where the other input classes give an empty input (mmap of length 0 fails by definition)' % kind)
                okmap = sp.AND(sp.AND(s.cond, sp.DIFF(sp.full(), zero)), sp.restrict(1, ((0, 0),)))
                if okmap is not None and kind in ('fall', 'return'): probs.append('a failed mmap of a non-empty file is not reported')
            out.append(('mmap_file_posix::mmap_file_posix', sorted(set(probs)), None))
    return out


def run(tier):
    R = core.Result('C07', tier)
    # (a) BOUNDS
    paths = core.extract(list(units.RULES) + list(units.ATOMS))
    allp = list(paths)
    if tier == 'thorough':
        allp += repo_units.extract_all(R)
    results = repo_units.map_units('sa.checks.c03', 'analyse_unit', allp)
    seen = set(); fam = collections.Counter()
    for p in allp:
        res = results[p]
        for b in res['broken']: R.broke_at(p, b)
        for f in res['fns']:
            if f['disp'] in seen: continue
            seen.add(f['disp']); fam[f['input']] += 1
            reps = [r for r in f['reports'] if r[0] in ('B1', 'B2', 'B3')]
            R.ob(ok=not reps, key=f['disp'])
            for r in reps:
                R.violation(r[0], f['site'], r[1], {'function': f['disp'], 'at': r[2], 'path': r[3]}, key=(r[0], f['site'], r[1].split(' needs')[0]))
    R.cov['bounds_instantiations'] = len(seen); R.cov['by_input_family'] = dict(fam)
    if fam.get('buffer', 0) < 60: R.broke('only %d instantiations over buffer inputs (floor 60)' % fam.get('buffer', 0))
    # (b) common interface
    uses = collections.defaultdict(set)
    for p, u in repo_units.map_units('sa.checks.c07', 'iface_unit', paths).items():
        for k, v in u.items(): uses[k].update(map(tuple, v))
    db = core.DB(core.extract(list(units.INPUTS)))
    mem = buf = None
    for k in db.records:
        if k.startswith(T + 'memory_input<tao::pegtl::tracking_mode::eager') and 'basic_string' in k: mem = methods_of(db, k)
        if k.startswith(T + 'buffer_input<vu::Reader'): buf = methods_of(db, k)
    if not mem or not buf:
        R.broke('records of memory_input / buffer_input not found')
    else:
        R.cov['interface_members_used_by_rules'] = sorted(uses)
        if len(uses) < 10: R.broke('only %d input members seen in rule code (floor 10)' % len(uses))
        for name, sites in sorted(uses.items()):
            for hdr, q in sorted(sites):
                ok = (name in mem and name in buf) or (name, hdr) in MEMORY_ONLY
                R.ob(ok=ok, key=('iface', name, hdr))
                if not ok:
                    R.violation('I1', '%s::%s' % (hdr, q.split('<')[0]), 'rule code calls the input member %s(), which %s does not provide: the rule cannot behave the same on every input class'
                                % (name, 'buffer_input' if name not in buf else 'memory_input'), {'callers': [list(s) for s in sites][:5]}, key=('I1', name, hdr))
    # (c) buffer_input window arithmetic
    nbuf = 0
    for fn in db.order:
        cls = (fn.get('cls') or {}).get('tn')
        if cls != T + 'buffer_input' or '/tao/pegtl/' not in fn['pat']: continue
        n = fn['n']
        try:
            if n.startswith('buffer_'): probs = bufinput.check_accessor(db, fn)
            elif n == 'require':
                probs = bufinput.check_require(db, fn)
                # and on every small concrete window (buffers of 1..4 bytes): exits, overflow, and what the reader is asked for
                p2, paths2 = bufinput.check_require_concrete(db, fn)
                R.cov['require_concrete_paths'] = R.cov.get('require_concrete_paths', 0) + paths2
                probs = list(probs) + list(p2)
            elif n == 'discard': probs = bufinput.check_discard(db, fn)
            elif n in ('size', 'empty', 'end'): probs = bufinput.check_query(db, fn)
            elif n in ('bump', 'bump_in_this_line', 'bump_to_next_line'): probs = bufinput.check_bump(db, fn)
            else: continue
        except (bufinput.Budget, bufinput.Unmodelled) as e:
            R.broke('buffer_input::%s: %s' % (n, e)); continue
        if probs is None: continue
        nbuf += 1
        R.ob(ok=not probs, key=('buf', fn['disp']))
        for p in probs:
            R.violation('B6', 'buffer_input.hpp::buffer_input::' + n, p, {'function': fn['disp']})
        R.sample({'buffer_input member': n, 'problems': probs})
    R.cov['buffer_input_members_analysed'] = nbuf
    if nbuf < BUF_FLOOR: R.broke('only %d buffer_input members analysed (floor %d)' % (nbuf, BUF_FLOOR))
    # (d) derived input classes
    found = 0
    for k, r in db.records.items():
        base = (r.get('tn') or r.get('q') or '').replace(T, '')
        if base not in DERIVED: continue
        found += 1
        extra = sorted(set(m['n'] for m in r['methods'] if m['n'] not in (base, '~' + base, 'operator=')))
        R.ob(ok=not extra and not r['fields'], key=('derived', k))
        if extra or r['fields']:
            R.violation('I2', '%s.hpp::%s' % (base, base), '%s declares %s beyond its constructors: derived input classes must not change what rules see' % (base, extra + [f['n'] for f in r['fields']]), {'record': k})
    R.cov['derived_input_classes'] = found
    # (e) empty files
    ne = 0
    for name, probs, broken in empty_file_paths(db):
        if broken is not None:
            R.broke('%s: %s' % (name, broken)); continue
        ne += 1
        R.ob(ok=not probs, key=('empty', name))
        for pmsg in probs: R.violation('I-empty', 'internal/%s' % name.replace('::', '.hpp::', 1), pmsg, key=('empty', name, pmsg))
    if ne < 2: R.broke('only %d of the two file readers analysed for empty files' % ne)
    # (f) buffering independence
    buffering_independence(R)
    if found < 7: R.broke('only %d of the 7 derived input classes found' % found)
    R.assumptions = ['file-system and stream behaviour beyond the stated C library contracts (fread of zero bytes returns 0; mmap of length 0 fails) is not a property of this source and is not decided',
                     'readers honour their contract: write at most `length` bytes, return the number written, zero only at end of input',
                     'the general form of amount adequacy (every read within the requested amount) needs value reasoning and is not decided; the narrow form B3 is']
    return R.finish(
        'Structural necessary conditions of input-class independence: BOUNDS B1-B3 on every rule/peek/eol instantiation over memory and buffer inputs; the set of input members '
        'called from rule code is a subset of what both families provide; symbolic window arithmetic of every buffer_input member (reader length bounded by the current free space, '
        'exits of require(), discard() preserves the window and the counters); derived input classes add constructors only.',
        'one obligation per instantiated function / interface member use / buffer_input member / derived class')
