"""C13  State and action switching is scoped to the rule it is attached to (DESIGN.md 4.2, 5/C13)."""
from .. import core, units, frame, rewind, repo_units
from ..mon_base import is_match_root, fn_mode, fn_apply_mode, is_input_type
from ..hooks import methods_of

T = 'tao::pegtl::'; I = 'tao::pegtl::internal::'
SCOPE_CLASSES = {
    I + 'state', T + 'change_state', T + 'change_states', T + 'change_action_and_state', T + 'change_action_and_states', T + 'add_state',
    T + 'instantiate', T + 'change_action', T + 'change_control', T + 'enable_action', T + 'disable_action', T + 'limit_bytes', T + 'limit_depth', T + 'check_bytes',
    T + 'discard_input', T + 'discard_input_on_success', T + 'discard_input_on_failure', T + 'control_action',
    I + 'action', I + 'control', I + 'enable', I + 'disable', T + 'normal',
}
REQUIRED = {I + 'state', T + 'change_state', T + 'change_states', T + 'change_action_and_state', T + 'change_action_and_states',
            T + 'change_action', T + 'change_control', T + 'enable_action', T + 'disable_action', I + 'action', I + 'control', I + 'enable', I + 'disable'}


def site_of(fn):
    cls = fn.get('cls') or {}
    q = (cls.get('tn') or cls.get('q') or '')
    return '%s::%s::%s' % (core.relfile(fn['pat']), q.replace(T, ''), fn['n'])


def analyse_unit(path, classes):
    db = core.DB([path])
    an = rewind.Analyzer(db)
    out = {'fns': [], 'broken': []}
    classes = set(classes)
    for fn in db.order:
        if not is_match_root(fn) or '/tao/pegtl/' not in fn['pat']: continue
        tn, ca = frame.class_targs(fn)
        if tn not in classes: continue
        if not is_input_type(fn['params'][0]['t']): continue    # helper overloads (index_sequence first) are analysed inlined in their caller
        try:
            probs, ncalls, rows = frame.check_fn(db, fn, an)
        except frame.Budget:
            out['broken'].append('step budget exceeded in ' + fn['disp'][:160]); continue
        except frame.Unmodelled as u:
            out['broken'].append('unmodelled construct: %s in %s' % (u, fn['disp'][:160])); continue
        extra = []
        if tn == T + 'normal':
            extra = check_normal_dispatch(db, fn, rows)
        out['fns'].append({'disp': fn['disp'], 'site': site_of(fn), 'tn': tn, 'probs': probs + extra, 'ncalls': ncalls, 'rows': len(rows),
                           'sample': [[str(e) for e in k[0]] + [k[1], k[2]] for k in list(rows)[:3]]})
    return out


def check_normal_dispatch(db, fn, rows):
    """normal< Rule >::match goes to Action< Rule >::match iff that exists"""
    own = frame.targs_of(fn.get('ta'))
    rule = ((fn.get('cls') or {}).get('a') or [{}])[0].get('s')
    if not own['tmpl'] or rule is None: return []
    am = methods_of(db, '%s<%s>' % (own['tmpl'][0], rule))
    if am is None: return []
    has = 'match' in am
    probs = []
    for (evs, kind, val) in rows:
        for e in evs:
            if isinstance(e, tuple) and e[0] == 'call':
                callee = e[4] or ''
                to_action = callee in bases_closure(db, '%s<%s>' % (own['tmpl'][0], rule))
                if has and not to_action: probs.append(('F-dispatch', 'Action< Rule > has a match() but normal< Rule >::match calls %s' % callee))
                if not has and to_action: probs.append(('F-dispatch', 'Action< Rule > has no match() but normal< Rule >::match calls it'))
    return sorted(set(probs))


def bases_closure(db, cls):
    out = set(); todo = [cls]
    while todo:
        c = todo.pop()
        if c in out: continue
        out.add(c)
        todo.extend((db.records.get(c) or {}).get('bases', []))
    return out


def run(tier, prop='C13', classes=SCOPE_CLASSES, required=REQUIRED, explanation=None):
    R = core.Result(prop, tier)
    paths = core.extract(list(units.RULES))
    if tier == 'thorough':
        paths += repo_units.extract_all(R)
    results = repo_units.map_units('sa.checks.c13', 'analyse_unit', paths, extra=(sorted(classes),))
    seen = set(); covered = set(); calls = 0; rows = 0
    for p in paths:
        res = results[p]
        for b in res['broken']: R.broke_at(p, b)
        for f in res['fns']:
            if f['disp'] in seen: continue
            seen.add(f['disp']); covered.add(f['tn']); calls += f['ncalls']; rows += f['rows']
            R.ob(ok=not f['probs'], key=f['disp'])
            for pr in f['probs']:
                R.violation(pr[0], f['site'], pr[1], {'function': f['disp']})
            if len(R.samples) < 8 and f['ncalls']:
                R.sample({'function': f['disp'][:180], 'paths': f['sample']})
    R.cov['instantiations_analysed'] = len(seen); R.cov['boundary_calls_checked'] = calls; R.cov['paths'] = rows; R.cov['states'] = rows
    R.cov['class_templates_covered'] = sorted(c.replace(T, '') for c in covered)
    for c in sorted(set(required) - covered):
        R.broke('no instantiation of %s::match was analysed (anchor vanished or universe incomplete)' % c)
    R.assumptions = ['the sub-rule behind every rule boundary honours the same contract (induction over the grammar)',
                     'state constructors/destructors and success() are opaque user code that may throw']
    return R.finish(explanation or (
        'For every instantiated match() of the state/action/control switching rules and action classes, every path (exceptional ones included) is enumerated and '
        'every rule-boundary call is compared with the caller\'s own frame (apply mode, Action, Control, input, state pack): exactly the documented parameter is '
        'replaced. The new state is an automatic local constructed before the sub-match, is the state argument of the sub-match, and success() is called exactly '
        'once on exactly the paths where the sub-rule matched (and actions are enabled, for the action-based variants) with the outer states; destruction on every '
        'completion follows from automatic storage. normal< Rule >::match dispatches to Action< Rule >::match iff it exists.'),
        'one obligation per instantiated match function of the listed class templates; distinct = distinct instantiations')
