"""C02  A locally failing rule never leaves input consumed.

Decides (static, path-sensitive typestate over the instantiated bodies, see DESIGN.md 4.1):
  R1 every exit that may return false under rewind_mode::required leaves the cursor at its entry position,
  R2 no success on top of an un-rewound failed attempt, R3 no further matching from a DIRTY cursor,
  R4 look-ahead rules leave the cursor at ENTRY on every exit, R5 the same for catch handlers.
for every function with the rule-boundary signature under /repo/include, in both rewind modes."""
import collections
from .. import core, units, rewind
from ..mon_base import is_match_root, fn_mode, fn_apply_mode

LOOKAHEAD = {   # class templates documented as never consuming (doc/Rule-Reference.md)
    'tao::pegtl::internal::at', 'tao::pegtl::internal::not_at', 'tao::pegtl::internal::eof', 'tao::pegtl::internal::bof',
    'tao::pegtl::internal::bol', 'tao::pegtl::internal::success', 'tao::pegtl::internal::failure', 'tao::pegtl::internal::require',
    'tao::pegtl::internal::at_raw_string_close',
}
MODE = {0: 'required', 1: 'optional', None: 'simple(one-argument)'}


def site_of(fn):
    """stable against line shifts and template arguments: header + class template + function name"""
    cls = fn.get('cls') or {}
    q = (cls.get('tn') or cls.get('q') or '')
    q = (q + '::' if q else '') + fn['n'] if q else fn['q']
    return '%s::%s' % (core.relfile(fn['pat']), q.replace('tao::pegtl::', ''))


def run(tier):
    R = core.Result('C02', tier)
    ulist = list(units.RULES)
    paths = core.extract(ulist)
    if tier == 'thorough':
        from .. import repo_units
        paths += repo_units.extract_all(R)
    db = core.DB(paths)
    roots = [f for f in db.order if is_match_root(f) and '/tao/pegtl/' in f['pat']]
    nf, rounds = rewind.compute_never_false(db, roots)
    R.cov['units'] = db.units; R.cov['functions_extracted'] = len(db.fns)
    R.cov['never_false_callees'] = len(nf)
    analysed = collections.defaultdict(set)   # pattern -> set of modes
    steps_total = 0; paths_total = 0
    seen_shapes = set()
    for fn in roots:
        shape = (core.rel(fn['pat']), fn_mode(fn), fn_apply_mode(fn), fn['disp'])
        if shape in seen_shapes: continue
        seen_shapes.add(shape)
        pat = core.rel(fn['pat'])
        try:
            res, reps, steps = rewind.analyse(db, fn, nf)
        except rewind.Budget:
            R.broke('step budget exceeded in %s (%s)' % (fn['disp'][:160], pat)); continue
        except rewind.Unmodelled as u:
            R.broke('unmodelled construct: %s in %s' % (u, fn['disp'][:160])); continue
        if not res:
            R.broke('no completed path through %s' % fn['disp'][:160]); continue
        steps_total += steps; paths_total += sum(res.values())
        analysed[pat].add(fn_mode(fn))
        mode = fn_mode(fn)
        # R4 look-ahead
        cls = (fn.get('cls') or {}).get('tn') or (fn.get('cls') or {}).get('q')
        if cls in LOOKAHEAD:
            for (kind, val, pos), n in res.items():
                if kind == 'return' and pos != 'E':
                    reps.append(('R4', 'look-ahead rule returns %s with the cursor %s' % (val, pos), fn['loc'], ()))
        nexit = sum(1 for k in res if k[0] == 'return')
        R.ob(ok=not reps, key=(pat, mode, fn_apply_mode(fn), fn['disp']))
        for r in reps:
            R.violation(r[0], site_of(fn), '%s [mode %s]' % (r[1], MODE[mode]),
                        {'function': fn['disp'], 'pattern': pat, 'at': core.rel(r[2]), 'path': [list(map(str, t)) for t in r[3]][-40:]},
                        key=(r[0], site_of(fn), MODE[mode], r[1]))
        R.sample({'function': fn['disp'][:200], 'pattern': pat, 'mode': MODE[mode], 'exits': {str(k): v for k, v in res.items()}})
    # coverage: every match pattern present in the headers must have been analysed
    inv = [it for it in db.inventory.values() if it['n'] == 'match' and '/tao/pegtl/' in it['loc']]
    missing = []
    for it in inv:
        loc = core.rel(it['loc'])
        if loc.startswith('contrib/icu/'): continue
        if not is_rule_match_pattern(it): continue
        if loc not in analysed: missing.append(loc + ' ' + it['q'])
    R.cov['match_patterns_in_headers'] = len(inv); R.cov['match_patterns_analysed'] = len(analysed)
    R.cov['instantiations_analysed'] = len(seen_shapes); R.cov['abstract_steps'] = steps_total; R.cov['paths'] = paths_total
    for m in sorted(missing):
        R.broke('match pattern present in the headers but not analysed: ' + m)
    if len(analysed) < 90:
        R.broke('only %d match patterns analysed (floor 90)' % len(analysed))
    R.assumptions = ['sub-rules (placeholders, user rules) honour the rewind contract themselves (assume/guarantee induction over the grammar)',
                     'primitive transfer functions of bump/bump_in_this_line/bump_to_next_line: advance by n']
    return R.finish(
        'Path-sensitive cursor typestate (ENTRY/ADVANCED/DIRTY) over every instantiated function with the rule-boundary signature; '
        'sub-rules are oracles that may succeed (consuming or not), fail (rewound iff called with rewind_mode::required) or throw; '
        'guards and inputs are interpreted from their own bodies. Obligations R1-R5 per (pattern, rewind mode, apply mode, arity).',
        'one obligation per distinct instantiation shape (pattern, modes, template arguments); non-trivial = has at least one exit')


def is_rule_match_pattern(it):
    pt = it.get('pt', [])
    return any(p.startswith('type-parameter') and p.endswith('&') and not p.endswith('&&') and not p.endswith('&&...') for p in pt[:2]) or \
        any('ParseInput' in p for p in pt[:2])
