"""C02  A locally failing rule never leaves input consumed.

Decides (static, path-sensitive typestate over the instantiated bodies, see DESIGN.md 4.1):
  R1 every exit that may return false under rewind_mode::required leaves the cursor at its entry position,
  R2 no success on top of an un-rewound failed attempt, R3 no further matching from a DIRTY cursor,
  R4 look-ahead rules leave the cursor at ENTRY on every exit, R5 the same for catch handlers.
for every function with the rule-boundary signature under /repo/include, in both rewind modes."""
import collections
from .. import core, units, rewind, repo_units
from ..mon_base import is_match_root, fn_mode, fn_apply_mode

LOOKAHEAD = {   # class templates documented as never consuming (doc/Rule-Reference.md)
    'tao::pegtl::internal::at', 'tao::pegtl::internal::not_at', 'tao::pegtl::internal::eof', 'tao::pegtl::internal::bof',
    'tao::pegtl::internal::bol', 'tao::pegtl::internal::success', 'tao::pegtl::internal::failure', 'tao::pegtl::internal::require',
    'tao::pegtl::internal::at_raw_string_close',
}
MODE = {0: 'required', 1: 'optional', None: 'simple(one-argument)'}


def site_of(fn):
    """stable against line shifts and template arguments: header + class template + function name"""
    cls = fn.get('cls') or {}
    q = (cls.get('tn') or cls.get('q') or '')
    q = (q + '::' if q else '') + fn['n'] if q else fn['q']
    return '%s::%s' % (core.relfile(fn['pat']), q.replace('tao::pegtl::', ''))


def analyse_unit(path):
    """one extracted unit -> serialisable per-instantiation results (runs in a worker process)"""
    db = core.DB([path])
    roots = [f for f in db.order if is_match_root(f) and '/tao/pegtl/' in f['pat']]
    an = rewind.Analyzer(db)
    out = {'fns': [], 'broken': [], 'inv': [], 'functions_extracted': len(db.fns)}
    seen = set()
    for fn in roots:
        shape = (core.rel(fn['pat']), fn_mode(fn), fn_apply_mode(fn), fn['disp'])
        if shape in seen: continue
        seen.add(shape)
        pat = core.rel(fn['pat'])
        res, reps, steps = an.get(fn)
        if res == 'budget':
            out['broken'].append('step budget exceeded in %s (%s)' % (fn['disp'][:160], pat)); continue
        if res == 'unmodelled':
            out['broken'].append('unmodelled construct: %s in %s' % (reps, fn['disp'][:160])); continue
        reps = list(reps)
        if not res:
            out['broken'].append('no completed path through %s' % fn['disp'][:160]); continue
        cls = (fn.get('cls') or {}).get('tn') or (fn.get('cls') or {}).get('q')
        if cls in LOOKAHEAD:
            for (kind, val, pos), n in res.items():
                if kind == 'return' and pos != 'E':
                    reps.append(('R4', 'look-ahead rule returns %s with the cursor %s' % (val, pos), fn['loc'], ()))
        out['fns'].append({'shape': shape, 'pat': pat, 'mode': fn_mode(fn), 'amode': fn_apply_mode(fn), 'disp': fn['disp'], 'site': site_of(fn),
                           'steps': steps, 'paths': sum(res.values()), 'exits': {str(k): v for k, v in res.items()},
                           'reports': [(r[0], r[1], core.rel(r[2]), [list(map(str, t)) for t in r[3]][-40:]) for r in reps]})
    for it in db.inventory.values():
        if it['n'] == 'match' and '/tao/pegtl/' in it['loc'] and is_rule_match_pattern(it):
            out['inv'].append((core.rel(it['loc']), it['q']))
    return out


def run(tier):
    R = core.Result('C02', tier)
    paths = core.extract(list(units.RULES))
    if tier == 'thorough':
        paths += repo_units.extract_all(R)
    results = repo_units.map_units('sa.checks.c02', 'analyse_unit', paths)
    analysed = collections.defaultdict(set); inv = {}
    seen_shapes = set(); steps_total = 0; paths_total = 0; nfn = 0
    for path in paths:
        res = results[path]
        nfn += res['functions_extracted']
        for b in res['broken']: R.broke_at(path, b)
        for loc, q in res['inv']: inv[loc] = q
        for f in res['fns']:
            shape = tuple(f['shape'])
            if shape in seen_shapes: continue
            seen_shapes.add(shape)
            analysed[f['pat']].add(f['mode'])
            steps_total += f['steps']; paths_total += f['paths']
            R.ob(ok=not f['reports'], key=shape)
            for r in f['reports']:
                R.violation(r[0], f['site'], '%s [mode %s]' % (r[1], MODE[f['mode']]),
                            {'function': f['disp'], 'pattern': f['pat'], 'at': r[2], 'path': r[3]},
                            key=(r[0], f['site'], MODE[f['mode']], r[1]))
            R.sample({'function': f['disp'][:200], 'pattern': f['pat'], 'mode': MODE[f['mode']], 'exits': f['exits']})
    R.cov['units'] = len(paths); R.cov['functions_extracted'] = nfn
    # coverage: every match pattern present in the headers must have been analysed
    missing = [loc + ' ' + q for loc, q in inv.items() if not loc.startswith('contrib/icu/') and loc not in analysed]
    R.cov['match_patterns_in_headers'] = len(inv); R.cov['match_patterns_analysed'] = len(analysed)
    R.cov['instantiations_analysed'] = len(seen_shapes); R.cov['abstract_steps'] = steps_total; R.cov['paths'] = paths_total
    R.cov['states'] = steps_total
    for m in sorted(missing):
        R.broke('match pattern present in the headers but not analysed: ' + m)
    if len(analysed) < 90:
        R.broke('only %d match patterns analysed (floor 90)' % len(analysed))
    R.assumptions = ['sub-rules (placeholders, user rules) honour the rewind contract themselves (assume/guarantee induction over the grammar)',
                     'primitive transfer functions of bump/bump_in_this_line/bump_to_next_line: advance by n']
    return R.finish(
        'Path-sensitive cursor typestate (ENTRY/ADVANCED/DIRTY) over every instantiated function with the rule-boundary signature; '
        'sub-rules are oracles that may succeed (consuming or not), fail (rewound iff called with rewind_mode::required) or throw; '
        'guards and inputs are interpreted from their own bodies. Obligations R1-R5 per (pattern, rewind mode, apply mode, arity).',
        'one obligation per distinct instantiation shape (pattern, modes, template arguments); non-trivial = has at least one exit')


def is_rule_match_pattern(it):
    pt = it.get('pt', [])
    return any(p.startswith('type-parameter') and p.endswith('&') and not p.endswith('&&') and not p.endswith('&&...') for p in pt[:2]) or \
        any('ParseInput' in p for p in pt[:2])
