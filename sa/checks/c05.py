"""C05  Global failure: identity, position, propagation and conversion of exceptions - structural clauses
(DESIGN.md 5/C05):
  (a) must< R > attempts R (rewind optional) and on failure calls Control< R >::raise( in, st... ) for that R with the cursor
      untouched in between; raise< T > raises T; the must-family reduces to these (EQUIV: raised rule identity);
  (b) normal::raise / raise_nested throw parse_error( message, in ) with message = Rule::error_message if present else
      "parse error matching " + demangle< Rule >(), position taken from the argument; raise_nested nests;
      what() = position + ": " + message; a position streams as source ':' line ':' column;
  (c) the only try/catch sites of the library are the try_catch rules, control_action (rethrows), parse_nested - every
      other combinator lets exceptions pass unchanged (RAII destructors are interpreted by REWIND/HOOKS);
  (d) each try_catch rule catches exactly the exception type it names and returns false / raises nested with the position
      where its match started; the public rules bind parse_error_base / std::exception / void / E as documented;
  (e) a function declared noexcept never raises (must_if::control::failure's conditional noexcept)."""
import collections
from ..exc import walk
from .. import core, units, exc, frame, rewind, repo_units
from ..mon_base import is_match_root
from . import c09

T = 'tao::pegtl::'; I = T + 'internal::'
TRY_WHITELIST = {
    ('parse.hpp', 'tao::pegtl::parse_nested'): 'converts std::exception into a nested parse_error (documented)',
    ('internal/try_catch_raise_nested.hpp', 'match'): 'try_catch_*_raise_nested',
    ('internal/try_catch_return_false.hpp', 'match'): 'try_catch_*_return_false',
    ('contrib/control_action.hpp', 'tao::pegtl::control_action::match'): 'calls Action::unwind and rethrows',
    ('contrib/nested_exceptions.hpp', 'rethrow'): 'helpers that inspect/flatten nested exceptions for the caller of parse(); not on the parsing path',
    ('contrib/nested_exceptions.hpp', 'inspect'): 'same',
    ('contrib/nested_exceptions.hpp', 'flatten'): 'same',
}
PUBLIC_BINDINGS = {   # doc/Rule-Reference.md
    'try_catch_return_false': (I + 'try_catch_return_false', T + 'parse_error_base'),
    'try_catch_raise_nested': (I + 'try_catch_raise_nested', T + 'parse_error_base'),
    'try_catch_any_return_false': (I + 'try_catch_return_false', 'void'),
    'try_catch_any_raise_nested': (I + 'try_catch_raise_nested', 'void'),
    'try_catch_std_return_false': (I + 'try_catch_return_false', 'std::exception'),
    'try_catch_std_raise_nested': (I + 'try_catch_raise_nested', 'std::exception'),
    'try_catch_type_return_false': (I + 'try_catch_return_false', 'vu::Ex'),
    'try_catch_type_raise_nested': (I + 'try_catch_raise_nested', 'vu::Ex'),
}


def site_of(fn):
    cls = fn.get('cls') or {}
    q = (cls.get('tn') or cls.get('q') or '')
    return '%s::%s%s' % (core.relfile(fn['pat']), (q.replace(T, '') + '::') if q else '', fn['n'])


def analyse_unit(path):
    db = core.DB([path]); an = rewind.Analyzer(db)
    out = {'items': [], 'broken': []}
    for fn in db.order:
        if '/tao/pegtl/' not in fn['pat']: continue
        cls = fn.get('cls') or {}; tn = cls.get('tn') or cls.get('q') or ''
        try:
            if fn['n'] == 'match' and tn == I + 'must' and is_match_root(fn):
                out['items'].append(('must', fn['disp'], site_of(fn), exc.check_must(db, fn, an)))
            elif fn['n'] == 'match' and tn == I + 'raise' and is_match_root(fn):
                out['items'].append(('raise-rule', fn['disp'], site_of(fn), exc.check_raise_rule(db, fn, an)))
            elif fn['n'] == 'match' and tn in (I + 'try_catch_return_false', I + 'try_catch_raise_nested') and is_match_root(fn):
                out['items'].append(('try-catch', fn['disp'], site_of(fn), exc.check_try_catch(db, fn, an)))
            elif tn == T + 'normal' and fn['n'] in ('raise', 'raise_nested'):
                out['items'].append(('normal-raise', fn['disp'], site_of(fn), exc.check_normal_raise(db, fn)))
            if fn.get('nothrow') and (fn['n'] in ('match', 'failure', 'success', 'start', 'unwind', 'apply', 'apply0') or is_match_root(fn)) and fn.get('body'):
                th = exc.definite_throws(db, fn)
                out['items'].append(('nothrow', fn['disp'], site_of(fn), ['declared noexcept but raises %s: the process would terminate instead of reporting a parse_error' % sorted(th)] if th else []))
        except (frame.Budget,):
            out['broken'].append('step budget exceeded in ' + fn['disp'][:160])
        except frame.Unmodelled as u:
            out['broken'].append('unmodelled construct: %s in %s' % (u, fn['disp'][:160]))
    pe, found = exc.check_parse_error_base(db)
    out['pe'] = (pe, found, sorted(exc.check_parse_error_base.accessors))
    return out


def _only_read(body, vid, vtype=''):
    """is every mention of the variable a plain read of its value (directly under an lvalue-to-rvalue conversion)?  Anything else - assignment, increment,
    address-of, binding to a reference, a member call - may change it"""
    ok = [True]; seen = [0]
    def visit(n, parent):
        if isinstance(n, dict):
            if n.get('k') == 'ref' and n.get('d') == vid:
                seen[0] += 1
                read = isinstance(parent, dict) and parent.get('k') == 'cast' and parent.get('ck') == 'LValueToRValue'
                # p[ i ] with a pointer variable p reads the pointer (the extractor drops the conversion under a subscript); an array variable is its own storage
                read = read or (isinstance(parent, dict) and parent.get('k') == 'index' and parent.get('b') is n and vtype.rstrip().endswith('*'))
                if not read: ok[0] = False
            for v in n.values(): visit(v, n)
        elif isinstance(n, list):
            for v in n: visit(v, parent)
    visit(body, None)
    return ok[0]


def static_state_unit(path):
    """function-local variables with static or thread storage that can change after their initialisation, per function of one unit: not const, and
    mentioned other than by reading their value (a `static const char* digits = "..."` that is only read is a constant in all but its type)"""
    db = core.DB([path])
    out = []
    for fn in db.order:
        for d in [d for s2 in walk(fn.get('body'), lambda n: n.get('k') == 'Decl', []) for d in s2.get('decls', [])]:
            if d.get('static') and not d.get('const') and not _only_read(fn.get('body'), d.get('id'), d.get('t') or ''):
                out.append((fn['q'], d.get('n'), d.get('t'), core.rel(d.get('loc') or ''), '/tao/pegtl/' in fn['pat']))
    return out


def static_state(R, kinds, paths):
    """X-state: no function of the library keeps mutable state in a static or thread_local local variable: error texts, positions and results are functions of the
    arguments (a what() assembled in a reused stream keeps the tail of an earlier, longer message).  Zero instances are expected in the library; a positive
    control in the universe must be found on every run."""
    res = repo_units.map_units('sa.checks.c05', 'static_state_unit', paths)
    found = set(); control = False
    for pth, items in res.items():
        for q, n, t, loc, lib in items:
            if q == 'vu::static_state_control': control = True
            elif lib: found.add((q.split('<')[0], n, t, loc))
    kinds['state'] += 1
    R.ob(ok=not found, key='static-state')
    for q, n, t, loc in sorted(found):
        R.violation('X-state', '%s::%s' % (loc.split(':')[0], q.replace(T, '')), 'keeps state between calls in the %s local `%s` (%s): what it returns is no longer a function of its arguments' % ('static / thread_local', n, t), key=('state', q, n))
    if not control: R.broke('the positive control of the static-state scan (vu::static_state_control) was not found')


def demangle_witnesses(R, kinds):
    """X-name: the default message is "parse error matching " + demangle< Rule >(): demangle must yield the complete type name, also for names that
    contain the characters its implementation searches for.  Compile-time witnesses (static_assert) in universe/w_demangle.cc, type-checked - not
    compiled to code, not run - by the compiler of the build (g++) and by clang; a failed witness is reported by name."""
    import subprocess, re, os
    src = os.path.join(core.VERIF, 'universe', 'w_demangle.cc')
    names = re.findall(r'WC?\( "([^"]+)"', open(src).read())
    for cc in ('g++', 'clang++'):
        try:
            r = subprocess.run([cc, '-std=c++17', '-fsyntax-only', '-I', os.path.join(core.REPO, 'include'), src], capture_output=True, text=True, timeout=300)
        except (OSError, subprocess.TimeoutExpired) as e:
            R.broke('%s cannot check the demangle witnesses: %s' % (cc, e)); continue
        failed = set(re.findall(r'WITNESS ([\w-]+)', r.stderr))
        other = [l for l in r.stderr.splitlines() if 'error' in l and 'WITNESS' not in l and 'static assertion' not in l and 'static_assert' not in l]
        if r.returncode != 0 and not failed:
            R.broke('%s: the witness file does not type-check: %s' % (cc, (other or r.stderr.splitlines() or ['?'])[0][:200])); continue
        literal = [n for n in names if not n.startswith('comp-') and n not in ('int', 'user-rule')]
        if literal and all(n in failed for n in literal) and not any(n.startswith('comp-') for n in failed):
            # every recorded spelling differs but the spelling-independent witnesses hold: this compiler writes type names differently from the recorded ones
            R.broke('%s spells type names differently from the spellings recorded in universe/w_demangle.cc (all literal witnesses fail, the compositional ones hold)' % cc)
            failed -= set(literal)
        for n in names:
            kinds['name'] += 1
            R.ob(ok=n not in failed, key=('name', cc, n))
            if n in failed:
                R.violation('X-name', 'demangle.hpp::demangle', 'with %s, demangle< T >() is not the complete type name for the witness "%s": the default error message "parse error matching ..." names another (truncated) rule' % (cc, n), {'compiler': cc, 'witness': n}, key=('name', cc, n))


def run(tier):
    R = core.Result('C05', tier)
    paths = core.extract(list(units.RULES) + list(units.DISPATCH))
    if tier == 'thorough': paths += repo_units.extract_all(R)
    results = repo_units.map_units('sa.checks.c05', 'analyse_unit', paths)
    kinds = collections.Counter(); seen = set(); pe_found = 0; pe_probs = set(); pe_acc = set()
    for p in paths:
        res = results[p]
        for b in res['broken']: R.broke_at(p, b)
        pe_found += res['pe'][1]; pe_probs |= set(res['pe'][0]); pe_acc |= set(res['pe'][2])
        for kind, disp, site, probs in res['items']:
            if (kind, disp) in seen: continue
            seen.add((kind, disp)); kinds[kind] += 1
            R.ob(ok=not probs, key=(kind, disp))
            for pr in probs: R.violation({'must': 'X-must', 'raise-rule': 'X-raise', 'try-catch': 'X-catch', 'normal-raise': 'X-message', 'nothrow': 'X-noexcept'}[kind], site, pr, {'function': disp})
            if len(R.samples) < 8 and kinds[kind] <= 2: R.sample({'kind': kind, 'function': disp[:200]})
    R.ob(ok=not pe_probs, key='parse_error_base')
    for pr in sorted(pe_probs): R.violation('X-what', 'parse_error_base.hpp / position.hpp', pr)
    if pe_found < 2: R.broke('parse_error_base constructor / operator<<( position ) not found (anchor vanished)')
    if pe_acc != {'message', 'position_string'}: R.broke('parse_error_base::message / position_string not found among the analysed functions (seen: %s)' % sorted(pe_acc))
    # (a) raised rule identity through the must family (EQUIV)
    ep = core.extract(list(units.EQUIV))
    er = repo_units.map_units('sa.checks.c09', 'analyse_unit', ep, extra=(8, ['must', 'if_must', 'if_must_else', 'opt_must', 'star_must', 'list_must']))
    for p in ep:
        for b in er[p]['broken']: R.broke_at(p, b)
        for it in er[p]['items']:
            probs = [q for q in it['problems'] if q[0] == 'E-result' and 'global failure' in q[1]]
            kinds['equiv-raise'] += 1
            R.ob(ok=not probs, key=('equiv', it['rule'], it['mode']))
            for q in probs: R.violation('X-identity', 'rule %s' % it['rule'].replace(T, ''), q[1], {'documented expansion': it['expr'], 'answer history': q[2]}, key=('X-identity', it['rule'], it['mode']))
    # (c) try/catch inventory over every header, (d) public bindings
    adb = core.DB(core.extract(list(units.ALL)))
    ntry = 0
    for it in adb.inventory.values():
        if not it.get('try'): continue
        ntry += 1
        hdr = core.relfile(it['loc']); q = it['q']
        ok = (hdr, q) in TRY_WHITELIST or (hdr, it['n']) in TRY_WHITELIST
        R.ob(ok=ok, key=('try', hdr, q))
        if not ok:
            R.violation('X-try', '%s::%s' % (hdr, q.replace(T, '')), 'a try/catch block outside the exception rules: exceptions may no longer propagate unchanged through this function', {'at': [core.rel(x) for x in it['try']]})
    R.cov['try_sites'] = ntry; R.cov['functions_in_inventory'] = len(adb.inventory)
    if ntry < 6: R.broke('only %d try sites found in the inventory (floor 6)' % ntry)
    nb = 0
    for k, r in adb.records.items():
        name = (r.get('tn') or r.get('q') or '')
        if not name.startswith(T) or name[len(T):] not in PUBLIC_BINDINGS: continue
        nb += 1
        itn, ex_t = PUBLIC_BINDINGS[name[len(T):]]
        base = r['bases'][0] if r.get('bases') else ''
        br = adb.records.get(base) or {}
        got_ex = ((br.get('a') or [{}])[0]).get('s')
        ok = br.get('tn') == itn and got_ex == ex_t
        R.ob(ok=ok, key=('binding', name))
        if not ok:
            R.violation('X-bind', 'rules.hpp::%s' % name[len(T):], 'is bound to %s catching %s, documented: %s catching %s' % ((br.get('tn') or base).replace(T, ''), got_ex, itn.replace(T, ''), ex_t))
    if nb < 8: R.broke('only %d public try_catch rules found (floor 8)' % nb)
    demangle_witnesses(R, kinds)
    static_state(R, kinds, paths + core.extract(list(units.BITS) + list(units.INPUTS)))
    R.cov['obligations_by_kind'] = dict(kinds)
    for k, fl in (('name', 30), ('must', 8), ('raise-rule', 4), ('try-catch', 16), ('normal-raise', 4), ('nothrow', 10), ('equiv-raise', 20)):
        if kinds.get(k, 0) < fl: R.broke('only %d %s obligations (floor %d)' % (kinds.get(k, 0), k, fl))
    R.assumptions = ['numerical consistency of byte/line/column is C06; copy semantics of foreign exception types are not modelled',
                     'propagation through combinators without handlers relies on C++ semantics plus the RAII behaviour checked by REWIND/HOOKS (destructors interpreted from source)']
    return R.finish(
        'Structural clauses of global failure: path enumeration of must/raise/try_catch bodies with raise events (rule identity, arguments, cursor untouched), EQUIV for the must family, '
        'AST shape of normal::raise/raise_nested, parse_error_base and position streaming, whole-library inventory of try/catch sites against a whitelist, public exception-type bindings, '
        'and noexcept consistency of rule/control code.',
        'one obligation per instantiated function / inventory site / binding')
