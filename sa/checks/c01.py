"""C01  Core PEG operators match exactly as the PEG formalism defines (DESIGN.md 5/C01).

(a) EQUIV of seq, sor, star, plus, opt, at, not_at (arities 1-3, both rewind modes) against the operator definitions of
    the PEG formalism, including the apply mode of every question that succeeds (strict mode);
(b) REWIND R1-R6 on the same bodies and on the atoms (any, one, not_one, range, string, eof, success, failure);
(c) FRAME: A, Action, Control, states forwarded unchanged except at/not_at forcing apply_mode::nothing;
(d) the dispatch chain parse -> normal::match -> match -> match_control_unwind -> match_no_control: the result is the
    rule's (H5/H6), void actions never change it, a vetoing action rewinds (H7), parse() forwards A and M unchanged.
By induction over the grammar this is the statement for all grammars and inputs (partial correctness; termination is C11)."""
import collections
from .. import core, units, equiv, frame, hooks, rewind, repo_units
from ..mon_base import is_match_root, is_input_type, fn_mode
from . import c09

T = 'tao::pegtl::'; I = T + 'internal::'
CORE_CLASSES = {I + 'seq', I + 'sor', I + 'star', I + 'star_partial', I + 'plus', I + 'opt', I + 'partial', I + 'at', I + 'not_at'}
ATOM_CLASSES = {I + 'any', I + 'one', I + 'range', I + 'string', I + 'eof', I + 'success', I + 'failure', I + 'bytes', I + 'istring', I + 'ranges'}


def site_of(fn):
    cls = fn.get('cls') or {}
    q = (cls.get('tn') or cls.get('q') or '')
    return '%s::%s%s' % (core.relfile(fn['pat']), (q.replace(T, '') + '::') if q else '', fn['n'])


def analyse_unit(path):
    db = core.DB([path]); an = rewind.Analyzer(db)
    out = {'items': [], 'broken': []}
    for fn in db.order:
        if '/tao/pegtl/' not in fn['pat']: continue
        tn, ca = frame.class_targs(fn)
        try:
            if fn['q'] == T + 'match':
                tab, mon, viol, steps = hooks.table(db, fn)
                probs, info = hooks.check_dispatch(db, fn, tab, mon)
                probs = [(p[0], p[1]) for p in probs if p[0] in ('H5', 'H6', 'H7', 'H1')]
                out['items'].append(('dispatch', fn['disp'], site_of(fn), probs))
            elif fn['q'] in (T + 'parse',):
                probs, ncalls, rows = frame.check_fn(db, fn, an)
                out['items'].append(('parse', fn['disp'], site_of(fn), probs))
            elif is_match_root(fn) and (tn in CORE_CLASSES or tn in ATOM_CLASSES):
                res, reps, steps = an.get(fn)
                if res == 'budget': out['broken'].append('step budget exceeded in ' + fn['disp'][:160]); continue
                if res == 'unmodelled': out['broken'].append('unmodelled construct: %s in %s' % (reps, fn['disp'][:160])); continue
                probs = [(r[0], r[1]) for r in reps]
                if tn in (I + 'at', I + 'not_at'):
                    for (kind, val, pos), n in res.items():
                        if kind == 'return' and pos != 'E': probs.append(('R4', 'predicate returns %s with the cursor %s' % (val, pos)))
                out['items'].append(('rewind', fn['disp'], site_of(fn), probs))
                if tn in CORE_CLASSES and is_input_type(fn['params'][0]['t']):
                    fp, ncalls, rows = frame.check_fn(db, fn, an)
                    out['items'].append(('frame', fn['disp'], site_of(fn), fp))
        except (frame.Budget,):
            out['broken'].append('step budget exceeded in ' + fn['disp'][:160])
        except frame.Unmodelled as u:
            out['broken'].append('unmodelled construct: %s in %s' % (u, fn['disp'][:160]))
    return out


def run(tier):
    R = core.Result('C01', tier, level='model_checking')
    maxq = 8 if tier == 'quick' else 10
    # (a) EQUIV, strict
    paths = core.extract(list(units.EQUIV))
    results = repo_units.map_units('sa.checks.c09', 'analyse_unit', paths, extra=(maxq, sorted(c09.CLASSICAL)))
    hist = 0; n = 0; covered = set()
    for p in paths:
        res = results[p]
        for b in res['broken']: R.broke_at(p, b)
        for it in res['items']:
            n += 1; hist += it['histories']; covered.add(it['name'])
            R.ob(ok=not it['problems'], key=('equiv', it['rule'], it['mode']))
            for q in it['problems']:
                R.violation(q[0], 'rule %s' % it['rule'].replace(T, ''), '%s [rewind_mode::%s]' % (q[1], 'required' if it['mode'] == 0 else 'optional'),
                            {'definition': it['expr'], 'answer history': q[2]}, key=(q[0], it['rule'], it['mode'], q[1][:120]))
            if len(R.samples) < 5: R.sample({'operator': it['rule'].replace(T, ''), 'definition': it['expr'], 'histories': it['histories']})
    for nm in sorted(c09.CLASSICAL - covered): R.broke('operator %s was not compared' % nm)
    R.cov['operator_instantiations_compared'] = n; R.cov['answer_histories'] = hist; R.cov['max_distinct_questions'] = maxq
    # (b)-(d)
    p2 = core.extract(list(units.RULES) + list(units.DISPATCH) + list(units.ATOMS))
    if tier == 'thorough': p2 += repo_units.extract_all(R)
    r2 = repo_units.map_units('sa.checks.c01', 'analyse_unit', p2)
    kinds = collections.Counter(); seen = set()
    for p in p2:
        res = r2[p]
        for b in res['broken']: R.broke_at(p, b)
        for kind, disp, site, probs in res['items']:
            if (kind, disp) in seen: continue
            seen.add((kind, disp)); kinds[kind] += 1
            R.ob(ok=not probs, key=(kind, disp))
            for pr in probs: R.violation(pr[0], site, pr[1], {'function': disp})
    R.cov['obligations_by_kind'] = dict(kinds); R.cov['states'] = hist; R.cov['transitions'] = hist; R.cov['traces_validated_against_impl'] = hist
    for k, fl in (('dispatch', 60), ('rewind', 150), ('frame', 60), ('parse', 2)):
        if kinds.get(k, 0) < fl: R.broke('only %d %s obligations (floor %d)' % (kinds.get(k, 0), k, fl))
    R.assumptions = ['user-written rules honour the rule contract; sub-rules are functions of the position',
                     'arity <= 3, answer histories bounded by %d distinct questions' % maxq,
                     'partial correctness: non-termination of ill-formed grammars is C11']
    return R.finish(
        'EQUIV of the seven classical operators against the PEG formalism (result, consumed prefix, apply mode of successful sub-matches) + REWIND on operators and atoms + FRAME '
        '(mode/action/control/state forwarding) + dispatch independence (H5-H7) + parse() forwarding; induction over grammar structure.',
        'one obligation per operator instantiation and rewind mode (EQUIV) and per instantiated function (REWIND/FRAME/dispatch)')
