"""C16  raw_string implements Lua long-bracket literals (DESIGN.md 5/C16; engine: sa/scan.py).

The body of raw_string< Open, Marker, Close, Contents... >::match - with raw_string_open, raw_string_until, at_raw_string_close and
the end-of-line rule of the input inlined down to the bytes - is executed abstractly on class strings: the bytes are
partitioned into Open, Marker, Close, '\\n', '\\r' and "any other byte" (the code only tests bytes for equality with these, which
the partition step verifies), and every string over the classes up to the length bound, with the end of input after it, is
explored.  For every class string:
  L-match    the result and the consumed length equal the reference scanner (opening bracket of level n, optional single line
             ending of the input's policy, shortest text up to the first closing bracket of level n, through that bracket;
             local failure without consumption otherwise)
  L-content  the span on which the content rule runs (from the entry of Control< content >::match to the bump over the closing
             bracket) is exactly the text between the brackets without that line ending
  L-bounds   no byte beyond the input is read (cross-check of C03)
for the five end-of-line policies, custom bracket characters, and content sub-rules.  Together with C04 (an action sees exactly the
span its rule matched) this is the statement up to the length bound."""
import collections, itertools
from .. import core, units, scan, repo_units

T = 'tao::pegtl::'
EOLS = {'lf': (b'\n',), 'cr': (b'\r',), 'crlf': (b'\r\n',), 'lf_crlf': (b'\r\n', b'\n'), 'cr_crlf': (b'\r\n', b'\r')}


def eol_len(w, p, pol):
    for e in EOLS[pol]:
        if bytes(w[p:p + len(e)]) == e: return len(e)
    return 0


def reference(w, O, M, C, pol, content=None):
    """-> ('ok', total, content begin, content end) | ('fail',)"""
    n = len(w)
    if n == 0 or w[0] != O: return ('fail',)
    i = 1
    while i < n and w[i] == M: i += 1
    if i >= n or w[i] != O: return ('fail',)
    ms = i + 1
    p = ms + eol_len(w, ms, pol)
    def close_at(q):
        return q + ms <= n and w[q] == C and w[q + ms - 1] == C and all(w[q + 1 + j] == M for j in range(ms - 2))
    q = p
    while not close_at(q):
        if content is None:
            if q >= n: return ('fail',)
            q += 1
        else:
            k = content(w, q)
            if k is None: return ('fail',)
            if k == 0: return ('loop',)
            q += k
    return ('ok', q + ms, p, q)


def not_x(w, q):
    return 1 if q < len(w) and w[q] != 120 else None


def a_opt_eq(w, q):        # seq< one< 'a' >, opt< one< '=' > > >
    if q < len(w) and w[q] == 97: return 2 if q + 1 < len(w) and w[q + 1] == 61 else 1
    return None


VARIANTS = {   # universe alias -> (Open, Marker, Close, content reference, extra class representatives)
    "raw_string<'[', '=', ']'>": (91, 61, 93, None, ()),
    "raw_string<'(', '*', ')'>": (40, 42, 41, None, ()),
    "raw_string<'\\xab', '\\xb7', '\\xbb'>": (0xab, 0xb7, 0xbb, None, ()),      # 8-bit bracket characters: negative as char, 171 / 183 / 187 as bytes
    "raw_string<'[', '=', ']', tao::pegtl::not_one<'x'>>": (91, 61, 93, not_x, (120,)),
    "raw_string<'[', '=', ']', tao::pegtl::one<'a'>, tao::pegtl::opt<tao::pegtl::one<'='>>>": (91, 61, 93, a_opt_eq, (97,)),
}


def pol_of(fn):
    import re
    for p in fn.get('params', []):
        m = re.search(r'memory_input<tao::pegtl::tracking_mode::eager, tao::pegtl::eol::(\w+)', p.get('t') or '')
        if m: return m.group(1)
    return None


def words(reps, maxlen, chunk, nchunks):
    i = 0
    for n in range(0, maxlen + 1):
        for w in itertools.product(reps, repeat=n):
            if i % nchunks == chunk: yield w
            i += 1


def scan_chunk(db, item, nchunks):
    u, chunk, maxlen = item
    fn = db.get(u)
    cls = (fn.get('cls') or {}).get('s', '').replace(T, '', 1)
    if cls not in VARIANTS: return {'broken': 'no reference for %s' % cls}
    O, M, C, content, extra = VARIANTS[cls]
    pol = pol_of(fn)
    try:
        eolbytes = tuple(sorted(set(b for e in EOLS[pol] for b in e)))      # bytes the end-of-line rule of this input can look for
        parts = scan.byte_partition(db, fn, eolbytes + tuple(extra), byte_types=('char', 'unsigned char', 'signed char', 'std::uint8_t', 'uint8_t'), merge_gaps=True)     # whichever way the code reads a byte
    except Exception as e:
        return {'broken': 'partition: %s' % e}
    reps = [lo for lo, hi in parts]
    if not all(x in reps for x in (O, M, C) + eolbytes) or len(reps) > 8: return {'broken': 'unexpected byte partition %r' % (parts,)}
    probs = []; n = 0
    try:
        for w in words(reps, maxlen, chunk, nchunks):
            n += 1
            want = reference(w, O, M, C, pol, content)
            for kind, val, pos, orc, viol, events in scan.run_on(db, fn, w, trace=True):
                for v in viol: probs.append(('L-bounds', '%s on input %r' % (v[1], bytes(w))))
                if kind == 'return' and val is True:
                    got = ('ok', pos)
                    ent = [e for e in events if e[0] == 'enter' and e[1].endswith('::content>')]
                    bumps = [e for e in events if e[0] == 'bump' and '::raw_string<' in e[4] and e[4].endswith('::match') and 'raw_string_' not in e[4]]
                    span = (ent[0][2], bumps[-1][2]) if ent and bumps else None
                elif kind == 'return' and val is False:
                    got = ('fail',); span = None
                    if pos != 0: probs.append(('L-match', 'returns false with %d byte(s) consumed on input %r' % (pos, bytes(w))))
                else:
                    probs.append(('L-match', 'ends with %s on input %r' % (kind, bytes(w)))); continue
                if want[0] == 'loop': continue
                if got[0] != want[0] or (got[0] == 'ok' and got[1] != want[1]):
                    probs.append(('L-match', 'on input %r the rule %s, a long-bracket scanner %s' % (bytes(w), 'matches %d byte(s)' % got[1] if got[0] == 'ok' else 'fails', 'matches %d byte(s)' % want[1] if want[0] == 'ok' else 'fails')))
                elif got[0] == 'ok' and span != (want[2], want[3]):
                    probs.append(('L-content', 'on input %r the content rule runs on bytes %s, the text between the brackets (without the line ending after the opening bracket) is %s' % (bytes(w), span, (want[2], want[3]))))
            if len(probs) > 40: break
    except (scan.Budget, scan.Unmodelled) as e:
        return {'broken': '%s on a string of the chunk' % e}
    return {'n': n, 'probs': probs[:40], 'parts': parts, 'cls': cls, 'pol': pol}


def run(tier):
    R = core.Result('C16', tier)
    paths = core.extract(list(units.RAW)); db = core.DB(paths)
    fns = [fn for fn in db.order if fn['n'] == 'match' and ((fn.get('cls') or {}).get('tn') == T + 'raw_string') and '/tao/pegtl/' in fn['pat'] and pol_of(fn)]
    plain = "raw_string<'[', '=', ']'>"
    def bound(fn):
        # the longest strings for the plain variant with actions enabled; the same code with actions disabled differs in one `if constexpr` at most: shorter bound
        is_plain = (fn.get('cls') or {}).get('s', '').replace(T, '', 1) == plain
        with_actions = bool((fn.get('ta') or [{}])[0].get('v'))
        if is_plain: return {'quick': 6, 'thorough': 8 if with_actions else 6}[tier]
        return {'quick': 4, 'thorough': 6}[tier]
    maxlen = max(bound(fn) for fn in fns) if fns else 0
    nchunks = 8 if tier == 'quick' else 32
    items = [(fn['u'], c, bound(fn)) for fn in fns for c in range(nchunks)]
    res0 = repo_units.map_items('sa.checks.c16', 'scan_chunk', paths, items, extra=(nchunks,))
    res = {(u, c): r for (u, c, b), r in res0.items()}
    strings = 0; kinds = collections.Counter(); seen = set()
    for fn in fns:
        cls = (fn.get('cls') or {}).get('s', '').replace(T, '', 1); pol = pol_of(fn)
        amode = 'apply_mode::action' if (fn.get('ta') or [{}])[0].get('v') else 'apply_mode::nothing'
        probs = []; n = 0; broken = None
        for c in range(nchunks):
            r = res[(fn['u'], c)]
            if r.get('broken'): broken = r['broken']; break
            n += r['n']; probs += r['probs']; parts = r['parts']
        if broken:
            R.broke('%s over eol::%s, %s: %s' % (cls, pol, amode, broken)); continue
        strings += n; kinds['variant'] += 1; kinds[amode] += 1
        R.ob(ok=not probs, key=(cls, pol, amode))
        for rule, msg in probs[:6]:
            R.violation(rule, 'contrib/raw_string.hpp::raw_string::match', '%s over eol::%s, %s: %s' % (cls, pol, amode, msg), {'rule': cls, 'eol': pol, 'apply_mode': amode}, key=(rule, cls, pol, amode, msg))
        if not probs and len(R.samples) < 8: R.sample({'rule': cls, 'eol': pol, 'apply_mode': amode, 'class_strings': n, 'classes': ['%d..%d' % p if p[0] != p[1] else '%d' % p[0] for p in parts]})
    R.cov['class_strings'] = strings; R.cov['max_length'] = maxlen; R.cov['obligations_by_kind'] = dict(kinds)
    if kinds['variant'] < 30: R.broke('only %d (variant, policy, apply mode) triples analysed (floor 30)' % kinds['variant'])
    if kinds['apply_mode::nothing'] < 10: R.broke('only %d instantiations with actions disabled analysed (floor 10)' % kinds['apply_mode::nothing'])
    R.assumptions = ['the statement is decided for all inputs up to the length bound (every class string stands for all strings with the same pattern of bracket, marker, line-ending and other bytes, followed by the end of input); '
                     'longer inputs add no new code paths: the loops of open / until / close are uniform in the position; the plain variant is explored to length %d, the variants with custom characters and content rules to a shorter bound' % maxlen,
                     'what the action receives is the span of the content rule (C04)']
    return R.finish('Abstract execution of raw_string::match with its helper rules inlined, on all class strings up to the length bound, compared with a reference long-bracket scanner; span of the content rule from the traced rule entry and the closing bump.',
                    'one obligation per (raw_string variant, end-of-line policy); every class string of the variant is an evaluation')
