"""C14  The JSON grammar accepts exactly RFC 8259 JSON texts - up to a stated nesting depth (DESIGN.md 3.5, 5/C14).

json::text followed by eof (type graph, PEG semantics) against RFC 8259 + RFC 3629 (classical semantics); both sides are
unfolded to the same array/object nesting depth D (quick: 1, thorough: 2) and compared over *all* byte strings.
"Never throws": no rule type of the grammar belongs to the must/raise/try_catch family and none of the atoms it uses
contains a throw."""
from .. import core, units, typegraph, lang
from ..spec import rfc8259

T = 'tao::pegtl::'; I = T + 'internal::'
RAISING = {I + 'must', I + 'if_must', I + 'raise', I + 'try_catch_raise_nested', I + 'try_catch_return_false'}


def run(tier):
    R = core.Result('C14', tier)
    db = core.DB(core.extract(list(units.GRAMMARS)))
    depths = [1] if tier == 'quick' else [1, 2]
    used = set()
    for d in depths:
        try:
            t = typegraph.Translator(db, depth=d, cut=[T + 'json::array', T + 'json::object'])
            e = t.translate(T + 'json::text')
            r = lang.compare(e, rfc8259.text(d), 'json::text depth<=%d' % d)
        except typegraph.Unsupported as u:
            R.broke('cannot translate json::text: %s' % u); continue
        except lang.TooBig as u:
            R.broke('json::text depth %d: %s' % (d, u)); continue
        used |= t.used
        R.ob(ok=not r['mismatching_columns'], key=('depth', d))
        for w in r['witnesses'][:6]:
            R.violation('LANG', 'contrib/json.hpp::json::text', '%s %r (nesting depth <= %d)' % ('the grammar accepts, RFC 8259 rejects' if w[2] else 'RFC 8259 accepts, the grammar rejects', w[1], d),
                        {'witness': repr(w[1]), 'depth': d}, key=('LANG', d, w[1]))
        R.sample({'depth': d, 'automaton nodes': r['nodes'], 'byte classes': r['classes'], 'columns (all reachable)': r['columns'], 'mismatching columns': r['mismatching_columns']})
        R.cov['states'] = R.cov.get('states', 0) + r['columns']
    R.cov['nesting_depth'] = depths[-1]
    if T + 'json::value' not in used or len(used) < 100: R.broke('only %d rule types translated (floor 100)' % len(used))
    # never throws
    nraise = 0
    for tstr in sorted(used):
        tn = (db.records.get(tstr) or {}).get('tn')
        if tn in RAISING:
            nraise += 1
            R.violation('X-throw', 'contrib/json.hpp', 'the grammar contains %s: a malformed text can end in an exception instead of a local failure' % tstr.replace(T, ''))
    R.ob(ok=not nraise, key='no-raising-rules')
    adb = core.DB(core.extract(list(units.ALL)))
    atoms = {'one', 'range', 'ranges', 'any', 'string', 'istring', 'eof', 'success', 'failure', 'rep', 'rep_min_max', 'until', 'seq', 'sor', 'star', 'plus', 'opt', 'at', 'not_at', 'if_then_else'}
    bad = [(it['q'], core.rel(it['loc'])) for it in adb.inventory.values() if it.get('throw') and (it['q'].split('<')[0].split('::')[-2] if '::' in it['q'] else '') in atoms and it['n'] in ('match', 'peek')]
    bad += [(it['q'], core.rel(it['loc'])) for it in adb.inventory.values() if it.get('throw') and 'peek_utf8' in it['q']]
    R.ob(ok=not bad, key='atoms-do-not-throw')
    for q, loc in bad: R.violation('X-throw', loc, '%s contains a throw' % q)
    R.assumptions = ['nesting depth > D is not decided (same recursion structure on both sides, not proved by induction)',
                     'combinators and atoms mean what C01/C09/C10 establish; RFC 8259/3629 transcribed in sa/spec/rfc8259.py',
                     'memory inputs: buffer_input::require may throw std::overflow_error by design (C07)']
    return R.finish(
        'Language equality over all byte strings between json::text + eof (type graph, PEG semantics) and RFC 8259 with well-formed UTF-8 (classical semantics), both unfolded to nesting depth D; '
        'alternating automaton, right-to-left determinisation, all reachable columns compared.',
        'one obligation per depth (all reachable columns explored) + never-throws clauses',
        trusted=['clang 14 front end (type graph)', 'sa/typegraph.py', 'sa/lang.py', 'sa/spec/rfc8259.py', 'numpy'])
