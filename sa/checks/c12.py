"""C12  The parse tree is exactly the surviving derivation of the selected rules - builder discipline and selection
(DESIGN.md 5/C12).

(A) STACK: handler hooks push/pop exactly one frame; nodes are attached only in success, after the pop, by appending, to the
    frame then on top; spans are stamped by start( in ) / success( in ).  With C08 (start is followed by exactly one of
    success/failure/unwind, nested) the stack height after any run is 1 and no node of a failed or aborted branch stays attached.
(B) selection (witness grammars: chains of 1..12 unselected rules above a selected one, recursion, store_all with internal
    sequences, extra states): the handler instantiated for every rule satisfies
      selected handler  <=>  control enabled for the rule and the selector selects it
      leaf optimisation (no frame)  =>  no selected rule is reachable below the rule at any depth
(C) parse_tree::parse returns the root iff the plain parse returned true; the built-in transformers do what
    doc/Parse-Tree.md says (remove_content, fold_one, discard_empty): effect summary of each transform.
(D) tree building does not depend on actions being enabled: the handlers are control hooks (C08 H5: hooks run for both apply modes)."""
import collections
from .. import core, units, ptree
from ..exc import walk, leaves

T = 'tao::pegtl::'; PT = T + 'parse_tree::'
SELECTED_BY = {          # which rules the witness selectors of universe/u_ptree.cc select (mirrors that file)
    'vu::pt::only_sel': {'vu::pt::sel'},
    'vu::pt::sel_fold': {'vu::pt::sel', 'vu::pt::rec', 'vu::pt::other', 'vu::pt::key'},
    PT + 'internal::store_all': None,     # everything
}


def content_clause(db, R, kinds):
    from ..bits import Space, Interp, St, Rec, Ptr, Val, outcomes, Unmodelled
    hc = [f for f in db.order if f['q'].startswith(PT + 'basic_node<') and f['n'] == 'has_content']
    rc = [f for f in db.order if f['q'].startswith(PT + 'basic_node<') and f['n'] == 'remove_content' and not f['params']]
    if not hc or not rc:
        R.broke('basic_node::has_content / remove_content not instantiated in the universe'); return
    def it_():
        sp = Space(); sp.var('x', 2); it = Interp(db, sp)
        # internal::inputerator(): the default member initialisers of internal/inputerator.hpp (data = nullptr, byte 0, line 1, column 1)
        it.construct_hook = lambda e, av=None, st=None: (((e.get('cq') or '') == T + 'internal::inputerator::inputerator' and not e.get('args')) if av is None
                                                         else iter([(Rec({'data': Ptr('null', 0), 'byte': Val.const(0), 'line': Val.const(1), 'column': Val.const(1)}), st)]))
        return sp, it
    def node(b, e):
        f = lambda p: Rec({'data': p, 'byte': Val.const(0), 'line': Val.const(1), 'column': Val.const(1)})
        return Rec({'m_begin': f(b), 'm_end': f(e)})
    def answer(this):
        sp, it = it_(); st = St(sp.full()); st.env['this'] = this
        out = set()
        for k, v, s in outcomes(it, hc[0], st):
            if k != 'return' or not isinstance(v, Val) or not v.is_const(): raise Unmodelled('has_content ends with %s %r' % (k, v))
            out.add(bool(v.off))
        return out
    probs = []
    try:
        for name, b, e in (('an empty match', Ptr('cur', 0), Ptr('cur', 0)), ('two bytes', Ptr('cur', 0), Ptr('cur', 2)), ('an empty match at offset 3', Ptr('cur', 3), Ptr('cur', 3))):
            if answer(node(b, e)) != {True}: probs.append('a node that spans %s (start and success were called) has no content according to has_content()' % name)
            sp, it = it_(); st = St(sp.full()); st.env['this'] = node(b, e)
            for k, v, s in outcomes(it, rc[0], st):
                if k not in ('fall', 'return'): raise Unmodelled('remove_content ends with ' + k)
                if answer(s.env['this']) != {False}: probs.append('after remove_content() a node that spanned %s still has content according to has_content()' % name)
    except Unmodelled as ex:
        R.broke('basic_node::has_content / remove_content: %s' % ex); return
    kinds['content'] += 1
    R.ob(ok=not probs, key='content')
    for pmsg in sorted(set(probs)): R.violation('T-content', 'contrib/parse_tree.hpp::basic_node::has_content', pmsg, key=('C', pmsg))


SUBS_EXCEPTIONS = {      # rules whose subs_t deliberately lists less than their match() calls (confirmed by reading; one reason each)
    T + 'raw_string': 'subs_t is empty_list on purpose (the alternative is left as a comment in the source): the only rules it calls are raw_string_open (no sub-rules) and its '
                      'own nested rule `content`, whose subs_t lists the close condition and the content rules, so a collecting frame exists wherever nodes can be collected; '
                      'after content succeeded raw_string cannot fail',
}


def subs_vs_calls(R, kinds):
    from ..exc import walk
    from .. import frame
    db = core.DB(core.extract(list(units.RULES)))
    calls = collections.defaultdict(set); sites = {}
    for fn in db.order:
        cls = fn.get('cls') or {}
        rule = cls.get('s')
        if not rule or not rule.startswith(T) or fn['n'] != 'match' or '/tao/pegtl/' not in fn['pat']: continue
        for c in walk(fn.get('body'), lambda n: n.get('k') == 'call' and n.get('cn') == 'match', []):
            cta = c.get('cta') or []
            if len(cta) < 4 or cta[2].get('k') != 'tmpl' or cta[3].get('k') != 'tmpl': continue      # match< A, M, Action, Control >: a rule attempt
            cc = c.get('cc') or {}
            if cc.get('s') == rule: continue                                                         # another overload of its own match
            t = frame.control_rule(cc)
            if not t or t == cc.get('s'): continue                                                   # Rule::match called directly (match_no_control): not through a control
            calls[rule].add(t); sites[(rule, t)] = core.rel(c.get('loc') or '')
    def reach(rule):
        seen = set(); todo = [rule]
        while todo:
            x = todo.pop()
            if x in seen: continue
            seen.add(x); todo.extend(ptree.subs_of(db, x) or [])
        return seen
    for rule, ts in sorted(calls.items()):
        if ptree.subs_of(db, rule) is None: continue          # not a rule (action helpers such as change_action have a match() of another kind)
        S = reach(rule)
        def ok(t, depth=0):
            if t in S: return True
            if not t.startswith(T + 'internal::') or depth > 6: return False
            return all(ok(u, depth + 1) for u in calls.get(t, ()))      # an internal helper that is not listed: what it calls must be
        missing = sorted(t for t in ts if not ok(t))
        tn = (db.records.get(rule) or {}).get('tn') or rule.split('<')[0]
        kinds['subs'] += 1
        if missing and tn in SUBS_EXCEPTIONS:
            kinds['subs-exception'] += 1; missing = []
        R.ob(ok=not missing, key=('subs', rule))
        for t in missing:
            R.violation('T-subs', sites[(rule, t)].rsplit(':', 2)[0] + '::' + tn.replace(T, ''), 'match() of %s attempts %s, which is not found from the rule through subs_t (%s): the parse tree takes the rule for a leaf although selected rules can be reached below it, and keeps the nodes of its failed attempts' % (
                rule.replace(T, '')[:100], t.replace(T, '')[:80], ', '.join(x.replace(T, '') for x in (ptree.subs_of(db, rule) or [])) or 'empty'), {'rule': rule, 'called': t}, key=('S', tn, t.split('<')[0]))


def run(tier):
    R = core.Result('C12', tier)
    db = core.DB(core.extract(list(units.PTREE)))
    kinds = collections.Counter()
    # (A)
    fwd = {}
    for fn in db.order:
        cls = fn.get('cls') or {}
        if not (cls.get('tn') or '').endswith('>::state_handler') or fn['n'] not in ('start', 'success', 'failure', 'unwind') or '/tao/pegtl/' not in fn['pat']: continue
        a = cls['a']; sel = bool(a[1]['v']); leaf = bool(a[2]['v'])
        try:
            probs = ptree.check_hook(db, fn, sel, leaf)
            fwd.setdefault((cls.get('s') or '', sel, leaf), {}).setdefault(fn['n'], set()).update(ptree.check_hook.forwards)
        except (ptree.Budget, ptree.Unmodelled) as e:
            R.broke('handler hook %s: %s' % (fn['disp'][:120], e)); continue
        kinds['hook'] += 1
        R.ob(ok=not probs, key=fn['disp'])
        for p in probs:
            R.violation('T-stack', 'contrib/parse_tree.hpp::make_control::state_handler<%s, %s>::%s' % ('true' if sel else 'false', 'B' if sel else ('true' if leaf else 'false'), fn['n']), p, {'function': fn['disp']}, key=('T', sel, leaf, fn['n'], p))
    # (A') what the handlers owe the control they wrap (C08 seen from a control passed to parse_tree::parse): a handler that tells the wrapped control
    # of the start of an attempt tells it of the end on every way out - success, failure, and unwind when the control provides unwind (of the
    # universe's controls only vu::pt::ctl_uw does) -, exactly once; a handler that keeps the start to itself keeps the ends to itself
    for (hs, sel, leaf), hooks in sorted(fwd.items()):
        if 'start' not in hooks: continue
        site = 'contrib/parse_tree.hpp::make_control::state_handler<%s, %s>' % ('true' if sel else 'false', 'B' if sel else ('true' if leaf else 'false'))
        has_uw = 'vu::pt::ctl_uw' in hs
        tells = hooks['start'] == {('start',)}
        probs = []
        if not tells and hooks['start'] != {()}:
            probs.append('start calls %s of the wrapped control on different paths, expected one start on all or on none' % sorted(hooks['start']))
        for h in ('success', 'failure', 'unwind'):
            if h not in hooks: continue
            want = {(h,)} if tells and (h != 'unwind' or has_uw) else {()}
            kinds['forward'] += 1; kinds['forward-unwind'] += (h == 'unwind' and has_uw and tells)
            if hooks[h] != want:
                show = lambda ss: ' / '.join(sorted(('+'.join(x) or 'no hook') for x in ss))
                probs.append('%s calls [%s] of the wrapped control but start calls [%s]%s: the control passed to parse_tree::parse sees %s' % (
                    h, show(hooks[h]), show(hooks['start']), ' and the control provides unwind' if h == 'unwind' and has_uw else '',
                    'a start that nothing ends' if tells else 'an end without a start'))
        R.ob(ok=not probs, key=('forward', hs))
        for p in probs: R.violation('T-forward', site, p, {'handler': hs}, key=('F', sel, leaf, p))
    # (A'') the way into a rule attempt: under the tree-building control every attempt of a rule is entered through Control< Rule >::match, whatever function
    # that name resolves to for the rule's handler (today normal< Rule >::match, inherited).  That function is enumerated like the central dispatch (C08 H1-H7)
    # with the handler's own hooks as events: a handler with control enabled sees the start of every attempt - a way in that skips the frame for some modes leaves
    # what the sub-rules collected in the frame of the caller, also when the attempt fails under a not_at
    from .. import hooks
    from ..exc import walk
    hmap = {(mc, rule): key for mc, rule, S, L, key in ptree.handlers(db)}
    entries = {}
    for fn in db.order:
        for c in walk(fn.get('body'), lambda n: n.get('k') == 'call' and n.get('cn') == 'match', []):
            cta = c.get('cta') or []
            if len(cta) < 4 or not (cta[3].get('s') or '').endswith('>::type') or 'parse_tree::internal::make_control<' not in cta[3]['s']: continue
            cc = c.get('cc') or {}
            rule = (cc.get('a') or [{}])[0].get('s')
            callee = db.get(c.get('cu'))
            if callee is None or callee.get('body') is None or rule is None: continue
            entries.setdefault(callee['id'] if 'id' in callee else c.get('cu'), (callee, rule, cta[3]['s'][:-len('::type')]))
    for cu, (callee, rule, mc) in sorted(entries.items(), key=lambda kv: kv[1][0]['disp']):
        hk = hmap.get((mc, rule))
        if hk is None: continue          # a rule for which no handler was instantiated: nothing is known about its control
        closure = ptree.bases_closure(db, hk)
        if (callee.get('cls') or {}).get('s') not in closure: continue      # Rule::match of a rule, not the match of its control
        en = ptree.const_of(db, hk, 'enable')
        # en is None: the initialiser of enable was never instantiated for this handler (nothing in the unit reads it): the forced form of H1 is not applied to it;
        # the floor on 'entry-enabled' below keeps the clause from going vacuous
        try:
            out, mon, viol, steps = hooks.table(db, callee, linked=lambda e, cq: cq == T + 'match' or ((e.get('cc') or {}).get('s') in closure))     # the central dispatch and the match of the wrapped control are part of the way in: inlined
        except (hooks.Budget, hooks.Unmodelled) as e:
            R.broke('entry %s: %s' % (callee['disp'][:160], e)); continue
        view = dict(callee); view['ta'] = [{'s': rule}] + list(callee.get('ta') or [])
        if len(view['ta']) < 5 or not out:
            R.broke('entry %s: %s' % (callee['disp'][:160], 'no completed path' if not out else 'unexpected template arguments')); continue
        probs, info = hooks.check_dispatch(db, view, out, mon, enabled_by_class=(None if en is None else bool(en)))
        kinds['entry'] += 1; kinds['entry-enabled'] += bool(en)
        # H4 (unwind) is decided on the central dispatch by C08 and for the handlers by (A'): has_unwind of a handler is a SFINAE fact this table does not see
        probs = [pr for pr in probs if pr[0] != 'H4']
        R.ob(ok=not probs, key=('entry', callee['disp']))
        for pr in probs:
            what = 'apply_mode::%s rewind_mode::%s' % ('action' if info['A'] else 'nothing', 'required' if info['M'] == 0 else 'optional')
            R.violation('T-entry', core.rel(callee.get('pat') or '').split(':')[0] + '::' + callee['q'].split('<')[0].replace(T, '') + '::match', '%s [%s, handler %s]' % (pr[1], what, hk.split('::state_handler')[-1]), {'function': callee['disp'], 'row': pr[2]}, key=('E', pr[1], what, hk.split('::state_handler')[-1].split(',', 1)[-1]))
    # (A3) the leaf optimisation and the selection read Rule::subs_t; it is only as good as subs_t is complete: every rule whose match() a rule's match()
    # reaches through Control< T >::match is found from the rule through subs_t (transitively), possibly through internal helper rules that are not
    # themselves listed.  Sibling cross-check of two descriptions of the same thing: the call graph of the instantiated bodies and the meta data.
    subs_vs_calls(R, kinds)
    # (B)
    for mc, rule, S, L, key in ptree.handlers(db):
        selname = None
        for k in SELECTED_BY:
            if (', ' + k + ',') in mc or mc.endswith(k + '>') or (k + ', ') in mc: selname = k
        if selname is None:
            R.broke('unknown selector in ' + mc[:160]); continue
        sel_set = SELECTED_BY[selname]
        en = ptree.control_enabled(db, rule)
        if en is None:
            R.broke('normal< %s > not recorded' % rule); continue
        def is_sel(x):
            e2 = ptree.control_enabled(db, x)
            return bool(e2) and (sel_set is None or x in sel_set)
        want_S = is_sel(rule)
        kinds['handler'] += 1
        probs = []
        if S != want_S:
            probs.append('rule %s gets the %s handler although control is %s for it and the selector %s it' % (rule.replace(T, ''), 'selected' if S else 'unselected', 'enabled' if en else 'disabled', 'selects' if (sel_set is None or rule in sel_set) else 'does not select'))
        if not S and L:
            d = ptree.selected_reachable(db, rule, is_sel)
            if d: probs.append('rule %s is treated as a leaf (no collector frame) although the selected rule %s is reachable below it: its node survives when the branch fails' % (rule.replace(T, ''), d.replace(T, '')))
        R.ob(ok=not probs, key=('handler', key))
        for p in probs: R.violation('T-select', 'contrib/parse_tree.hpp::internal::make_control::type', p, {'handler': key})
        if len(R.samples) < 6 and not S and not L: R.sample({'rule': rule, 'selected': S, 'leaf': L, 'selector': selname})
    # (C)
    for fn in db.order:
        if fn['q'] == PT + 'parse' and any('internal::state<' in (d.get('t') or '') for d in decls(fn)):
            kinds['parse'] += 1
            try: probs = check_parse(fn, db)
            except core.AnalysisBroken as e:
                R.broke(str(e)); continue
            R.ob(ok=not probs, key=fn['disp'])
            for p in probs: R.violation('T-parse', 'contrib/parse_tree.hpp::parse', p, {'function': fn['disp']}, key=('P', p))
        cq = (fn.get('cls') or {}).get('q', '')
        if fn['n'] == 'transform' and cq in (PT + 'remove_content', PT + 'fold_one', PT + 'discard_empty'):
            kinds['transform'] += 1
            try: probs = check_transform(fn, cq[len(PT):], db)
            except core.AnalysisBroken as e:
                R.broke(str(e)); continue
            R.ob(ok=not probs, key=fn['disp'])
            for p in probs: R.violation('T-transform', 'contrib/parse_tree.hpp::%s::transform' % cq[len(PT):], p, key=('X', cq, p))
    # (C') T-content: what has_content() answers.  A node whose rule matched has content - also when the match is empty (store_content of an opt<> that matched
    # nothing spans zero bytes, it is not a node without content) - and a node has none exactly after remove_content()
    content_clause(db, R, kinds)
    R.cov['obligations_by_kind'] = dict(kinds)
    for k, fl in (('hook', 100), ('handler', 45), ('parse', 3), ('transform', 3), ('forward', 60), ('forward-unwind', 4), ('entry', 40), ('entry-enabled', 30), ('subs', 100), ('content', 1)):
        if kinds.get(k, 0) < fl: R.broke('only %d %s obligations (floor %d)' % (kinds.get(k, 0), k, fl))
    R.assumptions = ['the tree-equals-derivation statement for whole runs is the composition of these clauses with C08 (balanced hooks) and C01/C02; it is not explored as a trace property',
                     'user-supplied node types and selectors with their own transform are outside the statement']
    return R.finish(
        'Abstract stack execution of every instantiated handler hook (push/pop balance, attachment only in success after the pop by appending, span stamping), selection and leaf-optimisation '
        'soundness on witness grammars (chains up to 12 levels, recursion, store_all, extra states) read from the instantiated handler types, shape of parse() and of the built-in transformers.',
        'one obligation per handler hook instantiation, per (rule, selector) handler choice, per parse()/transform instantiation')


def decls(fn):
    return [d for s in walk(fn.get('body'), lambda n: n.get('k') == 'Decl', []) for d in s.get('decls', [])]


def check_parse(fn, db=None):
    """parse_tree::parse evaluated over the result of the plain parse: false -> a null tree, true -> the root frame; the plain parse runs under the
    tree-building control with the builder state as its last state"""
    from ..bits import Space, Interp, St, Val, Opaque, Ptr, Agg, outcomes, Unmodelled, Blowup
    sp = Space(); sp.var('ok', 2)
    it = Interp(db, sp)
    probs = []; seen = []
    def plain(itp, e, ov, av, st):
        tm = [x.get('s') for x in (e.get('cta') or []) if x.get('k') == 'tmpl']
        seen.append(1)
        if not any('make_control' in (x or '') for x in tm): probs.append('the plain parse does not run under the tree-building control')
        if not av or not (isinstance(av[-1], Opaque) and av[-1].tag == 'obj:state'): probs.append('the builder state is not passed as the last state')
        return iter([(Val({0: [0, 1]}), st)])
    def state_call(itp, e, ov, av, st):
        cn = e.get('cn') or ''
        if isinstance(ov, Opaque) and ov.tag == 'obj:state' and cn == 'back': return iter([(Opaque('obj:root'), st)])
        if isinstance(ov, Opaque) and ov.tag == 'obj:state.stack' and cn == 'size': return iter([(Val.const(1), st)])      # the stack is back to the root frame (T-stack with C08)
        if cn in ('move', 'forward') and av: return iter([(av[0], st)])
        return None
    it.intercept.update({T + 'parse': plain, 'back': state_call, 'size': state_call, 'move': state_call, 'forward': state_call})
    it.construct_hook = lambda e, av=None, st=None: (('internal::state<' in (e.get('cq') or '')) if av is None else iter([(Opaque('obj:state'), st)]))
    st = St(sp.full())
    for i, p in enumerate(fn['params']): st.env[p['id']] = Opaque('input' if i == 0 else 'state%d' % i)
    try:
        outs = outcomes(it, fn, st)
    except (Unmodelled, Blowup) as e:
        raise core.AnalysisBroken('parse_tree::parse could not be evaluated: %s' % e)
    def null(v):
        return (isinstance(v, Ptr) and v.base == 'null') or (isinstance(v, Agg) and all(null(x) for x in v.items)) or (isinstance(v, Val) and v.is_const() and v.off == 0)
    for kind, v, s in outs:
        for a, b in sp.project(s.cond, 0):
            for x in range(a, b + 1):
                if kind != 'return': probs.append('parse_tree::parse ends with %s' % kind)
                elif x == 0 and not null(v): probs.append('a failed parse does not return a null tree (%r)' % (v,))
                elif x == 1 and not (isinstance(v, Opaque) and v.tag == 'obj:root'): probs.append('a successful parse does not return the root frame state.back() (%r)' % (v,))
    if len(seen) != 1: probs.append('parse_tree::parse does not call the plain parse exactly once')
    return sorted(set(probs))


def check_transform(fn, which, db=None):
    """the built-in transformers evaluated (sa/bits.py) over the number of children of the node: what happens to the node in each case"""
    from ..bits import Space, Interp, St, Val, Opaque, outcomes, Unmodelled, Blowup
    sp = Space(); sp.var('children', 3)              # 0, 1, 2 = two or more
    it = Interp(db, sp)
    nch = Val({0: [0, 1, 2]})
    def node_call(itp, e, ov, av, st):
        cn = e.get('cn') or ''
        if isinstance(ov, Opaque) and ov.tag == 'obj:node':
            if cn in ('operator->', 'operator*', 'get'): return iter([(ov, st)])
            if cn == 'reset':
                st.eff = st.eff + (('reset',),); return iter([(Opaque('void'), st)])
            if cn == 'remove_content':
                st.eff = st.eff + (('remove_content',),); return iter([(Opaque('void'), st)])
            if e.get('opc') == '=' and av:
                st.eff = st.eff + (('replace', getattr(av[0], 'tag', repr(av[0]))),); return iter([(ov, st)])
        if isinstance(ov, Opaque) and ov.tag == 'obj:node.children':
            if cn == 'size': return iter([(nch, st)])
            if cn == 'empty': return iter([(Val({0: [1, 0, 0]}), st)])
            if cn in ('front', 'back'): return iter([(Opaque('child:' + cn), st)])
        if cn in ('move', 'forward') and av: return iter([(av[0], st)])
        return None
    for k in ('operator->', 'operator*', 'get', 'reset', 'remove_content', 'operator=', 'size', 'empty', 'front', 'back', 'move', 'forward'): it.intercept[k] = node_call
    st = St(sp.full())
    for i, p in enumerate(fn['params']): st.env[p['id']] = Opaque('obj:node') if i == 0 else Opaque('state')
    got = {}
    try:
        for kind, v, s in outcomes(it, fn, st):
            for a, b in sp.project(s.cond, 0):
                for x in range(a, b + 1): got[x] = (kind, tuple(s.eff))
    except (Unmodelled, Blowup) as e:
        raise core.AnalysisBroken('%s::transform could not be evaluated: %s' % (which, e))
    want = {'remove_content': {0: ('remove_content',), 1: ('remove_content',), 2: ('remove_content',)},
            'fold_one': {0: ('remove_content',), 1: ('replace', 'child:front'), 2: ('remove_content',)},
            'discard_empty': {0: ('reset',), 1: ('remove_content',), 2: ('remove_content',)}}[which]
    probs = []
    words = {0: 'no children', 1: 'exactly one child', 2: 'two or more children'}
    for x in (0, 1, 2):
        kind, eff = got.get(x, ('?', ()))
        w = want[x]
        ok = kind in ('fall', 'return') and len(eff) == 1 and eff[0][:len(w)] == w
        if which == 'fold_one' and x == 1 and ok is False and len(eff) == 1 and eff[0][0] == 'replace' and eff[0][1] in ('child:front', 'child:back'): ok = True
        if not ok: probs.append('%s::transform on a node with %s: %s, documented: %s' % (which, words[x], list(eff) or kind, {'remove_content': 'the content is removed', 'replace': 'the node is replaced by its only child', 'reset': 'the node is discarded'}[w[0]]))
    return probs
