"""C03  No rule reads or consumes outside the bounds of the input (DESIGN.md 4.4, 5/C03).

BOUNDS obligations B1 (reads), B2 (advances), B4 (negative/stale pointers) on every function that receives the
parse input: every match(), every Peek::peek(), every Eol::eol_match(), over memory inputs (eager, lazy) and the
buffer input, every end-of-line policy.  Rules program against the abstract input interface
(empty/size/current/end/peek_char/peek_uint8/bump*); the unchecked accessors of memory_input are the primitives whose
callers carry the obligation, so the result is independent of NUL termination or a larger underlying buffer."""
import collections
from .. import core, units, bounds, rewind, repo_units
from ..mon_base import is_match_root, is_input_type, fn_mode

T = 'tao::pegtl::'


def is_bounds_root(fn):
    if is_match_root(fn): return True
    if fn['n'] in ('peek', 'eol_match') and fn['params'] and is_input_type(fn['params'][0]['t']): return True
    return False


def site_of(fn):
    cls = fn.get('cls') or {}
    q = (cls.get('tn') or cls.get('q') or '')
    q = (q + '::' + fn['n']) if q else fn['q']
    return '%s::%s' % (core.relfile(fn['pat']), q.replace(T, ''))


def linked_pred(db):
    def pred(e, cq):
        cc = (e.get('cc') or {}).get('s') or ''
        return cc.startswith(T) or cq.startswith(T)
    return pred


def analyse_unit(path):
    db = core.DB([path])
    an = rewind.Analyzer(db)
    out = {'fns': [], 'broken': [], 'inv': []}
    seen = set()
    for fn in db.order:
        if not is_bounds_root(fn) or '/tao/pegtl/' not in fn['pat']: continue
        if fn['disp'] in seen: continue
        seen.add(fn['disp'])
        pat = core.rel(fn['pat'])
        mode = 'modular'
        try:
            reps, n, steps = bounds.analyse(db, fn, an)
            if reps:
                # facts established inside library sub-rules (raw_string: content ends with at_raw_string_close)
                reps2, n2, steps2 = bounds.analyse(db, fn, an, linked=linked_pred(db), maxsteps=1500000)
                if len(reps2) < len(reps):
                    reps, n, steps, mode = reps2, n2, steps + steps2, 'linked'
        except bounds.Budget:
            out['broken'].append('step budget exceeded in %s (%s)' % (fn['disp'][:160], pat)); continue
        except bounds.Unmodelled as u:
            out['broken'].append('unmodelled construct: %s in %s' % (u, fn['disp'][:160])); continue
        if n == 0:
            out['broken'].append('no completed path through ' + fn['disp'][:160]); continue
        rs = []
        for r in reps:
            rs.append((r[0], r[1], core.rel(r[2]), [list(map(str, t)) for t in r[3]][-30:]))
        out['fns'].append({'disp': fn['disp'], 'pat': pat, 'site': site_of(fn), 'paths': n, 'steps': steps, 'mode': mode, 'reports': rs, 'input': input_family(fn)})
    for it in db.inventory.values():
        if it['n'] in ('match', 'peek', 'eol_match') and '/tao/pegtl/' in it['loc']:
            pt = it.get('pt', [])
            if any(p.startswith('type-parameter') and p.endswith('&') and not p.endswith('&&') for p in pt[:2]):
                out['inv'].append((core.rel(it['loc']), it['q']))
    return out


def input_family(fn):
    for p in fn['params'][:2]:
        t = p['t']
        if 'buffer_input<' in t: return 'buffer'
        if 'tracking_mode::lazy' in t: return 'memory-lazy'
        if 'memory_input<' in t: return 'memory-eager'
        if 'input_with_depth' in t: return 'memory-eager'
    return 'other'


def run(tier, prop='C03'):
    R = core.Result(prop, tier)
    paths = core.extract(list(units.RULES) + list(units.ATOMS))
    if tier == 'thorough':
        paths += repo_units.extract_all(R)
    results = repo_units.map_units('sa.checks.c03', 'analyse_unit', paths)
    seen = set(); analysed = set(); inv = {}; fam = collections.Counter(); npaths = 0; steps = 0; linked = 0
    for p in paths:
        res = results[p]
        for b in res['broken']: R.broke_at(p, b)
        for loc, q in res['inv']: inv[loc] = q
        for f in res['fns']:
            if f['disp'] in seen: continue
            seen.add(f['disp']); analysed.add(f['pat']); fam[f['input']] += 1; npaths += f['paths']; steps += f['steps']
            if f['mode'] == 'linked': linked += 1
            reps = [r for r in f['reports'] if r[0] in ('B1', 'B2', 'B4', 'B5')]     # B3 (amount adequacy) is not a memory-safety rule: reported under C07
            R.ob(ok=not reps, key=f['disp'])
            for r in reps:
                R.violation(r[0], f['site'], r[1], {'function': f['disp'], 'at': r[2], 'path': r[3]}, key=(r[0], f['site'], r[1].split(' needs')[0]))
            if len(R.samples) < 10 and f['paths'] > 3:
                R.sample({'function': f['disp'][:200], 'pattern': f['pat'], 'paths': f['paths'], 'mode': f['mode']})
    missing = [loc + ' ' + q for loc, q in inv.items() if not loc.startswith('contrib/icu/') and loc not in analysed]
    for m in sorted(missing): R.broke('pattern present in the headers but not analysed: ' + m)
    R.cov['patterns_in_headers'] = len(inv); R.cov['patterns_analysed'] = len(analysed); R.cov['instantiations_analysed'] = len(seen)
    R.cov['by_input_family'] = dict(fam); R.cov['paths'] = npaths; R.cov['states'] = steps; R.cov['discharged_in_linked_mode'] = linked
    for k, floor in (('memory-eager', 400), ('buffer', 60), ('memory-lazy', 20)):
        if fam.get(k, 0) < floor: R.broke('only %d instantiations over %s inputs (floor %d)' % (fam.get(k, 0), k, floor))
    R.assumptions = ['sub-rules behind rule boundaries may move the cursor arbitrarily within the input (all availability facts are dropped across a boundary)',
                     'custom readers write at most the length they are given; arithmetic overflow of current + amount near SIZE_MAX is not considered',
                     'template sizes are representative (bodies are parametric in sizeof...( Cs ) / Cnt)']
    return R.finish(
        'Zone-domain (difference bounds) availability analysis on every path of every function that receives the parse input: each read of n bytes at '
        'current()+k and each advance by n needs an established avail >= k+n at the current cursor epoch; pointers are epoch-tagged. Facts come only from '
        'empty()/size()/end() comparisons on the same path. Memory (eager/lazy) and buffer inputs, all end-of-line policies, nested library rules in linked mode.',
        'one obligation per instantiated function taking the parse input; distinct = distinct instantiations')
