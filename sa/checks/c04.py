"""C04  Actions fire once per surviving successful match with the exact matched span - per-attempt protocol
(DESIGN.md 5/C04).  Decides the structural clauses:
  (a) dispatch: the action hook runs only after the rule matched, only with actions enabled, at most once, before
      success/failure, with the begin iterator saved at the start of the match; a false result leads to failure,
      a restored cursor and result false (HOOKS H3, H7);
  (b) normal::apply/apply0 build action_input( begin, in ) and call Action< Rule >::apply/apply0 exactly once with
      the states unchanged;
  (c) action_input: begin() is the stored iterator, end() is the parse input's cursor;
  (d) no action inside look-ahead or disabled sections: every rule forwards its apply mode unchanged except
      at/not_at/disable (nothing) and enable (action) - FRAME on every rule body;
  (e) the apply/apply0/if_apply rules call their actions in order, only with actions enabled, only after the rule matched."""
from .. import core, units, hooks, frame, actions, rewind, repo_units
from ..mon_base import is_match_root, is_input_type
from . import c13

T = 'tao::pegtl::'; I = 'tao::pegtl::internal::'


def site_of(fn):
    cls = fn.get('cls') or {}
    q = (cls.get('tn') or cls.get('q') or '')
    return '%s::%s%s' % (core.relfile(fn['pat']), (q.replace(T, '') + '::') if q else '', fn['n'])


def analyse_unit(path):
    db = core.DB([path])
    an = rewind.Analyzer(db)
    out = {'items': [], 'broken': []}
    def add(kind, fn, probs, rows):
        out['items'].append({'kind': kind, 'disp': fn['disp'], 'site': site_of(fn), 'probs': probs, 'rows': rows})
    for fn in db.order:
        if '/tao/pegtl/' not in fn['pat']: continue
        try:
            tn, ca = frame.class_targs(fn)
            if fn['q'] == 'tao::pegtl::match':
                tab, mon, viol, steps = hooks.table(db, fn)
                probs, info = hooks.check_dispatch(db, fn, tab, mon)
                probs = [(p[0], p[1]) for p in probs if p[0] in ('H3', 'H7')] + [(v[0], v[1]) for v in viol if v[0] == 'H-arg']
                add('dispatch', fn, probs, len(tab))
            elif tn == T + 'normal' and fn['n'] in ('apply', 'apply0') and any(is_input_type(p['t'].replace('const ', '')) for p in fn['params']):
                probs, rows = actions.check_normal_apply(db, fn)
                add('normal-hook', fn, [('A1', p) for p in probs], len(rows))
            elif tn in (I + 'apply', I + 'apply0', I + 'if_apply') and fn['n'] == 'match':
                probs, rows = actions.check_apply_rule(db, fn, an)
                add('apply-rule', fn, [('A2', p) for p in probs], len(rows))
            elif tn == I + 'action_input' and any(x in (fn.get('cls') or {}).get('s', '') for x in ('memory_input<', 'buffer_input<', '_input<')) and 'token_parse_input' not in (fn.get('cls') or {}).get('s', ''):
                probs, rows = actions.check_action_input(db, fn)
                if probs is not None: add('action-input', fn, [('A3', p) for p in probs], len(rows))
            elif is_match_root(fn) and is_input_type(fn['params'][0]['t']) and tn not in c13.SCOPE_CLASSES and tn:
                probs, ncalls, rows = frame.check_fn(db, fn, an)
                if ncalls: add('frame', fn, probs, len(rows))
        except (frame.Budget,):
            out['broken'].append('step budget exceeded in ' + fn['disp'][:160])
        except frame.Unmodelled as u:
            out['broken'].append('unmodelled construct: %s in %s' % (u, fn['disp'][:160]))
    return out


def run(tier):
    R = core.Result('C04', tier)
    paths = core.extract(list(units.RULES) + list(units.DISPATCH) + list(units.INPUTS))
    if tier == 'thorough':
        paths += repo_units.extract_all(R)
    results = repo_units.map_units('sa.checks.c04', 'analyse_unit', paths)
    seen = set(); kinds = {}
    for p in paths:
        res = results[p]
        for b in res['broken']: R.broke_at(p, b)
        for it in res['items']:
            if it['disp'] in seen: continue
            seen.add(it['disp']); kinds[it['kind']] = kinds.get(it['kind'], 0) + 1
            R.ob(ok=not it['probs'], key=it['disp'])
            for pr in it['probs']:
                R.violation(pr[0], it['site'], pr[1], {'function': it['disp']})
            if len(R.samples) < 10 and kinds[it['kind']] <= 2:
                R.sample({'kind': it['kind'], 'function': it['disp'][:200], 'paths': it['rows']})
    # (f) apply mode of every successful sub-match equals the documented expansion's (EQUIV, strict mode)
    from . import c09
    ep = core.extract(list(units.EQUIV))
    er = repo_units.map_units('sa.checks.c09', 'analyse_unit', ep, extra=(8, sorted(set(c09.C09_RULES) | set(c09.CLASSICAL))))
    for p in ep:
        for b in er[p]['broken']: R.broke_at(p, b)
        for it in er[p]['items']:
            probs = [q for q in it['problems'] if q[0] == 'E-mode']
            kinds['equiv-mode'] = kinds.get('equiv-mode', 0) + 1
            R.ob(ok=not probs, key=('equiv-mode', it['rule'], it['mode']))
            for q in probs:
                R.violation('E-mode', 'rule %s' % it['rule'].replace('tao::pegtl::', ''), q[1], {'documented expansion': it['expr'], 'answer history': q[2]}, key=('E-mode', it['rule'], it['mode']))
    R.cov['obligations_by_kind'] = kinds
    floors = {'dispatch': 60, 'normal-hook': 8, 'apply-rule': 8, 'action-input': 6, 'frame': 150, 'equiv-mode': 200}
    for k, v in floors.items():
        if kinds.get(k, 0) < v: R.broke('only %d %s obligations (floor %d)' % (kinds.get(k, 0), k, v))
    R.assumptions = ['the run-level statement (sequence of all invocations of a successful run) is the composition of this per-attempt protocol with C01/C02 and is not explored as a trace property',
                     'user actions are opaque (void / true / false / exception)']
    return R.finish(
        'Per-attempt action protocol decided on every path of: the dispatch match<> (H3, H7), normal::apply/apply0, the apply/apply0/if_apply rules, the span '
        'accessors of action_input, and the apply-mode forwarding of every rule body (no action inside look-ahead / disabled sections).',
        'one obligation per instantiated function; distinct = distinct instantiations')
