"""C08  Control hooks form a balanced, truthful protocol (DESIGN.md 4.3, 5/C08)."""
import collections
from .. import core, units, hooks, rewind
from ..mon_base import is_match_root, is_input_type


def site_of(fn):
    return '%s::%s' % (core.relfile(fn['pat']), fn['q'].replace('tao::pegtl::', ''))


def run(tier):
    R = core.Result('C08', tier)
    paths = core.extract(units.DISPATCH)
    if tier == 'thorough':
        from .. import repo_units
        paths += repo_units.extract_all(R)
    db = core.DB(paths)
    def known_control(f):
        # in the repository's own units only instantiations under the library's default control are enumerated: other controls there are user code whose hooks
        # have bodies of their own (tracers, counters, error tables); the wrappers and the stateful controls of the library are analysed through the universe
        if not core.is_repo_unit(f.get('_unit')): return True
        tm = [x.get('s') for x in f.get('ta', []) if x.get('k') == 'tmpl']
        return bool(tm) and tm[-1] == 'tao::pegtl::normal'
    fns = [f for f in db.order if f['q'] == 'tao::pegtl::match' and '/tao/pegtl/' in f['pat'] and f.get('params') and is_input_type(f['params'][0]['t']) and known_control(f)]
    if len(fns) < 60:
        R.broke('only %d instantiations of tao::pegtl::match found (floor 60)' % len(fns))
    shapes = set(); rows = 0
    for fn in fns:
        try:
            out, mon, viol, steps = hooks.table(db, fn)
        except hooks.Budget:
            R.broke_at(fn.get('_unit'), 'step budget exceeded in ' + fn['disp'][:200]); continue
        except hooks.Unmodelled as u:
            R.broke_at(fn.get('_unit'), 'unmodelled construct: %s in %s' % (u, fn['disp'][:200])); continue
        if not out:
            R.broke_at(fn.get('_unit'), 'no completed path through ' + fn['disp'][:200]); continue
        probs, info = hooks.check_dispatch(db, fn, out, mon)
        for v in viol:
            if v[0].startswith('H'): probs.append((v[0], v[1], {'at': core.rel(v[2])}))
        shape = (info['A'], info['M'], tuple(info['action_members'] or ()) if info['action_members'] is not None else None, info['control_has_unwind'], info['enabled'], len(fn['params']))
        shapes.add(shape)
        rows += len(out)
        R.ob(ok=not probs, key=fn['disp'])
        for p in probs:
            what = 'apply_mode::%s rewind_mode::%s action=%s control_unwind=%s' % ('action' if info['A'] else 'nothing', 'required' if info['M'] == 0 else 'optional', info['action_members'], info['control_has_unwind'])
            R.violation(p[0], site_of(fn), '%s [%s]' % (p[1], what), {'function': fn['disp'], 'row': p[2], 'info': info},
                        key=(p[0], p[1], shape))
        if len(R.samples) < 6:
            R.sample({'function': fn['disp'][:160], 'info': info, 'table': [{'events': list(k[0]), 'exit': k[1], 'value': k[2], 'cursor': k[3]} for k in list(out)[:8]]})
    R.cov['dispatch_instantiations'] = len(fns); R.cov['distinct_shapes'] = len(shapes); R.cov['table_rows'] = rows
    R.cov['states'] = rows
    if tier == 'quick' and len(shapes) < 20:
        R.broke('only %d distinct dispatch shapes covered (floor 20)' % len(shapes))
    udb = core.DB(core.extract(units.DISPATCH)) if tier == 'thorough' else db      # the wrapper / must_if clauses are about library code: universe units
    wrappers(udb, R)
    stateful_controls(R)
    must_if_failure(udb, R)
    R.assumptions = ['rule boundary = opaque oracle (true/false/exception); hooks are opaque events that may throw',
                     'when a hook itself throws (must_if raises from failure by design) no unwind may follow for that attempt: the control has its closing event (or, for start, nothing has begun)']
    return R.finish(
        'Exhaustive path enumeration of every instantiation of the central dispatch tao::pegtl::match<> (action shapes x apply mode x rewind mode x control with/without unwind x enable), '
        'exceptional exits included, with RAII unwinding interpreted from the source; assertions H1-H7 on the complete (event sequence, exit, result, cursor) table; '
        'plus 1:1 forwarding of every shipped control wrapper, and the stack / counter discipline of the shipped stateful controls (coverage, trace).',
        'one obligation per instantiation of match<> and per wrapper hook; distinct = distinct function instantiations')


COUNTERS = ('start', 'success', 'failure', 'unwind', 'raise', 'raise_nested')


def hook_events(fn):
    """program-order events of a stateful control hook: pushes / pops of its rule stack and counter increments
    ( 'inc', counter, 'own' | 'branch', guarded by a non-empty stack?, keyed by the top of the stack? )"""
    from ..exc import walk, leaves
    ev = []
    def is_stack(n): return n.get('k') == 'member' and n.get('n') in ('stack', 'm_stack')
    def visit(n, guarded):
        if isinstance(n, list):
            for x in n: visit(x, guarded)
            return
        if not isinstance(n, dict): return
        k = n.get('k')
        if k == 'If':
            c = n.get('cond')
            g = bool(walk(c, lambda x: x.get('k') == 'call' and x.get('cn') == 'empty' and is_stack(x.get('obj') or {}), [])) and (c or {}).get('k') == 'un' and c.get('op') == '!'
            visit(c, guarded); visit(n.get('then'), guarded or g); visit(n.get('else'), guarded)
            return
        if k == 'call' and n.get('cn') in ('push_back', 'emplace_back') and is_stack(n.get('obj') or {}): ev.append(('push',))
        if k == 'call' and n.get('cn') == 'pop_back' and is_stack(n.get('obj') or {}): ev.append(('pop',))
        if k == 'un' and n.get('op') in ('++',) and (n.get('e') or {}).get('k') == 'member' and n['e'].get('n') in COUNTERS:
            lv = leaves(n['e'])
            ev.append(('inc', n['e']['n'], 'branch' if ('member', 'branches') in lv else 'own', guarded, ('call', 'back') in lv))
            return
        for key, v in n.items():
            if key in ('loc', 't'): continue
            visit(v, guarded)
    visit(fn.get('body'), False)
    return ev


def coverage_hook(db, fn):
    """one hook of coverage_state evaluated (sa/bits.py) on an abstract result map and rule stack, for an empty and a non-empty stack of enclosing rules:
    which counters are incremented (as paths into the map, so "the branch under the parent" is a matter of value, not of statement order) and what
    the rule stack looks like afterwards"""
    from ..bits import Space, Interp, St, Rec, Opaque, Handle, StackV, outcomes, Unmodelled
    name = fn['n']; probs = []
    RULE = Opaque('RULE'); PARENT = Opaque('PARENT')
    for parent in (False, True):
        below = (PARENT,) if parent else ()
        # start / raise see the enclosing rules; the closing hooks see the rule itself on top (pushed by its start)
        initial = below if name in ('start', 'raise', 'raise_nested') else below + (RULE,)
        if name in ('raise', 'raise_nested') and not parent: initial = ()
        sp = Space(); sp.var('x', 2)
        it = Interp(db, sp)
        it.intercept['tao::pegtl::demangle'] = lambda itp, e, ov, av, st: iter([(RULE, st)])
        st = St(sp.full()); st.env['this'] = Rec({'result': Handle(('result',)), 'stack': StackV(initial)})
        for p in fn['params']: st.env[p['id']] = Opaque('arg')
        for kind, v, s in outcomes(it, fn, st):
            if kind not in ('fall', 'return'):
                probs.append('the hook ends with %s (%s enclosing rule)' % (kind, 'with an' if parent else 'without')); continue
            incs = sorted(e[1] for e in s.eff if e[0] == 'inc')
            want = [('result', ('at', 'RULE'), name)]
            top = initial[-1] if name in ('start', 'raise', 'raise_nested') and initial else (below[-1] if below and name not in ('start', 'raise', 'raise_nested') else None)
            if top is not None: want.append(('result', ('at', top.tag), 'branches', ('at', 'RULE'), name))
            if incs != sorted(want):
                def show(pth): return '.'.join(x if isinstance(x, str) else '[%s]' % x[1] for x in pth)
                probs.append('%s the hook counts %s, expected %s' % ('inside another rule' if parent else 'at the top level', [show(x) for x in incs] or 'nothing', [show(x) for x in sorted(want)]))
            after = s.env['this'].f['stack'].items
            want_stack = below + (RULE,) if name == 'start' else (initial if name in ('raise', 'raise_nested') else below)
            if tuple(x.tag for x in after) != tuple(x.tag for x in want_stack):
                probs.append('the rule stack after %s is %s, expected %s' % (name, [x.tag for x in after], [x.tag for x in want_stack]))
        for k2, m2, l2 in it.findings: probs.append(m2)
    return sorted(set(probs))


def stateful_controls(R):
    """K-state: the shipped stateful controls keep a rule stack in step with the protocol and count every event once.
    coverage: start counts the rule and, under the rule then on top, the branch, and pushes afterwards; success / failure / unwind pop first
    and count the rule and the branch under the new top (the same parent as at start): with H1-H7, start = success + failure + unwind
    for every rule and every branch.  trace: start pushes once, success / failure / unwind pop once, nothing else moves the stack."""
    cdb = core.DB(core.extract(list(units.COV)))
    n = collections.Counter()
    for fn in cdb.order:
        q = fn['q']
        if q.startswith('tao::pegtl::internal::coverage_state::') and fn['n'] in COUNTERS:
            name = fn['n']
            try: probs = coverage_hook(cdb, fn)
            except Exception as ex:
                if type(ex).__name__ in ('Unmodelled', 'Blowup'):
                    R.broke('coverage_state::%s: %s' % (name, ex)); continue
                raise
            n['coverage'] += 1
            R.ob(ok=not probs, key=('cov', fn['disp']))
            for pmsg in probs: R.violation('K-state', 'contrib/coverage.hpp::internal::coverage_state::' + name, pmsg, {'function': fn['disp'][:160]}, key=('K', 'cov', name, pmsg))
        elif q.startswith('tao::pegtl::tracer<') and fn['n'] in COUNTERS + ('apply', 'apply0'):
            ev = hook_events(fn); name = fn['n']
            moves = [e[0] for e in ev if e[0] in ('push', 'pop')]
            want = {'start': ['push'], 'success': ['pop'], 'failure': ['pop'], 'unwind': ['pop']}.get(name, [])
            n['trace'] += 1
            R.ob(ok=moves == want, key=('trace', fn['disp']))
            if moves != want: R.violation('K-state', 'contrib/trace.hpp::tracer::' + name, 'the indentation stack is moved %s, expected %s' % (moves, want), {'function': fn['disp'][:160]}, key=('K', 'trace', name))
    R.cov['stateful_control_hooks'] = dict(n)
    if n['coverage'] < 30 or n['trace'] < 30: R.broke('stateful control hooks analysed: %s (floor 30 each)' % dict(n))


# which rules the Errors classes of universe/u_dispatch.cc ask a raise for (mirrors that file): an explicit raise_on_failure< Rule > wins,
# otherwise a local failure is turned into a global one iff a message is provided (doc/Errors-and-Exceptions.md)
MUST_IF_SPEC = {
    'vu::Errors': lambda r: r == 'vu::P<1>',                       # message for P1 only, no raise_on_failure member
    'vu::Errors2': lambda r: r == 'vu::P1m',                       # no messages, raise_on_failure for P1m only
    'vu::Errors3': lambda r: False,                                # messages for all rules, raise_on_failure = false
    'vu::Errors4': lambda r: r != 'vu::P<1>',                      # message for P1 only, raise_on_failure for every rule but P1
}


def must_if_failure(db, R):
    """M-failure: must_if< Errors, ... >::control< Rule >::failure raises exactly for the rules the Errors class asks a raise for; everywhere else a
    local failure stays a local failure (the failure hook of the base control runs): "raise only from a must-context or raise rule" """
    from ..exc import walk
    n = 0; seen = set()
    for fn in db.order:
        cls = fn.get('cls') or {}
        if fn['n'] != 'failure' or not (cls.get('s') or '').startswith('tao::pegtl::must_if<') or '::control<' not in cls['s']: continue
        m = __import__('re').match(r'tao::pegtl::must_if<([^,>]+).*>::control<(.*)>$', cls['s'])
        if not m or m.group(1) not in MUST_IF_SPEC:
            R.broke('unknown Errors class in %s' % cls['s']); continue
        want = MUST_IF_SPEC[m.group(1)](m.group(2))
        calls = [c.get('cn') for c in walk(fn.get('body'), lambda x: x.get('k') == 'call', [])]
        got = 'raise' in calls
        n += 1; seen.add((m.group(1), m.group(2)))
        ok = got == want and (want or 'failure' in calls)
        R.ob(ok=ok, key=('must_if', cls['s']))
        if not ok:
            R.violation('M-failure', 'must_if.hpp::must_if::control::failure', '%s for rule %s: a local failure %s, but the Errors class %s' % (
                m.group(1).replace('vu::', ''), m.group(2).replace('vu::', ''), 'is turned into a global failure (raise)' if got else 'is passed to the base control' + ('' if 'failure' in calls else ' (not even that)'),
                'asks for a raise' if want else 'does not ask for a raise (no message / raise_on_failure = false)'), {'function': fn['disp'][:160]}, key=('M', cls['s']))
    R.cov['must_if_failure_hooks'] = n
    if len(seen) < 8: R.broke('only %d must_if failure hooks analysed (floor 8)' % len(seen))


def wrappers(db, R):
    from .. import wrappers as W
    W.check(db, R)
