"""C08  Control hooks form a balanced, truthful protocol (DESIGN.md 4.3, 5/C08)."""
import collections
from .. import core, units, hooks, rewind
from ..mon_base import is_match_root


def site_of(fn):
    return '%s::%s' % (core.relfile(fn['pat']), fn['q'].replace('tao::pegtl::', ''))


def run(tier):
    R = core.Result('C08', tier)
    paths = core.extract(units.DISPATCH)
    if tier == 'thorough':
        from .. import repo_units
        paths += repo_units.extract_all(R)
    db = core.DB(paths)
    fns = [f for f in db.order if f['q'] == 'tao::pegtl::match' and '/tao/pegtl/' in f['pat']]
    if len(fns) < 60:
        R.broke('only %d instantiations of tao::pegtl::match found (floor 60)' % len(fns))
    shapes = set(); rows = 0
    for fn in fns:
        try:
            out, mon, viol, steps = hooks.table(db, fn)
        except hooks.Budget:
            R.broke('step budget exceeded in ' + fn['disp'][:200]); continue
        except hooks.Unmodelled as u:
            R.broke('unmodelled construct: %s in %s' % (u, fn['disp'][:200])); continue
        if not out:
            R.broke('no completed path through ' + fn['disp'][:200]); continue
        probs, info = hooks.check_dispatch(db, fn, out, mon)
        for v in viol:
            if v[0].startswith('H'): probs.append((v[0], v[1], {'at': core.rel(v[2])}))
        shape = (info['A'], info['M'], tuple(info['action_members'] or ()) if info['action_members'] is not None else None, info['control_has_unwind'], info['enabled'], len(fn['params']))
        shapes.add(shape)
        rows += len(out)
        R.ob(ok=not probs, key=fn['disp'])
        for p in probs:
            what = 'apply_mode::%s rewind_mode::%s action=%s control_unwind=%s' % ('action' if info['A'] else 'nothing', 'required' if info['M'] == 0 else 'optional', info['action_members'], info['control_has_unwind'])
            R.violation(p[0], site_of(fn), '%s [%s]' % (p[1], what), {'function': fn['disp'], 'row': p[2], 'info': info},
                        key=(p[0], p[1], shape))
        if len(R.samples) < 6:
            R.sample({'function': fn['disp'][:160], 'info': info, 'table': [{'events': list(k[0]), 'exit': k[1], 'value': k[2], 'cursor': k[3]} for k in list(out)[:8]]})
    R.cov['dispatch_instantiations'] = len(fns); R.cov['distinct_shapes'] = len(shapes); R.cov['table_rows'] = rows
    R.cov['states'] = rows
    if tier == 'quick' and len(shapes) < 20:
        R.broke('only %d distinct dispatch shapes covered (floor 20)' % len(shapes))
    wrappers(db, R)
    R.assumptions = ['rule boundary = opaque oracle (true/false/exception); hooks are opaque events that may throw',
                     'exceptions thrown by a closing hook itself (success/failure/start/unwind) are outside the statement']
    return R.finish(
        'Exhaustive path enumeration of every instantiation of the central dispatch tao::pegtl::match<> (action shapes x apply mode x rewind mode x control with/without unwind x enable), '
        'exceptional exits included, with RAII unwinding interpreted from the source; assertions H1-H7 on the complete (event sequence, exit, result, cursor) table; '
        'plus 1:1 forwarding of every shipped control wrapper.',
        'one obligation per instantiation of match<> and per wrapper hook; distinct = distinct function instantiations')


def wrappers(db, R):
    from .. import wrappers as W
    W.check(db, R)
