"""C11  Grammar analysis never certifies a grammar that can loop without progress (DESIGN.md 4.5, 5/C11).

(A) traits are a sound abstraction of every rule body: for every rule template over consuming / nullable placeholders
    P1  the rule can succeed without consuming  =>  its trait node is nullable in the abstract grammar
    P2  a sub-rule can be entered at the start position  =>  it is left-reachable from the rule's trait node
        (for traits that inline the trait of a sub-rule - until< R >, if_apply - the self-recursive witness type is built:
         it must either not be analysable at all, or be reported)
    P3  a loop of the body can iterate without progress  =>  the abstract grammar of the rule has a left-call cycle
    atoms (rules without sub-rules): P1 from their own cursor typestate analysis.
(B) the traversal: the truth table of analyze_cycles_impl::work()/problems() equals the reference DFS, and the reference
    DFS reports every left-call cycle on all abstract grammars up to a size bound (bounded-exhaustive).
(C) every rule pattern is either covered by (A) or cannot be analysed at all (no analyze_traits: compile error)."""
import collections, hashlib, os
from .. import core, units, progress, worktable, rewind, repo_units
from ..spec import analyze_model as AM
from ..mon_base import is_match_root, fn_mode

T = 'tao::pegtl::'


def analyse_unit(path):
    db = core.DB([path]); atoms = progress.Atoms(db)
    out = {'items': [], 'broken': [], 'work': None, 'problems_fn': None}
    try:
        g = progress.trait_graph(db)
    except progress.Unmodelled as e:
        out['broken'].append(str(e)); return out
    for fn in db.order:
        if fn['q'] == worktable.WORK and out['work'] is None:
            tab, pr = worktable.extract(db, fn)
            out['work'] = (pr + (worktable.check(tab) if tab else [])), core.rel(fn['loc'])
        if fn['q'] == T + 'internal::analyze_cycles_impl::problems' and out['problems_fn'] is None:
            out['problems_fn'] = worktable.check_problems_fn(db, fn), core.rel(fn['loc'])
        cls = fn.get('cls') or {}
        if cls.get('tn') != T + 'normal' or fn['n'] != 'match' or fn_mode(fn) != 0: continue
        rt = (cls.get('a') or [{}])[0].get('s', '')
        if not rt.startswith(T) or rt.startswith(T + 'internal::') or rt not in g: continue
        gg = progress.closure(g, rt)
        dangling = [s for x in gg.values() for s in x[1] if s not in gg]
        if dangling:
            out['broken'].append('trait graph of %s refers to %s without an analyze_insert instantiation' % (rt, dangling[:2])); continue
        nul = AM.nullable(gg); lr = AM.left_reach(gg, rt); cyc = AM.has_cycle(gg)
        item = {'rule': rt, 'graph': AM.show({k.replace(T, '').replace('vu::', ''): (v[0], [s.replace(T, '').replace('vu::', '') for s in v[1]]) for k, v in gg.items()})[:600],
                'nullable': nul[rt], 'cycle': cyc, 'probs': [], 'witness': []}
        f = None
        try:
            f = progress.facts(db, fn, atoms)
        except progress.Budget:
            out['broken'].append('budget exceeded analysing ' + rt); continue
        except progress.Unmodelled as e:
            # byte-level scanners the linked executor cannot follow: fall back to the rule's own cursor typestate analysis
            kinds = atoms.kinds(rt) if atoms.subs_empty(rt) else None
            if kinds is None:
                out['broken'].append('unmodelled construct in %s: %s' % (rt, e)); continue
            f = {'N': 'same' in kinds, 'L': [], 'idle': [], 'histories': 0, 'truncated': 0, 'atom': list(kinds)}
        item['facts'] = f
        if f['N'] and not nul[rt]:
            item['probs'].append(('P1', 'the rule can succeed without consuming input but its analyze_traits say it always consumes'))
        for x in f['L']:
            if x not in lr: item['witness'].append(x)
        if f['idle'] and not cyc:
            item['probs'].append(('P3', 'the loop at %s can iterate without progress but the abstract grammar of the rule has no left-call cycle' % ', '.join(f['idle'])))
        out['items'].append(item)
    return out


WITNESS_SRC = '''#include "vt.hpp"
namespace vu
{
   struct G;
   struct G : %s {};
   inline std::size_t w() { return tao::pegtl::analyze< G >( -1 ); }
}
'''


def witness(rule, placeholder):
    """self-recursive witness through `placeholder`: ('uncompilable', msg) | ('graph', cycle?)"""
    body = rule.replace(placeholder, 'vu::G')
    src = WITNESS_SRC % body
    d = os.path.join(core.CACHE, core.tree_hash()); os.makedirs(d, exist_ok=True)
    path = os.path.join(d, 'witness_%s.cc' % hashlib.sha1(src.encode()).hexdigest()[:12])
    with open(path, 'w') as fh: fh.write(src)
    paths, errors = core.extract([(path, [])], allow_errors=True)
    if errors:
        msg = errors[0][2]
        if 'recursive template instantiation' in msg or 'incomplete type' in msg or 'implicit instantiation of undefined template' in msg:
            return 'uncompilable', msg.splitlines()[0][:200] if msg else ''
        raise core.AnalysisBroken('witness type for %s does not compile for an unexpected reason:\n%s' % (rule, msg[-1500:]))
    db = core.DB(paths)
    g = progress.trait_graph(db)
    gg = progress.closure(g, 'vu::G')
    return 'graph', AM.has_cycle(gg)


def run(tier):
    R = core.Result('C11', tier)
    paths = core.extract(list(units.TRAITS))
    results = repo_units.map_units('sa.checks.c11', 'analyse_unit', paths)
    n = 0; hist = 0; nw = 0; work_seen = False; templates = set()
    for p in paths:
        res = results[p]
        for b in res['broken']: R.broke(b)
        if res['work'] is not None and not work_seen:
            work_seen = True
            probs, loc = res['work']
            R.ob(ok=not probs, key='work-truth-table')
            for pr in probs: R.violation('W', 'contrib/analyze.hpp::internal::analyze_cycles_impl::work', pr, {'at': loc})
            probs, loc = res['problems_fn'] or ([ 'problems() not found' ], '')
            R.ob(ok=not probs, key='problems-fn')
            for pr in probs: R.violation('W', 'contrib/analyze.hpp::internal::analyze_cycles_impl::problems', pr, {'at': loc})
        for it in res['items']:
            n += 1; templates.add(it['rule'].split('<')[0])
            f = it.get('facts', {})
            hist += f.get('histories', 0) if isinstance(f, dict) else 0
            probs = list(it['probs'])
            for ph in it['witness']:
                nw += 1
                kind, val = witness(it['rule'], ph)
                if kind == 'graph' and not val:
                    probs.append(('P2', 'sub-rule position %s can be entered without progress, the self-recursive grammar through it is analysable, and its abstract grammar has no left-call cycle: analyze() certifies a left recursion' % ph.replace('vu::', '')))
            R.ob(ok=not probs, key=it['rule'])
            for pr in probs:
                R.violation(pr[0], 'analyze_traits of %s' % it['rule'].split('<')[0].replace(T, ''), '%s [%s]' % (pr[1], it['rule'].replace(T, '').replace('vu::', '')),
                            {'abstract grammar': it['graph'], 'facts': f}, key=(pr[0], it['rule']))
            if len(R.samples) < 10 and isinstance(f, dict) and f.get('L'):
                R.sample({'rule': it['rule'].replace(T, '').replace('vu::', ''), 'can succeed empty': f.get('N'), 'left-callable': f.get('L'), 'idle loops': f.get('idle'),
                          'abstract grammar': it['graph'][:200], 'nullable': it['nullable'], 'left-call cycle': it['cycle']})
    if not work_seen: R.broke('analyze_cycles_impl::work() not found (anchor vanished)')
    R.cov['rule_instantiations'] = n; R.cov['rule_templates'] = len(templates); R.cov['answer_histories'] = hist; R.cov['witness_types_built'] = nw
    if n < 380: R.broke('only %d rule instantiations analysed (floor 380)' % n)
    # (B) bounded-exhaustive soundness of the reference DFS
    size = (3, 2) if tier == 'quick' else (3, 3)
    cnt, cyc, bad = AM.check_algorithm(*size)
    R.cov['abstract_grammars_enumerated'] = cnt; R.cov['with_left_call_cycle'] = cyc; R.cov['grammar_size_bound'] = '%d nodes, <= %d sub-rules each' % size
    R.cov['states'] = cnt
    R.ob(ok=not bad, n=1, key='reference-dfs')
    for b in bad:
        R.violation('A', 'contrib/analyze.hpp::internal::analyze_cycles_impl::work', 'the traversal misses a cycle on the abstract grammar { %s }: %s' % (AM.show(b[1]), b[0]))
    R.assumptions = ['the reference DFS is tied to the C++ by its truth table; its soundness is established bounded-exhaustively (all abstract grammars up to %d nodes), not by proof' % size[0],
                     'sub-rule positions <= 3 per template, answer histories bounded by 7 distinct questions',
                     'termination of user rules\' own loops is outside the statement; rules without analyze_traits cannot be analysed (compile error), so they can never be certified']
    return R.finish(
        'Soundness direction of analyze(): (A) every analyze_traits specialisation is checked against what the rule body can actually do without consuming (linked abstract execution over '
        'consuming/nullable placeholders: nullability, left-callable sub-rules, idle loops; self-recursive witness types where traits inline a sub-rule); (B) the C++ traversal is tied to a '
        'reference DFS by truth-table extraction and the reference DFS is compared with left-recursion well-formedness on every small abstract grammar.',
        'one obligation per rule instantiation over placeholders + truth table + bounded-exhaustive algorithm check')
