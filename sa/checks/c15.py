"""C15  Integer rules and conversions are exact or report overflow (DESIGN.md 5/C15).

(a) syntax: the rule types unsigned_rule_new / signed_rule_new / _bis / _ter (type graph, LANG with a free continuation) and the
    hand-written scanners match_unsigned, match_and_convert_unsigned_with_maximum_throws / _nothrow and the signed rules
    (SCAN over byte classes) accept exactly the documented numeral syntax - optional sign where allowed, no superfluous
    leading zeros, all digits consumed - followed by arbitrary bytes or end of input; they never read beyond the input,
    never consume on failure, and only hand digits to accumulate_digit;
(b) conversion: accumulate_digit< Integer, Maximum > for every instantiated (type, maximum) - no wrap, exact value on
    success, failure exactly when the value would exceed the maximum (RANGE); accumulate_digits / convert_* only combine
    these; convert_negative negates exactly without undefined behaviour (piecewise-affine modular evaluation);
(c) overflow is reported as documented: exception for the throwing scanner / actions, local failure without consumption
    for the bounded rule."""
import collections
from .. import core, units, typegraph, lang, scan, ranges
from ..typegraph import cls, seq, sor, star, opt

T = 'tao::pegtl::'
DIG = cls((48, 57)); NZ = cls((49, 57)); Z = cls(48); SIGN = cls(43, 45); MINUS = cls(45)
UNS = sor(seq(Z, ('not_at', DIG)), seq(NZ, star(DIG)))                 # no superfluous leading zeros, all digits consumed
UNS_OLD = seq(DIG, star(DIG))
SPEC_TYPES = {
    'unsigned_rule_new': UNS, 'signed_rule_new': seq(opt(SIGN), UNS), 'signed_rule_bis': seq(opt(MINUS), UNS), 'signed_rule_ter': seq(SIGN, UNS),
    'unsigned_rule_old': UNS_OLD, 'signed_rule_old': seq(opt(SIGN), UNS_OLD),
}
SCANNERS = {   # rule class -> (spec, behaviour on overflow)
    T + 'unsigned_rule': (UNS, None), T + 'unsigned_rule_with_action': (UNS, 'throw'), T + 'maximum_rule': (UNS, 'fail'), T + 'maximum_rule_with_action': (UNS, 'throw'),
    T + 'signed_rule': (seq(opt(SIGN), UNS), None), T + 'signed_rule_with_action': (seq(opt(SIGN), UNS), 'throw-action'),
}
ORACLES = (T + 'internal::accumulate_digit',)


def run(tier):
    R = core.Result('C15', tier)
    kinds = collections.Counter()
    # (a1) rule types
    gdb = core.DB(core.extract(list(units.GRAMMARS)))
    for name, spec in SPEC_TYPES.items():
        try:
            t = typegraph.Translator(gdb); e = t.translate(T + name)
            r = lang.compare_peg(e, spec, name)
        except typegraph.Unsupported as u:
            R.broke('cannot translate %s: %s' % (name, u)); continue
        kinds['syntax-type'] += 1
        R.ob(ok=not r['mismatching_columns'], key=('type', name))
        for w in r['witnesses'][:4]:
            R.violation('N-syntax', 'contrib/integer.hpp::%s' % name, 'on an input starting with %r the rule and the documented numeral syntax differ (%s)' % (w[1], 'rule matches a prefix the syntax does not' if w[2] else 'syntax matches a prefix the rule does not'),
                        key=('N-syntax', name, w[1]))
    # (a2) scanners, (c)
    maxlen = 3 if tier == 'quick' else 5
    ipaths = core.extract(list(units.INTEGER))
    idb = core.DB(ipaths)
    items = [fn['u'] for fn in idb.order if fn['n'] == 'match' and ((fn.get('cls') or {}).get('tn') or (fn.get('cls') or {}).get('q')) in SCANNERS and '/tao/pegtl/' in fn['pat']]
    strings = 0
    from .. import repo_units
    for u, res in repo_units.map_items('sa.checks.c15', 'scan_one', ipaths, items, extra=(maxlen,)).items():
        fn = idb.get(u); q = (fn.get('cls') or {}).get('tn') or (fn.get('cls') or {}).get('q')
        if res.get('broken'):
            R.broke('scanner %s: %s' % (fn['disp'][:120], res['broken'])); continue
        n, probs, parts = res['n'], res['probs'], res['parts']
        strings += n; kinds['scanner'] += 1
        R.ob(ok=not probs, key=('scan', fn['disp']))
        seen = set()
        for pr in probs:
            k = (pr[0], pr[1].split(' on input')[0])
            if k in seen: continue
            seen.add(k)
            R.violation(pr[0], '%s::%s' % (core.relfile(fn['pat']), (q or '').replace(T, '') + '::match'), pr[1], {'function': fn['disp']}, key=(pr[0], q, k[1], fn['disp']))
        if len(R.samples) < 4: R.sample({'scanner': fn['disp'][:120], 'byte classes': parts, 'class strings explored': n})
    R.cov['class_strings_explored'] = strings; R.cov['scan_length_bound'] = maxlen
    # (b) conversions
    pairs = []
    for fn in idb.order:
        if '/tao/pegtl/' not in fn['pat']: continue
        if fn['q'] == T + 'internal::accumulate_digit':
            probs, info = ranges.check_accumulate_digit(idb, fn)
            kinds['accumulate_digit'] += 1; pairs.append((info.get('type'), info.get('maximum')))
            R.ob(ok=not probs, key=('acc', fn['disp']))
            for p in probs: R.violation('G-range', 'contrib/integer.hpp::internal::accumulate_digit', '%s [Integer = %s, Maximum = %s]' % (p, info.get('type'), info.get('maximum')), key=('G', fn['disp'], p))
        elif fn['q'] == T + 'internal::is_digit':
            # D-digit: the digit test of the hand-written scanners, exactly, over all 256 values of a (signed) char
            from . import c10
            try:
                acc, rej = c10.char_fn_sets(idb, fn)
                probs = [] if acc == ((48, 57),) and c10.iunion(acc, rej) == ((0, 255),) else ['is_digit accepts the bytes %s, the decimal digits are 48..57' % c10.ishow(acc)]
            except c10.Unmodelled as e:
                R.broke('is_digit: %s' % e); continue
            kinds['digit'] += 1
            R.ob(ok=not probs, key=('digit', fn['disp']))
            for p in probs: R.violation('D-digit', 'contrib/integer.hpp::internal::is_digit', p, key=('D', p))
        elif fn['n'] == 'match' and (fn.get('cls') or {}).get('tn') in (T + 'maximum_rule', T + 'maximum_rule_with_action'):
            # D-maximum: the matcher a bounded rule hands its input to is instantiated for the rule's own type and maximum (both apply modes)
            from ..exc import walk
            a = (fn.get('cls') or {}).get('a') or []
            want = (a[0].get('s'), str(a[1].get('v'))) if len(a) == 2 else None
            probs = []
            cs = walk(fn.get('body'), lambda n: n.get('k') == 'call' and 'with_maximum' in (n.get('cn') or ''), [])
            if want is None or not cs: R.broke('maximum rule %s: no call of a matcher with maximum found' % fn['disp'][:100]); continue
            for c in cs:
                ca = [x for x in (c.get('cta') or []) if x.get('k') in ('type', 'int')]
                if not (len(ca) >= 2 and ca[-1].get('k') == 'int' and ca[-2].get('k') == 'type'): continue      # a matcher of another shape (maximum as an argument): not judged by this clause
                got = (ca[-2].get('s'), str(ca[-1].get('v')))
                if got != want: probs.append('hands the input to %s< %s >, the rule is for < %s, %s >: values between the two maxima are accepted' % (c.get('cn'), ', '.join(map(str, got or ('?',))), want[0], want[1]))
            kinds['maximum'] += 1
            R.ob(ok=not probs, key=('maximum', fn['disp']))
            for p in probs: R.violation('D-maximum', 'contrib/integer.hpp::' + fn['cls']['tn'].replace(T, '') + '::match', '%s [apply_mode::%s]' % (p, 'action' if (fn.get('ta') or [{}])[0].get('v') else 'nothing / simple signature'), key=('M', fn['disp'], p))
        elif fn['q'] == T + 'internal::convert_negative':
            probs = ranges.check_convert_negative(idb, fn)
            kinds['convert_negative'] += 1
            R.ob(ok=not probs, key=('neg', fn['disp']))
            for p in probs: R.violation('G-ub', 'contrib/integer.hpp::internal::convert_negative', '%s [Signed = %s]' % (p, fn['ta'][0].get('s')), key=('G', fn['disp'], p))
        elif fn['q'] in (T + 'internal::accumulate_digits', T + 'internal::convert_positive', T + 'internal::convert_unsigned', T + 'internal::convert_signed'):
            probs = ranges.check_forwarders(idb, fn)
            kinds['forwarder'] += 1
            R.ob(ok=not probs, key=('fwd', fn['disp']))
            for p in probs: R.violation('G-forward', 'contrib/integer.hpp::' + fn['q'].replace(T, ''), p, key=('G', fn['disp'], p))
        elif fn['n'] == 'apply' and (fn.get('cls') or {}).get('q', '').replace(T, '') in ('unsigned_action', 'signed_action') or (fn['n'] == 'apply' and (fn.get('cls') or {}).get('tn') == T + 'maximum_action'):
            probs = check_action(fn)
            kinds['action'] += 1
            R.ob(ok=not probs, key=('act', fn['disp']))
            for p in probs: R.violation('G-action', 'contrib/integer.hpp::' + fn['q'].replace(T, '').split('<')[0], p, key=('G', fn['disp'], p))
    R.cov['obligations_by_kind'] = dict(kinds); R.cov['type_maximum_pairs'] = sorted(set(map(str, pairs)))[:60]
    for k, fl in (('syntax-type', 6), ('scanner', 12), ('accumulate_digit', 40), ('convert_negative', 4), ('forwarder', 16), ('action', 8), ('digit', 1), ('maximum', 10)):
        if kinds.get(k, 0) < fl: R.broke('only %d %s obligations (floor %d)' % (kinds.get(k, 0), k, fl))
    R.assumptions = ['accumulate_digit is verified per instantiated (type, maximum) pair (listed); its body is parametric in both',
                     'scanners are explored on all byte-class strings up to length %d (classes = what the code can distinguish); the value dimension is covered by (b)' % maxlen,
                     'action inputs handed to the conversion actions contain digits (guaranteed by the rules they are attached to)']
    return R.finish(
        'Numeral syntax: type graph vs documented syntax by automata (free continuation), hand-written scanners by bounded abstract execution over byte classes; conversions: interval analysis of '
        'accumulate_digit per (type, maximum), structure of the wrappers, piecewise-affine modular evaluation of convert_negative (no undefined behaviour).',
        'one obligation per rule type / scanner instantiation / (type, maximum) pair / wrapper')


def scan_one(db, u, maxlen):
    fn = db.get(u)
    q = (fn.get('cls') or {}).get('tn') or (fn.get('cls') or {}).get('q')
    spec, ovf = SCANNERS[q]
    def on_false(kind, val, pos):
        if ovf == 'throw' and kind != 'throw': return 'overflow is not reported by an exception (%s %r)' % (kind, val)
        if ovf == 'fail' and not (kind == 'return' and val is False and pos == 0): return 'overflow must be a local failure without consumption, got %s %r with %d byte(s) consumed' % (kind, val, pos)
        return None
    try:
        n, probs, parts = scan.compare(db, fn, spec, maxlen, oracles=ORACLES, on_oracle_false=on_false)
    except (scan.Budget, scan.Unmodelled) as e:
        return {'broken': str(e)}
    return {'n': n, 'probs': [(p[0], p[1]) for p in probs], 'parts': parts}


def check_action(fn):
    """st = 0; if( !convert( st, in.string_view() ) ) throw parse_error( ... )"""
    probs = []
    zero = ranges.find_nodes(fn['body'], lambda n: n.get('k') == 'bin' and n.get('op') == '=' and (n.get('l') or {}).get('d') == fn['params'][1]['id'] and (n.get('r') or {}).get('v') == 0)
    if not zero: probs.append('the target is not zeroed before the conversion')
    conv = ranges.find_nodes(fn['body'], lambda n: n.get('k') == 'call' and (n.get('cq') or '').startswith(T + 'internal::convert_'))
    if len(conv) != 1: probs.append('the action does not call exactly one conversion helper')
    ifs = ranges.find_nodes(fn['body'], lambda n: n.get('k') == 'If')
    ok = False
    for i in ifs:
        c = i.get('cond') or {}
        if c.get('k') == 'un' and c.get('op') == '!' and ranges.find_nodes(c, lambda n: n in conv) and ranges.find_nodes(i.get('then'), lambda n: n.get('k') == 'throw'):
            ok = True
    if not ok: probs.append('a failed conversion (overflow) is not reported by throwing')
    return probs
