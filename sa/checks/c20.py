"""C20  The URI grammar accepts exactly RFC 3986 URI references (DESIGN.md 3.5, 5/C20).

The type graph of uri::URI, URI_reference, absolute_URI, IPv4address, IPv6address (as recorded by the front end) is
translated into a byte-level PEG expression, compiled together with RFC 3986 Appendix A (classical semantics) into one
alternating automaton and decided exactly by right-to-left determinisation: no bound - the grammar is regular.
A global failure counts as rejection by construction (must: neither accepted nor a local failure).  "No other kind of
exception": the only throw sites reachable from the grammar's instantiations are normal< R >::raise (parse_error)."""
from .. import core, units, typegraph, lang
from ..spec import rfc3986

T = 'tao::pegtl::'
ROOTS = ['URI', 'URI_reference', 'absolute_URI', 'IPv4address', 'IPv6address']


def reachable(db, roots):
    """functions reachable from the root functions through resolved callees (call graph over the extracted bodies)"""
    seen = set(); todo = [f['u'] for f in roots]
    def callees(n, out):
        if isinstance(n, dict):
            if 'cu' in n: out.append(n['cu'])
            if n.get('k') == 'lambda' and isinstance(n.get('fn'), dict): callees(n['fn'].get('body'), out)
            for v in n.values(): callees(v, out)
        elif isinstance(n, list):
            for v in n: callees(v, out)
    while todo:
        u = todo.pop()
        if u in seen: continue
        seen.add(u)
        fn = db.get(u)
        if fn is None: continue
        out = []; callees(fn.get('body'), out); callees(fn.get('inits'), out)
        todo.extend(out)
    return [db.get(u) for u in seen if db.get(u) is not None]


def throw_sites(db, fns):
    out = []
    def walk(n, fn):
        if isinstance(n, dict):
            if n.get('k') == 'throw': out.append((fn, n.get('tt'), core.rel(n.get('loc') or '')))
            for v in n.values(): walk(v, fn)
        elif isinstance(n, list):
            for v in n: walk(v, fn)
    for fn in fns: walk(fn.get('body'), fn)
    return out


def run(tier):
    R = core.Result('C20', tier, level='proof')
    db = core.DB(core.extract(list(units.GRAMMARS)))
    cols = 0; nodes = 0
    for name in ROOTS:
        try:
            t = typegraph.Translator(db)
            e = t.translate(T + 'uri::' + name)
            r = lang.compare(e, rfc3986.ROOTS[name], name)
        except typegraph.Unsupported as u:
            R.broke('cannot translate uri::%s: %s' % (name, u)); continue
        except lang.TooBig as u:
            R.broke('uri::%s: %s' % (name, u)); continue
        cols += r['columns']; nodes += r['nodes']
        R.ob(ok=not r['mismatching_columns'], key=name)
        for w in r['witnesses'][:6]:
            R.violation('LANG', 'contrib/uri.hpp::uri::%s' % name,
                        '%s %r' % ('the grammar accepts, RFC 3986 rejects' if w[2] else 'RFC 3986 accepts, the grammar rejects', w[1].decode('latin1')),
                        {'witness': w[1].decode('latin1'), 'root': name}, key=('LANG', name, w[1]))
        R.sample({'root': 'uri::' + name, 'automaton nodes': r['nodes'], 'byte classes': r['classes'], 'columns (all reachable)': r['columns'], 'mismatching columns': r['mismatching_columns'],
                  'rule types translated': len(t.used)})
    R.cov['states'] = cols; R.cov['columns'] = cols; R.cov['automaton_nodes'] = nodes; R.cov['exhaustive'] = True
    # no other kind of exception
    allowed = 0
    roots = [f for f in db.order if (f.get('cls') or {}).get('tn') == T + 'normal' and f['n'] == 'match' and ((f['cls'].get('a') or [{}])[0].get('s') or '').startswith(T + 'uri::')]
    if len(roots) < 5: R.broke('only %d instantiations of the URI top-level rules found' % len(roots))
    reach = reachable(db, roots)
    R.cov['functions_reachable_from_the_uri_rules'] = len(reach)
    for fn, tt, loc in throw_sites(db, reach):
        q = fn['q']
        ok = fn['n'] == 'raise' and (fn.get('cls') or {}).get('tn') == T + 'normal' and (tt or '').startswith(T + 'parse_error')
        allowed += ok
        R.ob(ok=ok, key=('throw', q, tt))
        if not ok: R.violation('X-throw', '%s' % q.replace(T, ''), 'throws %s at %s: the URI grammar may end in an exception other than parse_error' % (tt, loc))
    if allowed < 1: R.broke('no raise site reachable from the URI rules (the grammar uses if_must: anchor vanished?)')
    R.cov['throw_sites_in_instantiations'] = allowed
    # dec-octet: maximum_rule< uint8_t > enters the language comparison by its specification; tie the code to that specification
    from . import c15
    from .. import ranges
    ipaths = core.extract(list(units.INTEGER)); idb = core.DB(ipaths)
    nd = 0
    for fn in idb.order:
        if fn['n'] == 'match' and (fn.get('cls') or {}).get('s') == T + "maximum_rule<unsigned char, '\\xff'>":
            nd += 1
            res = c15.scan_one(idb, fn['u'], 3)
            R.ob(ok=not res.get('probs') and not res.get('broken'), key=('dec_octet-scan', fn['disp']))
            if res.get('broken'): R.broke('dec_octet scanner: ' + res['broken'])
            for pr in (res.get('probs') or [])[:4]:
                R.violation(pr[0], 'contrib/integer.hpp::maximum_rule::match', 'dec-octet: ' + pr[1], key=('dec', pr[1]))
        if fn['q'] == T + 'internal::accumulate_digit' and fn['ta'][0].get('s') == 'unsigned char' and fn['ta'][1].get('v') in (255, -1):
            nd += 1
            probs, info = ranges.check_accumulate_digit(idb, fn)
            R.ob(ok=not probs, key=('dec_octet-range', fn['disp']))
            for pr in probs: R.violation('G-range', 'contrib/integer.hpp::internal::accumulate_digit', 'dec-octet: ' + pr, key=('decr', pr))
    if nd < 2: R.broke('maximum_rule< uint8_t > / accumulate_digit< uint8_t, 255 > instantiations not found')
    R.assumptions = ['the formal meaning of the internal rule templates (sa/typegraph.py) is what C01/C09/C10 establish for them; maximum_rule< uint8_t > enters by its specification (decimal <= 255 without leading zeros, all digits consumed)',
                     'RFC 3986 Appendix A transcribed in sa/spec/rfc3986.py']
    return R.finish(
        'Exact language equality (all byte strings, no bound) between the type graph of the URI grammar under PEG semantics and RFC 3986 Appendix A under classical semantics: one alternating '
        'automaton, right-to-left determinisation, every reachable column compared; shortest witness on difference.',
        'one obligation per root rule (all reachable columns explored) + one per throw site',
        trusted=['clang 14 front end (type graph)', 'sa/typegraph.py rule-template semantics', 'sa/lang.py AFA construction and determinisation', 'sa/spec/rfc3986.py transcription of RFC 3986 Appendix A', 'numpy'])
