"""C18  Depth and byte limits are enforced exactly and leave no residue (DESIGN.md 5/C18)."""
from .. import core, units, limits, rewind, repo_units, bounds
from ..mon_base import is_match_root

T = 'tao::pegtl::'


def analyse_unit(path):
    db = core.DB([path]); an = rewind.Analyzer(db)
    out = {'items': [], 'broken': [], 'guards': []}
    for fn in db.order:
        tn = (fn.get('cls') or {}).get('tn')
        if fn['n'] != 'match' or '/tao/pegtl/' not in fn['pat'] or not is_match_root(fn): continue
        try:
            if tn == T + 'limit_depth':
                probs, n = limits.check_limit_depth(db, fn, an)
                out['items'].append(('depth', fn['disp'], probs, n))
            elif tn == T + 'limit_bytes':
                probs, n = limits.check_limit_bytes(db, fn, an)
                out['items'].append(('bytes', fn['disp'], probs, n))
        except limits.Budget:
            out['broken'].append('budget exceeded in ' + fn['disp'][:160])
        except limits.Unmodelled as u:
            out['broken'].append('unmodelled construct: %s in %s' % (u, fn['disp'][:160]))
    for k in db.records:
        if k.startswith(T + 'internal::depth_guard') or k.startswith(T + 'internal::bytes_guard'):
            out['guards'].append((k, limits.deleted_copy_move(db, k)))
    # L-width: the path enumeration treats the counter as an unbounded number; that is only right if the counter can hold every value up to Maximum + 1.
    # Maximum is a std::size_t template parameter, so every place the counter lives in (the field of input_with_depth, the reference held by the guard)
    # has to be an unsigned type at least as wide
    out['widths'] = []
    for k, r in db.records.items():
        if k == T + 'internal::depth_guard' or k.startswith(T + 'input_with_depth<'):
            for f in r.get('fields', []):
                if f.get('n') == 'm_depth': out['widths'].append((k.split('<')[0], (f.get('t') or '').replace('&', '').replace('const', '').strip()))
    return out


def run(tier):
    R = core.Result('C18', tier)
    paths = core.extract(list(units.RULES))
    if tier == 'thorough': paths += repo_units.extract_all(R)
    results = repo_units.map_units('sa.checks.c18', 'analyse_unit', paths)
    seen = set(); kinds = {'depth': 0, 'bytes': 0}; guards = {}
    for p in paths:
        res = results[p]
        for b in res['broken']: R.broke_at(p, b)
        for k, ok in res['guards']: guards[k.split('<')[0]] = ok if guards.get(k.split('<')[0], True) else False
        for kind, disp, probs, n in res['items']:
            if disp in seen: continue
            seen.add(disp); kinds[kind] += 1
            R.ob(ok=not probs, key=disp)
            site = 'contrib/limit_%s.hpp::limit_%s::match' % (kind, kind)
            for pr in probs: R.violation('L-' + kind, site, pr, {'function': disp})
            if len(R.samples) < 4: R.sample({'function': disp[:200], 'paths': n})
    for g, ok in guards.items():
        R.ob(ok=bool(ok), key=('guard', g))
        if not ok: R.violation('L-guard', g.replace(T, ''), 'the guard can be copied or moved: a copy would restore the counter / the end twice')
    WIDE = {'unsigned long': 64, 'unsigned long long': 64, 'std::size_t': 64, 'size_t': 64}
    NARROW = {'unsigned int': 32, 'unsigned short': 16, 'unsigned char': 8, 'int': 31, 'short': 15, 'signed char': 7, 'char': 7, 'long': 63, 'long long': 63, 'bool': 1}
    widths = sorted(set(w for p in paths for w in results[p].get('widths', [])))
    for cls, t in widths:
        if t not in WIDE and t not in NARROW:
            R.broke('type %s of the depth counter in %s is not known to this check' % (t, cls)); continue
        ok = t in WIDE
        R.ob(ok=ok, key=('width', cls, t))
        if not ok: R.violation('L-width', 'contrib/input_with_depth.hpp::' + cls.replace(T, ''), 'the depth counter is kept in a %s (%d value bits) while the limit is a std::size_t: for every Maximum of %d or more the counter wraps before it can exceed the limit, nesting is unbounded and no error is raised' % (t, NARROW[t], 2 ** NARROW[t] - 1), key=('W', cls, t))
    if len(widths) < 2: R.broke('the fields that hold the depth counter (input_with_depth::m_depth, depth_guard::m_depth) were not found')
    if len(guards) < 2: R.broke('depth_guard / bytes_guard records not found')
    for k in ('depth', 'bytes'):
        if kinds[k] < 4: R.broke('only %d limit_%s instantiations analysed (floor 4: both apply modes, both rewind modes)' % (kinds[k], k))
    R.cov['instantiations'] = kinds
    R.assumptions = ['inspection beyond the lowered end is excluded by C03 (every read is dominated by a test against the input end the rule sees)',
                     'the guarded rule honours the rule contract (it may move the cursor anywhere inside the window, fail or throw)']
    return R.finish(
        'Path enumeration (exceptional exits included) of limit_depth::match and limit_bytes::match with the counter / the window as symbols: increment before and decrement after on every '
        'completion by RAII, exact threshold (raise iff depth after the increment exceeds Maximum), temporary end = current() + min( size(), Maximum ), end restored on every completion, '
        'guards not copyable.',
        'one obligation per instantiation (apply mode x rewind mode) and per guard class')
