"""C10  Character-class and encoding rules accept exactly the documented sets (DESIGN.md 5/C10, engine: sa/bits.py).

U-peek    every Peek class: the partition of all inputs (availability 0..8+, all byte values) computed from the instantiated
          body equals the reference partition (sa/spec/units.py: Unicode tables 3-5/3-6/3-7, byte order and mask definitions):
          same size reported on every input, same value on every accepted input, no unit read that is not known to be available
U-class   test_one of every ASCII / ABNF class and of one/not_one/range/not_range/ranges instantiations: accepted bytes equal
          the documented table (all 256 values, char signedness included)
U-ichar   ichar_equal< C > for all 256 C: accepts C, and the other case of C iff C is an ASCII letter
U-match   match() of the single-unit rules over every Peek: consumes exactly the reported size iff the decoded value is in the set"""
import collections, re
from .. import core, units, bits
from ..bits import *
from ..spec import units as ref

T = 'tao::pegtl::'; TI = T + 'internal::'


ORDERS = {'be': list(range(8)), 'le16': [1, 0, 3, 2, 5, 4, 7, 6], 'le32': [3, 2, 1, 0, 7, 6, 5, 4], 'le64': [7, 6, 5, 4, 3, 2, 1, 0]}


def space(order='be'):
    """availability first, then the bytes with the most significant byte of every unit first (compact decision diagrams)"""
    sp = Space(); sp.var('avail', CAP + 1)
    for k in ORDERS[order] + [8]: sp.var('b%d' % k, 256)
    return sp


def order_of(name):
    if '_le' not in name: return 'be'
    return 'le' + re.search(r'read_uint(\d+)_le', name).group(1)


def show_tuple(sp, w):
    a = w[0]
    n = min(a, len(w) - 1)
    by = [w[sp.byname['b%d' % k].level] for k in range(n)]
    return 'available=%s bytes=[%s]' % (a if a < CAP else '%d+' % CAP, ' '.join('%02X' % x for x in by))


def compare_rows(sp, outs, rows, values=True):
    """outs: [(size Val, value Val or None, cond)]; rows: reference.  returns problems"""
    probs = []
    impl = collections.defaultdict(lambda: None)
    for size, val, cond in outs:
        if not size.is_const():
            probs.append('the reported size is not a constant on a path'); continue
        impl[size.off] = sp.OR(impl[size.off], cond)
    spec = collections.defaultdict(lambda: None)
    allrows = None
    for n, cond, val in rows:
        spec[n] = sp.OR(spec[n], cond); allrows = sp.OR(allrows, cond)
    spec[0] = sp.OR(spec[0], sp.DIFF(sp.full(), allrows))
    for n in sorted(set(impl) | set(spec)):
        d = sp.DIFF(impl[n], spec[n])
        if d is not None:
            w = sp.witness(d)
            want = [m for m in spec if spec[m] is not None and sp.AND(spec[m], d) is not None]
            probs.append('%s on %s (and %d more inputs of this kind): the reference says %s' % (
                'reports no match' if n == 0 else 'reports a unit of size %d' % n, show_tuple(sp, w), sp.count(d) - 1,
                ', '.join('no match' if m == 0 else 'size %d' % m for m in sorted(want))))
    for size, val, cond in (outs if values else []):
        if not size.is_const() or size.off == 0: continue
        for n, rc, rv in rows:
            if n != size.off: continue
            reg = sp.AND(cond, rc)
            if reg is None: continue
            if not isinstance(val, Val):
                probs.append('no value on an accepting path'); continue
            d = binop('-', val, rv)
            bad = reg if (d.is_const() and d.off != 0) else (None if d.is_const() else sp.AND(reg, sp.sumset(d.tabs, ((-INF, -1 - d.off), (1 - d.off, INF)))))
            if bad is not None:
                w = sp.witness(bad)
                def at(v): return sum(t[w[l]] for l, t in v.tabs.items()) + v.off
                probs.append('decodes %s to %#x, the reference value is %#x (%d inputs differ)' % (show_tuple(sp, w), at(val), at(rv), sp.count(bad)))
    return probs


def run_peek(db, fn, order='be'):
    sp = space(order)
    it = Interp(db, sp)
    st = St(sp.full()); st.env[fn['params'][0]['id']] = Opaque('input')
    outs = []
    for kind, v, s in outcomes(it, fn, st):
        if kind != 'return' or not isinstance(v, Agg) or len(v.items) != 2:
            raise Unmodelled('a peek path ends with %s %r' % (kind, v))
        outs.append((v.items[1], v.items[0], s.cond))
    return sp, it, outs


def peek_reference(sp, cls):
    """reference rows for a Peek class named by its type string"""
    m = re.search(r'peek_(utf8|utf16|utf32|uint8|char|mask_uint8|uint|mask_uint)', cls)
    kind = m.group(1)
    big = 'read_uint' in cls and '_be' in cls
    if kind == 'utf8': return ref.utf8_rows(sp)
    if kind == 'char': return ref.char_rows(sp, True)
    if kind == 'uint8': return ref.uint_rows(sp, 1, True)
    if kind == 'mask_uint8': return None
    n = int(re.search(r'read_uint(\d+)', cls).group(1)) // 8
    if kind == 'utf16': return ref.utf16_rows(sp, big)
    if kind == 'utf32': return ref.utf32_rows(sp, big)
    if kind == 'uint': return ref.uint_rows(sp, n, big)
    return None


def rows_for(sp, name, targs):
    """reference rows of a Peek class given by its type string and template arguments"""
    if 'mask_uint' in name:
        mask = int(targs[-1]['v'])
        n = 1 if 'uint8' in name else int(re.search(r'read_uint(\d+)', name).group(1)) // 8
        return ref.uint_rows(sp, n, '_be' in name or n == 1, mask)
    return peek_reference(sp, name)


def set_of(cls):
    """( interval set of accepted values ) of an internal one / range / ranges / any instantiation, and its Peek argument"""
    tn = cls.get('tn'); a = cls.get('a') or []
    def ints(xs):
        out = []
        for x in xs:
            if x.get('k') == 'pack': out.extend(ints(x.get('a', [])))
            elif x.get('k') == 'int': out.append(int(x['v']))
        return out
    ALLV = ((-INF, INF),)
    if tn == TI + 'any': return ALLV, a[0]
    if tn == TI + 'one':
        s = ifrom(ints(a[2:]))
        return (s if int(a[0]['v']) == 1 else idiff(ALLV, s)), a[1]
    if tn == TI + 'range':
        lo, hi = ints(a[2:])
        s = ((lo, hi),)
        return (s if int(a[0]['v']) == 1 else idiff(ALLV, s)), a[1]
    if tn == TI + 'ranges':
        cs = ints(a[1:]); iv = [(cs[i], cs[i + 1]) for i in range(0, len(cs) - 1, 2)]
        if len(cs) % 2: iv.append((cs[-1], cs[-1]))
        return inorm(iv), a[0]
    return None, None


def inherited_matches(db):
    """single-unit rules without a match of their own (one<> / not_one<> with an empty list): ( facts of the rule, the match function it inherits )"""
    out = []
    for k, r in sorted(db.records.items()):
        if r.get('tn') != TI + 'one' or any(m.get('n') == 'match' for m in r.get('methods', [])): continue
        seen = set(); todo = list(r.get('bases', [])); found = None
        while todo and found is None:
            b = todo.pop(0)
            if b in seen: continue
            seen.add(b)
            for fn in db.order:
                if fn['n'] == 'match' and (fn.get('cls') or {}).get('s', fn['q'].rsplit('::', 1)[0]) == b and len(fn.get('params', [])) == 1: found = fn; break
            todo.extend((db.records.get(b) or {}).get('bases', []))
        out.append((dict(r, s=k), found))
    return out


def analyse_matches(db, R, kinds):
    work = []
    for fn in db.order:
        cls = fn.get('cls') or {}
        if fn['n'] != 'match' or cls.get('tn') not in (TI + 'one', TI + 'range', TI + 'ranges', TI + 'any') or '/tao/pegtl/' not in fn['pat']: continue
        work.append((cls, fn))
    for cls, fn in inherited_matches(db):
        if fn is None:
            R.broke('%s has no match of its own and none was found in its bases' % cls['s']); continue
        kinds['match-inherited'] += 1
        work.append((cls, fn))
    for cls, fn in work:
        S, peek = set_of(cls)
        if S is None: continue
        pname = peek['s'].replace(TI, '')
        rule = cls['s'].replace(TI, '').replace('result_on_found::', '')
        try:
            sp = space(order_of(pname)); it = Interp(db, sp)
            st = St(sp.full()); st.env[fn['params'][0]['id']] = Opaque('input')
            outs = []; probs = []
            for kind, v, s in outcomes(it, fn, st):
                if kind != 'return' or not isinstance(v, Val) or not v.is_const(): raise Unmodelled('a match path ends with %s %r' % (kind, v))
                bumps = [e for e in s.eff if e[0] == 'bump']
                if v.off and len(bumps) != 1: probs.append('a path returns true after %d bump calls' % len(bumps)); continue
                if not v.off and bumps: probs.append('a path returns false after consuming input'); continue
                outs.append((bumps[0][1] if v.off else Val.const(0), None, s.cond))
            rows = []
            for n, cond, val in rows_for(sp, pname, peek.get('a') or []):
                rows.append((n, sp.AND(cond, ref.in_set(sp, val, S)), None))
            probs += compare_rows(sp, outs, rows, values=False)
            probs += ['%s (%s)' % (m, l) for k, m, l in it.findings]
        except (Unmodelled, Blowup) as e:
            R.broke('%s::match: %s' % (rule, e)); continue
        kinds['match'] += 1
        R.ob(ok=not probs, key=('match', rule))
        for p in probs:
            R.violation('U-match', 'internal/%s.hpp::match' % cls['tn'].split('::')[-1], '%s: %s' % (rule, p.replace('reports a unit of size', 'consumes').replace('reports no match', 'does not match')), key=('match', rule, p))
        if not probs and len(R.samples) < 14 and 'utf' in pname: R.sample({'rule': rule, 'paths': len(outs), 'matching_inputs': sum(sp.count(c) for s0, v, c in outs if s0.off)})


def analyse_peeks(db, R, kinds):
    for fn in db.order:
        if fn['n'] != 'peek' or not fn['q'].startswith(TI + 'peek_'): continue
        cls = fn.get('cls') or {}
        name = fn['q'][len(TI):-len('::peek')]
        key = ('peek', name)
        try:
            sp, it, outs = run_peek(db, fn, order_of(name))
            rows = rows_for(sp, name, cls.get('a') or [])
            probs = compare_rows(sp, outs, rows)
            probs += ['%s (%s)' % (m, l) for k, m, l in it.findings]
        except (Unmodelled, Blowup) as e:
            R.broke('%s: %s' % (name, e)); continue
        kinds['peek'] += 1
        R.ob(ok=not probs, key=key)
        for p in probs:
            R.violation('U-peek', fn['loc'].split('/include/tao/pegtl/')[-1].split(':')[0] + '::' + name + '::peek', p, {'function': fn['disp'][:160]}, key=(key, p))
        if not probs and len(R.samples) < 8:
            R.sample({'peek': name, 'paths': len(outs), 'accepted_inputs': sum(sp.count(c) for s, v, c in outs if s.is_const() and s.off), 'units_read': sorted(it.reads)})


# ---- byte classes
def b(*xs):
    out = []
    for x in xs:
        if isinstance(x, str):
            if len(x) == 3 and x[1] == '-': out.append((ord(x[0]), ord(x[2])))
            else: out.extend((ord(c), ord(c)) for c in x)
        elif isinstance(x, tuple): out.append(x)
        else: out.append((x, x))
    return inorm(out)


# doc/Rule-Reference.md "ASCII Rules" and RFC 5234 appendix B.1
NAMED = {
    T + 'alnum': b('a-z', 'A-Z', '0-9'), T + 'alpha': b('a-z', 'A-Z'), T + 'blank': b(' \t'), T + 'digit': b('0-9'),
    T + 'identifier_first': b('a-z', 'A-Z', '_'), T + 'identifier_other': b('a-z', 'A-Z', '0-9', '_'), T + 'lower': b('a-z'),
    T + 'nul': b(0), T + 'odigit': b('0-7'), T + 'print': b((32, 126)), T + 'seven': b((0, 127)),
    T + 'space': b(' \n\r\t\v\f'), T + 'upper': b('A-Z'), T + 'xdigit': b('0-9', 'a-f', 'A-F'),
    T + 'abnf::ALPHA': b('a-z', 'A-Z'), T + 'abnf::BIT': b('01'), T + 'abnf::CHAR': b((1, 127)), T + 'abnf::CR': b(13), T + 'abnf::CTL': b((0, 31), 127),
    T + 'abnf::DIGIT': b('0-9'), T + 'abnf::DQUOTE': b(34), T + 'abnf::HEXDIG': b('0-9', 'a-f', 'A-F'), T + 'abnf::HTAB': b(9), T + 'abnf::LF': b(10),
    T + 'abnf::SP': b(32), T + 'abnf::VCHAR': b((33, 126)), T + 'abnf::WSP': b(' \t'),
}


def char_fn_sets(db, fn):
    """accepted / rejected byte sets of a predicate  bool f( char c )"""
    sp = Space(); sp.var('b0', 256)
    it = Interp(db, sp)
    st = St(sp.full())
    ps = fn.get('params', [])
    cp = [p for p in ps if ctype(p.get('t')) and ctype(p['t'])[0] == 8]
    if len(cp) != 1: raise Unmodelled('expected one character parameter')
    for p in ps:
        st.env[p['id']] = fit(Val({0: list(range(256))}), p['t']) if p is cp[0] else Opaque('tag')
    acc = (); rej = ()
    for kind, v, s in outcomes(it, fn, st):
        if kind != 'return' or not isinstance(v, Val) or not v.is_const(): raise Unmodelled('predicate path ends with %s %r' % (kind, v))
        x = sp.project(s.cond, 0)
        if v.off: acc = iunion(acc, x)
        else: rej = iunion(rej, x)
    return acc, rej


def uchar(v):
    return v & 0xFF


def args_set(cls):
    """documented set of an internal one/range/ranges instantiation from its template arguments"""
    tn = cls.get('tn'); a = cls.get('a') or []
    def ints(xs):
        out = []
        for x in xs:
            if x.get('k') == 'pack': out.extend(ints(x.get('a', [])))
            elif x.get('k') == 'int': out.append(int(x['v']))
        return out
    if tn == TI + 'one':
        s = ifrom([uchar(v) for v in ints(a[2:])])
        return s if int(a[0]['v']) == 1 else idiff(((0, 255),), s)
    if tn == TI + 'range':
        lo, hi = ints(a[2:])
        # the bounds are chars: the range is over the (signed) char order
        s = ifrom([uchar(v) for v in range(lo, hi + 1)])
        return s if int(a[0]['v']) == 1 else idiff(((0, 255),), s)
    if tn == TI + 'ranges':
        cs = ints(a[1:])
        vals = []
        for i in range(0, len(cs) - 1, 2): vals.extend(range(cs[i], cs[i + 1] + 1))
        if len(cs) % 2: vals.append(cs[-1])
        return ifrom([uchar(v) for v in vals])
    if tn == TI + 'any': return ((0, 255),)
    return None


def analyse_classes(db, R, kinds):
    sets = {}
    for fn in db.order:
        if fn['n'] != 'test_one' or '/tao/pegtl/' not in fn['pat']: continue
        cls = fn.get('cls') or {}
        if 'peek_char' not in (cls.get('s') or ''): continue
        want = args_set(cls)
        if want is None: continue
        try:
            acc, rej = char_fn_sets(db, fn)
        except Unmodelled as e:
            R.broke('%s: %s' % (fn['disp'][:120], e)); continue
        kinds['class'] += 1
        sets[cls['s']] = acc
        ok = acc == want and iunion(acc, rej) == ((0, 255),)
        R.ob(ok=ok, key=('test_one', cls['s']))
        if not ok:
            extra = idiff(acc, want); missing = idiff(want, acc)
            R.violation('U-class', 'internal/%s.hpp::test_one' % cls['tn'].split('::')[-1], '%s::test_one accepts %s, documented %s (extra: %s; missing: %s)' % (
                cls['s'].replace(TI, '').replace('result_on_found::', ''), ishow(acc), ishow(want), ishow(extra) or '-', ishow(missing) or '-'), key=('class', cls['s']))
    # named classes: the class must derive from an internal rule whose accepted set is the documented table
    for name, want in sorted(NAMED.items()):
        r = db.records.get(name)
        if r is None:
            R.broke('class %s is not in the universe' % name); continue
        base = None
        todo = list(r.get('bases', []))
        while todo:
            x = todo.pop(0)
            if x in sets: base = x; break
            todo.extend((db.records.get(x) or {}).get('bases', []))
        if base is None:
            R.broke('class %s: no analysed test_one among its bases %s' % (name, r.get('bases'))); continue
        kinds['named'] += 1
        ok = sets[base] == want
        R.ob(ok=ok, key=('named', name))
        if not ok:
            R.violation('U-class', 'ascii.hpp / contrib/abnf.hpp::' + name.split('::')[-1], '%s accepts %s, documented %s' % (name.replace(T, ''), ishow(sets[base]), ishow(want)), key=('named', name))


def analyse_ichar(db, R, kinds):
    seen = set()
    for fn in db.order:
        if fn['q'] != TI + 'ichar_equal': continue
        C = uchar(int(fn['ta'][0]['v']))
        try:
            acc, rej = char_fn_sets(db, fn)
        except Unmodelled as e:
            R.broke('ichar_equal<%d>: %s' % (C, e)); continue
        seen.add(C); kinds['ichar'] += 1
        want = {C}
        if 65 <= C <= 90 or 97 <= C <= 122: want.add(C ^ 0x20)
        want = ifrom(want)
        R.ob(ok=acc == want, key=('ichar', C))
        if acc != want:
            R.violation('U-ichar', 'internal/istring.hpp::ichar_equal', 'ichar_equal< %s > accepts %s, must accept exactly %s' % (repr(chr(C)) if 32 <= C < 127 else '%#04x' % C, ishow(acc), ishow(want)), key=('ichar', C))
    if len(seen) != 256: R.broke('ichar_equal analysed for %d of 256 characters' % len(seen))


def run(tier):
    R = core.Result('C10', tier)
    db = core.DB(core.extract(list(units.BITS)))
    kinds = collections.Counter()
    analyse_peeks(db, R, kinds)
    analyse_classes(db, R, kinds)
    analyse_ichar(db, R, kinds)
    analyse_matches(db, R, kinds)
    R.cov['obligations_by_kind'] = dict(kinds)
    for k, fl in (('peek', 20), ('class', 30), ('named', 27), ('ichar', 256), ('match', 85), ('match-inherited', 4)):
        if kinds.get(k, 0) < fl: R.broke('only %d %s obligations (floor %d)' % (kinds.get(k, 0), k, fl))
    R.assumptions = ['the object representation of integers is little-endian (the extraction target equals the build target); the big-endian branch of endian_gcc.hpp is not instantiated on this target',
                     'ICU based rules are outside the statement; 64-bit values are covered exactly (all 2^64 values, as separable sums), not by boundary samples']
    return R.finish(
        'Exact set evaluation of every instantiated decoder and predicate body: values are separable sums of per-byte tables, conditions are decision diagrams over (availability, byte0..byte7); '
        'the resulting partition of all inputs is compared with reference partitions written from Unicode tables 3-5/3-6/3-7, the byte-order definitions and the documented class tables.',
        'one obligation per Peek class, per test_one instantiation, per named class, per character of ichar_equal')
