"""C09  Convenience and contrib rules equal their documented expansions (DESIGN.md 4.6, 5/C09).

EQUIV: for every documented rule, instantiated over opaque sub-rules (arities 1-3, repetition bounds 0..4, both rewind
modes), the instantiated implementation is executed in linked mode under an answer oracle (sub-rules may fail, fail after
consuming - modelled by the rewind contract -, succeed empty, succeed consuming, raise) and compared, per answer history,
with the PEG-formalism evaluation of the [Equivalent] clause of doc/Rule-Reference.md: same result (true / false / which
global failure), same consumed prefix, no consumption on local failure."""
import os
from .. import core, units, equiv, repo_units
from ..spec import equivalents

T = 'tao::pegtl::'
CLASSICAL = {'seq', 'sor', 'star', 'plus', 'opt', 'at', 'not_at'}
C09_RULES = {'if_must', 'if_must_else', 'if_then_else', 'list', 'list_must', 'list_tail', 'minus', 'must', 'opt_must', 'pad', 'pad_opt', 'partial', 'rep', 'rep_max',
             'rep_min', 'rep_min_max', 'rep_opt', 'star_must', 'strict', 'star_strict', 'star_partial', 'until', 'separated_seq', 'if_then', 'rematch'}


def root_rule(fn):
    cls = fn.get('cls') or {}
    if cls.get('tn') != T + 'normal' or fn['n'] != 'match': return None
    rt = (cls.get('a') or [{}])[0]
    s = rt.get('s', '')
    if not s.startswith(T): return None
    name = (rt.get('tn') or rt.get('q') or '')[len(T):]
    if name.startswith('internal::'):
        if name not in ('internal::if_then', 'internal::if_then_else'): return None
        name = 'if_then'
    return name, s


def analyse_unit(path, maxq, names):
    db = core.DB([path])
    out = {'items': [], 'broken': []}
    names = set(names)
    for fn in db.order:
        rr = root_rule(fn)
        if rr is None or rr[0] not in names: continue
        try:
            r = equiv.compare(db, fn, maxq)
        except KeyError as e:
            out['broken'].append('no documented expansion for %s (%s)' % (rr[1], e)); continue
        except equiv.Budget:
            out['broken'].append('budget exceeded comparing %s' % rr[1]); continue
        except equiv.Unmodelled as e:
            out['broken'].append('unmodelled construct in %s: %s' % (rr[1], e)); continue
        if r is None: continue
        out['items'].append({'rule': rr[1], 'name': rr[0], 'mode': r['mode'], 'histories': r['histories'], 'truncated': r['truncated'], 'expr': r['expr'],
                             'problems': [(p[0], p[1], [list(map(str, q)) for q in p[2]][-12:]) for p in r['problems']], 'pat': core.relfile(fn['pat'])})
    return out


def run(tier, prop='C09', names=C09_RULES, kinds=('E-result', 'E-rewind', 'E-dirty', 'E-R3'), floor=150):
    R = core.Result(prop, tier, level='model_checking')
    maxq = 8 if tier == 'quick' else 10
    doc = os.path.join(core.REPO, 'doc', 'Rule-Reference.md')
    try:
        for p in equivalents.check_doc(open(doc).read()): R.broke(p)
    except OSError:
        R.broke('doc/Rule-Reference.md not found')
    paths = core.extract(list(units.EQUIV))
    results = repo_units.map_units('sa.checks.c09', 'analyse_unit', paths, extra=(maxq, sorted(names)))
    hist = 0; trunc = 0; covered = set(); n = 0
    for p in paths:
        res = results[p]
        for b in res['broken']: R.broke(b)
        for it in res['items']:
            n += 1; hist += it['histories']; trunc += it['truncated']; covered.add(it['name'])
            probs = [q for q in it['problems'] if q[0] in kinds]
            R.ob(ok=not probs, key=(it['rule'], it['mode']))
            for q in probs:
                R.violation(q[0], 'rule %s' % it['rule'].replace(T, ''), '%s [rewind_mode::%s]' % (q[1], 'required' if it['mode'] == 0 else 'optional'),
                            {'documented expansion': it['expr'], 'answer history': q[2]}, key=(q[0], it['rule'], it['mode'], q[1][:120]))
            if len(R.samples) < 8 and it['histories'] > 20:
                R.sample({'rule': it['rule'].replace(T, ''), 'rewind_mode': it['mode'], 'documented expansion': it['expr'], 'answer histories compared': it['histories'], 'truncated at %d questions' % maxq: it['truncated']})
    R.cov['rule_instantiations_compared'] = n; R.cov['answer_histories'] = hist; R.cov['histories_truncated_at_bound'] = trunc; R.cov['max_distinct_questions'] = maxq
    R.cov['states'] = hist; R.cov['transitions'] = hist; R.cov['traces_validated_against_impl'] = hist
    for nm in sorted(set(names) - covered): R.broke('no instantiation of %s was compared' % nm)
    if n < floor: R.broke('only %d rule instantiations compared (floor %d)' % (n, floor))
    R.assumptions = ['sub-rules are functions of (position, input): the same question always has the same answer (PEG formalism has no side effects)',
                     'answer histories are bounded by %d distinct questions (stated bound; at least two iterations of every loop)' % maxq,
                     'byte-level rules of the property (eolf, keyword, identifier, shebang, string, two, three, forty_two, ranges, everything, rep_string, rep_one_min_max) are decided by the language engine, not here']
    return R.finish(
        'Product of the implementation machine (linked abstract execution of the instantiated bodies) and the specification machine (PEG formalism on the documented expansion) under '
        'one lazily built answer oracle; compared on result, consumed prefix and identity of the raised rule for every answer history within the bound. The doc clauses the table was '
        'transcribed from are re-checked against doc/Rule-Reference.md on every run.',
        'one obligation per (rule instantiation, rewind mode); histories enumerated exhaustively up to the question bound')
