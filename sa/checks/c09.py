"""C09  Convenience and contrib rules equal their documented expansions (DESIGN.md 4.6, 5/C09).

EQUIV: for every documented rule, instantiated over opaque sub-rules (arities 1-3, repetition bounds 0..4, both rewind
modes), the instantiated implementation is executed in linked mode under an answer oracle (sub-rules may fail, fail after
consuming - modelled by the rewind contract -, succeed empty, succeed consuming, raise) and compared, per answer history,
with the PEG-formalism evaluation of the [Equivalent] clause of doc/Rule-Reference.md: same result (true / false / which
global failure), same consumed prefix, no consumption on local failure."""
import os
from .. import core, units, equiv, repo_units
from ..spec import equivalents

T = 'tao::pegtl::'
CLASSICAL = {'seq', 'sor', 'star', 'plus', 'opt', 'at', 'not_at'}
C09_RULES = {'if_must', 'if_must_else', 'if_then_else', 'list', 'list_must', 'list_tail', 'minus', 'must', 'opt_must', 'pad', 'pad_opt', 'partial', 'rep', 'rep_max',
             'rep_min', 'rep_min_max', 'rep_opt', 'star_must', 'strict', 'star_strict', 'star_partial', 'until', 'separated_seq', 'if_then', 'rematch'}


def root_rule(fn):
    cls = fn.get('cls') or {}
    if cls.get('tn') != T + 'normal' or fn['n'] != 'match': return None
    rt = (cls.get('a') or [{}])[0]
    s = rt.get('s', '')
    if s in equiv.CHAIN_SPECS: return 'if_then', s
    if not s.startswith(T): return None
    name = (rt.get('tn') or rt.get('q') or '')[len(T):]
    if name.startswith('internal::'):
        if name not in ('internal::if_then', 'internal::if_then_else'): return None
        name = 'if_then'
    return name, s


def analyse_unit(path, maxq, names):
    db = core.DB([path])
    out = {'items': [], 'broken': []}
    names = set(names)
    for fn in db.order:
        rr = root_rule(fn)
        if rr is None or rr[0] not in names: continue
        try:
            r = equiv.compare(db, fn, maxq)
        except KeyError as e:
            out['broken'].append('no documented expansion for %s (%s)' % (rr[1], e)); continue
        except equiv.Budget:
            out['broken'].append('budget exceeded comparing %s' % rr[1]); continue
        except equiv.Unmodelled as e:
            out['broken'].append('unmodelled construct in %s: %s' % (rr[1], e)); continue
        if r is None: continue
        out['items'].append({'rule': rr[1], 'name': rr[0], 'mode': r['mode'], 'histories': r['histories'], 'truncated': r['truncated'], 'expr': r['expr'],
                             'problems': [(p[0], p[1], [list(map(str, q)) for q in p[2]][-12:]) for p in r['problems']], 'pat': core.relfile(fn['pat'])})
    return out


DOC_BYTE_CLAUSES = [      # the clauses of the documentation the pairs of universe/u_conv.cc were transcribed from (re-checked on every run)
    ('doc/Rule-Reference.md', '###### `eolf`', '[Equivalent] to `sor< eof, eol >`'),
    ('doc/Rule-Reference.md', '###### `everything`', '[Equivalent] to `until< eof, any >`'),
    ('doc/Rule-Reference.md', '###### `identifier_first`', "[Equivalent] to `ranges< 'a', 'z', 'A', 'Z', '_' >`"),
    ('doc/Rule-Reference.md', '###### `identifier_other`', "[Equivalent] to `ranges< 'a', 'z', 'A', 'Z', '0', '9', '_' >`"),
    ('doc/Rule-Reference.md', '###### `identifier`', '[Equivalent] to `seq< identifier_first, star< identifier_other > >`'),
    ('doc/Rule-Reference.md', '###### `keyword< C... >`', '[Equivalent] to `seq< string< C... >, not_at< identifier_other > >`'),
    ('doc/Rule-Reference.md', '###### `shebang`', "[Equivalent] to `if_must< string< '#', '!' >, until< eolf > >`"),
    ('doc/Rule-Reference.md', '###### `two< C >`', '`ascii::two< C >::rule_t` is `internal::string< C, C >`'),
    ('doc/Rule-Reference.md', '###### `three< C >`', '`ascii::three< C >::rule_t` is `internal::string< C, C, C >`'),
    ('doc/Rule-Reference.md', '###### `forty_two< C... >`', '[Equivalent] to `rep< 42, one< C... > >`'),
    ('doc/Rule-Reference.md', '###### `string< C... >`', '[Equivalent] to `seq< one< C >... >`'),
    ('doc/Rule-Reference.md', '###### `ranges< C1, D1, C2, D2, ..., E >`', '[Equivalent] to `sor< range< C1, D1 >, range< C2, D2 >, ..., one< E > >`'),
    ('doc/Contrib-and-Examples.md', '###### `<tao/pegtl/contrib/rep_string.hpp>`', 'optimised version of `rep< N, string< Cs... > >`'),
    ('doc/Contrib-and-Examples.md', '###### `<tao/pegtl/contrib/rep_one_min_max.hpp>`', 'optimised version of `rep_min_max< Min, Max, ascii::one< C > >`'),
]
BYTE_LEAVES = ('string', 'istring', 'bytes', 'rep_one_min_max', 'eol', 'eolf', 'any', 'one', 'range', 'ranges', 'everything')


def byte_impl_unit(db, u):
    """B-impl: the instantiated match() of a hand-written byte-level rule against the meaning the type graph gives it"""
    from .. import bits, typegraph
    from ..spec import pegsets
    from . import c06, c10
    fn = db.get(u)
    pol = c06.eol_of(fn); cls = fn['cls']
    try:
        e = typegraph.Translator(db, eol=pol).resolve(cls['s'])
        sp = c10.space('be'); it = bits.Interp(db, sp)
        st = bits.St(sp.full()); st.env[fn['params'][0]['id']] = bits.Opaque('input')
        impl = {}
        for kind, v, s in bits.outcomes(it, fn, st):
            if kind == 'window': k = ('window', 0)
            elif kind == 'return' and isinstance(v, bits.Val) and v.is_const(): k = ('ok', s.pos) if v.off else ('fail', 0)
            else: raise bits.Unmodelled('path ends with %s' % kind)
            if k[0] == 'fail' and s.pos: return {'probs': ['returns false with %d byte(s) consumed' % s.pos]}
            impl[k] = sp.OR(impl.get(k), s.cond)
        spec = pegsets.partition(sp, e)
        probs = []
        for ki, ci in impl.items():
            for ks, cs in spec.items():
                if ki == ks or 'window' in (ki[0], ks[0]): continue
                both = sp.AND(ci, cs)
                if both is not None:
                    show = lambda k: 'matches %d byte(s)' % k[1] if k[0] == 'ok' else 'fails'
                    probs.append('on %s the rule %s, its documented meaning %s (%d inputs)' % (c10.show_tuple(sp, sp.witness(both)), show(ki), show(ks), sp.count(both)))
        return {'probs': probs[:4], 'classes': len(impl)}
    except (bits.Unmodelled, bits.Blowup, typegraph.Unsupported) as ex:
        return {'broken': str(ex)}


def flatten(e):
    """normal form of a byte-level expression: nested sequences / choices flattened, one-element ones dissolved"""
    if not isinstance(e, tuple): return e
    t = e[0]
    if t in ('seq', 'sor'):
        out = []
        for x in e[1]:
            x = flatten(x)
            if isinstance(x, tuple) and x[0] == t: out.extend(x[1])
            elif t == 'seq' and x == ('succ',): continue
            else: out.append(x)
        if len(out) == 1: return out[0]
        if not out: return ('succ',) if t == 'seq' else ('fail',)
        return (t, out)
    if t in ('star', 'opt', 'at', 'not_at', 'must'): return (t, flatten(e[1]))
    return e


def byte_rules(R, tier):
    """the byte-level rules of the property: (1) hand-written matchers against their formal meaning, exactly (BITS); (2) the
    type graph of every convenience rule against the type graph of its documented expansion (LANG, prefix equivalence)"""
    from .. import typegraph, lang
    from . import c06
    for f, head, clause in DOC_BYTE_CLAUSES:
        try: text = open(os.path.join(core.REPO, f)).read()
        except OSError: R.broke('%s not found' % f); continue
        i = text.find(head)
        j = text.find('\n######', i + 1)
        if i < 0 or clause not in text[i:j if j > 0 else len(text)]: R.broke('the documentation no longer says "%s" under %s (%s)' % (clause, head, f))
    # (1)
    paths = core.extract(list(units.POS)); db = core.DB(paths)
    items = []
    for fn in db.order:
        cls = fn.get('cls') or {}
        if fn['n'] != 'match' or len(fn.get('params', [])) != 1 or c06.eol_of(fn) is None or not (cls.get('tn') or cls.get('q') or '').startswith(T + 'internal::'): continue
        if (cls.get('tn') or cls.get('q'))[len(T + 'internal::'):] not in BYTE_LEAVES: continue
        if 'peek_utf8' in (cls.get('s') or '') and 'result_on_found::failure' in cls['s']: continue      # negated UTF-8 sets: covered by C10 (the translator enumerates ranges)
        items.append(fn['u'])
    res = repo_units.map_items('sa.checks.c09', 'byte_impl_unit', paths, items)
    nimpl = 0
    for u in items:
        fn = db.get(u); r = res[u]
        name = '%s over eol::%s' % (fn['cls']['s'].replace(T, '').replace('internal::', '').replace('result_on_found::', ''), c06.eol_of(fn))
        if r.get('broken'):
            R.broke('%s: %s' % (name, r['broken'])); continue
        nimpl += 1
        R.ob(ok=not r['probs'], key=('byte-impl', name))
        for pmsg in r['probs']: R.violation('B-impl', 'rule %s' % name.split(' over')[0], '%s: %s' % (name, pmsg), key=('B-impl', name, pmsg))
    # (2)
    cdb = core.DB(core.extract(list(units.CONV)))
    npairs = 0
    for k, r in sorted(cdb.records.items()):
        if not k.startswith('vu::conv::eqv<'): continue
        a = r.get('a') or []
        if len(a) != 2: continue
        name = a[0]['s'].replace(T, '')
        try:
            t = typegraph.Translator(cdb)
            e1 = t.translate(a[0]['s']); e2 = typegraph.Translator(cdb).translate(a[1]['s'])
            rr = {'mismatching_columns': 0, 'witnesses': [], 'columns': 0} if flatten(e1) == flatten(e2) else lang.compare_peg(e1, e2, name)
        except (typegraph.Unsupported, lang.TooBig) as ex:
            R.broke('cannot translate %s or its expansion: %s' % (name, ex)); continue
        npairs += 1
        R.ob(ok=not rr['mismatching_columns'], key=('byte-doc', name))
        for w in rr['witnesses'][:2]:
            R.violation('B-doc', 'rule %s' % name, 'on an input starting with %r the rule and its documented expansion %s differ (%s)' % (w[1], a[1]['s'].replace(T, ''), 'the rule matches a prefix the expansion does not' if w[2] else 'the expansion matches a prefix the rule does not'), key=('B-doc', name, w[1]))
        if len(R.samples) < 11: R.sample({'rule': name, 'documented expansion': a[1]['s'].replace(T, ''), 'decided by': 'identical normal form' if not rr['columns'] else 'language engine, %d columns' % rr['columns']})
    R.cov['byte_level_matchers_compared'] = nimpl; R.cov['byte_level_doc_pairs'] = npairs
    if nimpl < 100: R.broke('only %d byte-level matchers compared (floor 100)' % nimpl)
    if npairs < 20: R.broke('only %d documented byte-level equivalences compared (floor 20)' % npairs)


def run(tier, prop='C09', names=C09_RULES, kinds=('E-result', 'E-rewind', 'E-dirty', 'E-R3'), floor=150):
    R = core.Result(prop, tier, level='model_checking')
    maxq = 8 if tier == 'quick' else 10
    doc = os.path.join(core.REPO, 'doc', 'Rule-Reference.md')
    try:
        for p in equivalents.check_doc(open(doc).read()): R.broke(p)
    except OSError:
        R.broke('doc/Rule-Reference.md not found')
    paths = core.extract(list(units.EQUIV))
    results = repo_units.map_units('sa.checks.c09', 'analyse_unit', paths, extra=(maxq, sorted(names)))
    hist = 0; trunc = 0; covered = set(); n = 0
    for p in paths:
        res = results[p]
        for b in res['broken']: R.broke(b)
        for it in res['items']:
            n += 1; hist += it['histories']; trunc += it['truncated']; covered.add(it['name'])
            probs = [q for q in it['problems'] if q[0] in kinds]
            R.ob(ok=not probs, key=(it['rule'], it['mode']))
            for q in probs:
                R.violation(q[0], 'rule %s' % it['rule'].replace(T, ''), '%s [rewind_mode::%s]' % (q[1], 'required' if it['mode'] == 0 else 'optional'),
                            {'documented expansion': it['expr'], 'answer history': q[2]}, key=(q[0], it['rule'], it['mode'], q[1][:120]))
            if len(R.samples) < 8 and it['histories'] > 20:
                R.sample({'rule': it['rule'].replace(T, ''), 'rewind_mode': it['mode'], 'documented expansion': it['expr'], 'answer histories compared': it['histories'], 'truncated at %d questions' % maxq: it['truncated']})
    R.cov['rule_instantiations_compared'] = n; R.cov['answer_histories'] = hist; R.cov['histories_truncated_at_bound'] = trunc; R.cov['max_distinct_questions'] = maxq
    R.cov['states'] = hist; R.cov['transitions'] = hist; R.cov['traces_validated_against_impl'] = hist
    if prop == 'C09': byte_rules(R, tier)
    for nm in sorted(set(names) - covered): R.broke('no instantiation of %s was compared' % nm)
    if n < floor: R.broke('only %d rule instantiations compared (floor %d)' % (n, floor))
    R.assumptions = ['sub-rules are functions of (position, input): the same question always has the same answer (PEG formalism has no side effects)',
                     'answer histories are bounded by %d distinct questions (stated bound; at least two iterations of every loop)' % maxq,
                     'byte-level rules of the property (eolf, keyword, identifier, shebang, string, two, three, forty_two, ranges, everything, rep_string, rep_one_min_max): the hand-written matchers are compared exactly with the formal meaning of their rule type (sa/bits.py, five end-of-line policies), and the type graph of every rule with that of its documented expansion (language engine)']
    return R.finish(
        'Product of the implementation machine (linked abstract execution of the instantiated bodies) and the specification machine (PEG formalism on the documented expansion) under '
        'one lazily built answer oracle; compared on result, consumed prefix and identity of the raised rule for every answer history within the bound. The doc clauses the table was '
        'transcribed from are re-checked against doc/Rule-Reference.md on every run.',
        'one obligation per (rule instantiation, rewind mode); histories enumerated exhaustively up to the question bound')
