"""C19  Error-reporting helpers return the exact source line of any position (DESIGN.md 5/C19, engine: sa/bits.py).

at, begin_of_line, end_of_line and line_at of memory_input, for both tracking modes and all five end-of-line policies, are
evaluated over ( available bytes, byte values, the offset k of the position, the offset s of the start of its line ) where
the position handed in is what the input itself reports there (C06): byte = initial byte + k, column = ( s == 0 ? initial column : 1 ) + k - s.
  E-at     at( p ) is begin + k, inside [ begin, end ]
  E-bol    begin_of_line( p ) is begin + s
  E-eol    end_of_line( p ) is the first offset j >= k at which a line ending of the input's policy starts, or the end: the second
           input spans exactly [ at( p ), end ), the rule applied is interpreted by its documented meaning (until / at by C01,
           eolf by the instantiated code), nothing beyond the end is read
  E-line   line_at( p ) is ( begin + s, j - s )
With default initial counters all four are decided exactly; with non-default initial byte / column the pointer arithmetic of at and
begin_of_line is evaluated with symbolic initial counters."""
import collections, re
from .. import core, units, bits
from ..bits import *
from . import c10

T = 'tao::pegtl::'; TI = T + 'internal::'
KMAX = 3


def eol_sets(sp, pol, i):
    """tuple set: a line ending of the policy starts at offset i (and is completely available)"""
    def byte(j, c): return sp.restrict(sp.byname['b%d' % j].level, ((c, c),))
    def avail_gt(j): return sp.restrict(sp.byname['avail'].level, ((j + 1, CAP),))
    lf = sp.AND(avail_gt(i), byte(i, 10)); cr = sp.AND(avail_gt(i), byte(i, 13))
    crlf = sp.AND(sp.AND(avail_gt(i + 1), byte(i, 13)), byte(i + 1, 10)) if i + 1 < CAP else None
    return {'lf': lf, 'cr': cr, 'crlf': crlf, 'lf_crlf': sp.OR(lf, crlf), 'cr_crlf': cr}[pol]


class Helper:
    def __init__(self, db, pol, sym):
        self.db = db; self.pol = pol; self.sym = sym
        sp = Space(); sp.var('avail', CAP + 1)
        if sym:
            sp.var('I0', 3); sp.var('C0', 3)
        for k in range(CAP): sp.var('b%d' % k, 256)
        self.sp = sp; self.probs = []; self.ninp = 0

    def interp(self):
        it = Interp(self.db, self.sp)
        it.construct_hook = self.construct
        it.intercept['match'] = self.rule_call
        self.it = it
        return it

    # memory_input< lazy, Eol, const char* > in( at( p ), this->end(), "" )
    def construct(self, e, av=None, st=None):
        if av is None: return (e.get('cq') or '').startswith(T + 'memory_input<') or (e.get('cq') or '').startswith(TI + 'memory_input_base<')
        def g():
            b, en = av[0], av[1]
            if not (isinstance(b, Ptr) and b.base == 'cur' and not isinstance(b.off, Val)):
                raise Unmodelled('second input starting at %r' % (b,))
            if not (isinstance(en, Ptr) and en.base == 'end' and en.off == 0):
                if isinstance(en, Val):
                    self.probs.append(('E-eol', 'the second input is given the length %s instead of the end of the data: it ends %d byte(s) beyond the data when the position is at offset %d' % (
                        'size()' if not en.is_const() else en.off, b.off, b.off) if b.off else 'the second input is constructed from a length, not from end()'))
                    raise Unmodelled('second input with a wrong end')
                raise Unmodelled('second input ending at %r' % (en,))
            self.ninp += 1
            inp = Inp('in%d' % self.ninp)
            st.env[('pos', inp.key)] = b.off
            yield inp, st
        return g()

    def find_match(self, cls_s, ptype):
        for fn in self.db.order:
            if fn['n'] == 'match' and (fn.get('cls') or {}).get('s') == cls_s and fn['params'] and fn['params'][0]['t'].rstrip(' &') == ptype.rstrip(' &'): return fn
        return None

    def rule_call(self, it, e, ov, av, st):
        cc = e.get('cc') or {}
        if cc.get('tn') != T + 'normal' or not av or not isinstance(av[0], Inp): return None
        rule = cc['a'][0]
        ptype = (e.get('cpt') or [''])[0]
        return self.apply(rule, av[0], st, ptype)

    def getpos(self, st, inp): return st.env[('pos', inp.key)]

    def apply(self, rule, inp, st, ptype):
        """-> generator of ( Val const bool | Abort, state ): the documented meaning of until< Cond > and at< R >; other rules by their own match()"""
        tn = rule.get('tn') or rule.get('q')
        a = []
        for x in rule.get('a') or []:
            if x.get('k') == 'pack': a.extend(x.get('a', []))
            else: a.append(x)
        if tn == TI + 'until' and len(a) == 1:
            def loop(s, n):
                if n > CAP + 1: raise Unmodelled('until does not terminate in the window')
                p0 = self.getpos(s, inp)
                for r, s1 in self.apply(a[0], inp, s, ptype):
                    if isinstance(r, Abort): yield r, s1; continue
                    if r.off: yield Val.const(1), s1; continue
                    s1.env[('pos', inp.key)] = p0
                    # if( in.empty() ) return false; in.bump();
                    for em, s2 in self.it.call({'cn': 'empty', 'loc': None}, '', 'empty', inp, [], s1):
                        if isinstance(em, Abort): yield em, s2; continue
                        for b, s3 in self.it.truth(em, s2):
                            if b: yield Val.const(0), s3
                            else:
                                for _, s4 in self.it.call({'cn': 'bump', 'loc': None, 't': 'void'}, '', 'bump', inp, [Val.const(1)], s3):
                                    if isinstance(_, Abort): yield _, s4; continue
                                    yield from loop(s4, n + 1)
            return loop(st, 0)
        if tn == TI + 'at' and len(a) == 1:
            def g():
                p0 = self.getpos(st, inp)
                for r, s1 in self.apply(a[0], inp, st, ptype):
                    if not isinstance(r, Abort): s1.env[('pos', inp.key)] = p0
                    yield r, s1
            return g()
        fn = self.find_match(rule.get('s'), ptype)
        if fn is None: raise Unmodelled('no instantiated match() for %s over %s' % (rule.get('s'), ptype[:60]))
        return self.it.inline(fn, [inp], st)

    def memchr(self, it, e, ov, av, st):
        """std::memchr( b, ch, n ): first byte equal to ch among the n bytes at b"""
        if len(av) != 3 or not isinstance(av[0], Ptr) or av[0].base != 'cur' or isinstance(av[0].off, Val) or not av[1].is_const(): return None
        b, ch, n = av
        def g(s, i):
            # n > i ?
            for more, s1 in it.compare('>', n, Val.const(i), s):
                if isinstance(more, Abort): yield more, s1; continue
                if not more: yield Ptr('null', 0), s1; continue
                if b.off + i >= CAP: yield Abort('window'), s1; continue
                it.need(s1, b.off + i, e.get('loc'))
                for eq, s2 in it.compare('==', fit(it.byte(b.off + i, 'unsigned char'), 'unsigned char'), Val.const(ch.off & 0xff), s1):
                    if eq: yield Ptr('cur', b.off + i), s2
                    else: yield from g(s2, i + 1)
        return g(st, 0)


def show(sp, w, k):
    a = w[0]
    by = [w[sp.byname['b%d' % i].level] for i in range(min(a, CAP))]
    return 'data %r (%s bytes), position at offset %d' % (bytes(by), a if a < CAP else '%d+' % CAP, k)


def analyse(db, fn, pol, lazy):
    """returns problems [(rule, message)] for one helper instantiation"""
    name = fn['n']; probs = []
    pid = fn['params'][0]['id']
    # ---- default counters: exact
    for k in range(0, KMAX + 1):
        for s in range(0, k + 1):
            H = Helper(db, pol, False); sp = H.sp; it = H.interp()
            st = St(sp.restrict(sp.byname['avail'].level, ((k, CAP),)))          # the position lies inside the data
            st.env['this'] = Opaque('input')
            st.env[pid] = Rec({'byte': Val.const(k), 'line': Val.const(1), 'column': Val.const(1 + k - s)})
            try:
                outs = outcomes(it, fn, st)
            except Unmodelled as e:
                if H.probs:
                    probs += H.probs; return probs
                raise
            probs += H.probs
            for m, l in [(m, l) for kk, m, l in it.findings]: probs.append(('E-eol', '%s (%s)' % (m, l)))
            for kind, v, sx in outs:
                if kind == 'window': continue
                if kind != 'return': raise Unmodelled('path ends with ' + kind)
                w = sp.witness(sx.cond)
                if name == 'at':
                    if not (isinstance(v, Ptr) and v.base == 'cur' and v.off == k): probs.append(('E-at', 'at( p ) is %r, expected begin + %d' % (v, k)))
                elif name == 'begin_of_line':
                    if not (isinstance(v, Ptr) and v.base == 'cur' and v.off == s): probs.append(('E-bol', 'begin_of_line( p ) is %r for a position in column %d at offset %d, expected begin + %d' % (v, 1 + k - s, k, s)))
                else:
                    if name == 'line_at':
                        if not (isinstance(v, Agg) and len(v.items) == 2 and isinstance(v.items[0], Ptr) and v.items[0].base == 'cur' and v.items[0].off == s):
                            probs.append(('E-line', 'line_at( p ) does not start at the beginning of the line (offset %d): %r' % (s, v))); continue
                        n = v.items[1]
                        if not (isinstance(n, Val) and n.is_const()): probs.append(('E-line', 'length of line_at( p ) is not determined on a path')); continue
                        j = s + n.off
                    else:
                        if isinstance(v, Ptr) and v.base == 'end':
                            # the end pointer: the offset equals the number of available bytes on this path
                            av = sp.project(sx.cond, sp.byname['avail'].level)
                            if len(av) != 1 or av[0][0] != av[0][1]: raise Unmodelled('end pointer on a path with several sizes')
                            j = av[0][0]
                        elif isinstance(v, Ptr) and v.base == 'cur' and not isinstance(v.off, Val): j = v.off
                        else:
                            probs.append(('E-eol', 'end_of_line( p ) is %r' % (v,))); continue
                    # reference: first j >= k where a line ending starts, or the end
                    ref = sp.full()
                    for i in range(k, min(j, CAP)): ref = sp.DIFF(ref, eol_sets(sp, pol, i))
                    ref = sp.AND(ref, sp.restrict(sp.byname['avail'].level, ((j, CAP),))) if j <= CAP else None
                    here = sp.restrict(sp.byname['avail'].level, ((j, j),))
                    if j < CAP: here = sp.OR(here, eol_sets(sp, pol, j))
                    ref = sp.AND(ref, here)
                    bad = sp.DIFF(sx.cond, ref)
                    if bad is not None:
                        probs.append(('E-eol' if name == 'end_of_line' else 'E-line', '%s( p ) ends the line at offset %d on %s: the line of the position does not end there under eol::%s' % (name, j, show(sp, sp.witness(bad), k), pol)))
            if len(probs) > 6: return probs
    # ---- non-default initial counters: pointer arithmetic of at / begin_of_line
    if name in ('at', 'begin_of_line'):
        for k in range(0, 3):
            for s in range(0, k + 1):
                H = Helper(db, pol, True); sp = H.sp; it = H.interp()
                st = St(sp.restrict(sp.byname['avail'].level, ((k, CAP),)))
                st.env['this'] = Opaque('input')
                I0 = Val({sp.byname['I0'].level: [0, 1, 2]}); C0 = Val({sp.byname['C0'].level: [1, 2, 3]})
                col = binop('+', C0, Val.const(k - s)) if s == 0 else Val.const(1 + k - s)
                st.env[pid] = Rec({'byte': binop('+', I0, Val.const(k)), 'line': Val.const(1), 'column': col})
                for kind, v, sx in outcomes(it, fn, st):
                    want = k if name == 'at' else s
                    off = v.off if isinstance(v, Ptr) and v.base == 'cur' else None
                    if off is None: raise Unmodelled('result %r' % (v,))
                    d = binop('-', off if isinstance(off, Val) else Val.const(off), Val.const(want))
                    if d.is_const() and d.off == 0: continue
                    bad = sx.cond if d.is_const() else sp.AND(sx.cond, sp.sumset(d.tabs, ((-INF, -1 - d.off), (1 - d.off, INF))))
                    if bad is not None:
                        w = sp.witness(bad)
                        i0 = w[sp.byname['I0'].level]; c0 = w[sp.byname['C0'].level] + 1
                        probs.append(('E-counters', '%s( p ) is begin%+d instead of begin+%d for an input constructed with initial byte %d, column %d (position at offset %d, line starts at offset %d): the pointer lies %s' % (
                            name, want + (d.off + sum(t[w[l]] for l, t in d.tabs.items())), want, i0, c0, k, s, 'outside the data when fewer bytes follow' if (d.off + sum(t[w[l]] for l, t in d.tabs.items())) > 0 else 'before the data')))
                        break
                if any(p[0] == 'E-counters' for p in probs): break
            if any(p[0] == 'E-counters' for p in probs): break
    return probs


def analyse_item(db, u):
    fn = db.get(u)
    m = re.search(r'tracking_mode::(\w+), tao::pegtl::eol::(\w+)', fn['cls']['s'])
    try:
        return {'probs': analyse(db, fn, m.group(2), m.group(1) == 'lazy')}
    except (Unmodelled, Blowup) as e:
        return {'broken': str(e)}


def run(tier):
    R = core.Result('C19', tier)
    db = core.DB(core.extract(list(units.POS)))
    kinds = collections.Counter()
    from .. import repo_units
    paths = core.extract(list(units.POS))
    items = []
    for fn in db.order:
        if fn['n'] not in ('at', 'begin_of_line', 'end_of_line', 'line_at') or (fn.get('cls') or {}).get('tn') != T + 'memory_input': continue
        if re.search(r'tracking_mode::(\w+), tao::pegtl::eol::(\w+)', fn['cls']['s']): items.append(fn['u'])
    res = repo_units.map_items('sa.checks.c19', 'analyse_item', paths, items)
    for u in items:
        fn = db.get(u)
        m = re.search(r'tracking_mode::(\w+), tao::pegtl::eol::(\w+)', fn['cls']['s'])
        pol = m.group(2)
        key = '%s<%s, eol::%s>::%s' % ('memory_input', m.group(1), pol, fn['n'])
        r = res[u]
        if r.get('broken'):
            R.broke('%s: %s' % (key, r['broken'])); continue
        probs = r['probs']
        kinds[fn['n']] += 1
        R.ob(ok=not probs, key=key)
        seen = set()
        for rule, msg in probs[:4]:
            if (rule, msg) in seen: continue
            seen.add((rule, msg))
            R.violation(rule, 'memory_input.hpp::' + fn['n'], '%s: %s' % (key, msg), {'function': key}, key=(rule, key, msg))
        if not probs and len(R.samples) < 8: R.sample({'function': key, 'offsets': 'k = 0..%d, line start 0..k' % KMAX})
    R.cov['obligations_by_kind'] = dict(kinds)
    for k in ('at', 'begin_of_line', 'end_of_line', 'line_at'):
        if kinds[k] < 10: R.broke('only %d instantiations of %s analysed (floor 10)' % (kinds[k], k))
    R.assumptions = ['positions handed to the helpers are positions reported by the same input (C06 gives byte = initial byte + offset, column = bytes since the line start + 1, or + the initial column on the first line)',
                     'offsets of the position 0..%d, line starts 0..offset, data of up to 9 bytes around it (all byte values); until< at< eolf > > is interpreted by its documented meaning (C01), eolf and the end-of-line rule by their instantiated code' % KMAX]
    return R.finish('Exact set evaluation (sa/bits.py) of at / begin_of_line / end_of_line / line_at for both tracking modes and five end-of-line policies against an independent line splitter; symbolic initial counters for the pointer arithmetic.',
                    'one obligation per helper instantiation')
