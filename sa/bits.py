"""BITS: exact set analysis of unit decoders (DESIGN.md 4.8; C10, C17, parts of C14/C20 through the decoders).

The functions in scope are leaves over a handful of input units (bytes, 16-bit units, an availability count): the peek
classes, test_one predicates, ichar_equal, the endian readers, utf8_append_utf32, unhex_*.  They are evaluated once, over
*sets*:

  variables   the units a function can look at; every variable has a finite domain (256, 65536, a few availability values)
  values      separable sums   v = g_1(x_1) + ... + g_k(x_k) + c   with one table per variable.  Bit slicing code keeps this
              shape: the tables occupy disjoint bit positions, so & | ^ << >> with constants distribute over the summands;
              everything that depends on one variable only is computed pointwise (the exact transfer function of the
              powerset domain of that variable), with the wrap-around of the C++ type of every sub-expression
  conditions  sets of variable tuples as ordered decision diagrams with interval labels (one level per variable).  A
              comparison of a separable sum with a constant is turned into such a set exactly; && || ! are set operations
  paths       the interpreter forks at every condition with the tuple set of the path; a path's outcome is its return
              value, the appended bytes, or terminate/throw

The result is a partition of *all* inputs of the function into tuple sets with one outcome each, which the checks compare
with reference partitions written from the Unicode standard and the documentation.  Nothing is sampled; no tuple is
enumerated beyond the values of one variable at a time."""
import collections

INF = 1 << 80


# ---------------------------------------------------------------- interval sets
def inorm(iv):
    iv = sorted((a, b) for a, b in iv if a <= b)
    out = []
    for a, b in iv:
        if out and a <= out[-1][1] + 1:
            if b > out[-1][1]: out[-1] = (out[-1][0], b)
        else: out.append((a, b))
    return tuple(out)


def isect(x, y):
    out = []; i = j = 0
    while i < len(x) and j < len(y):
        a = max(x[i][0], y[j][0]); b = min(x[i][1], y[j][1])
        if a <= b: out.append((a, b))
        if x[i][1] < y[j][1]: i += 1
        else: j += 1
    return tuple(out)


def idiff(x, y):
    out = []
    for a, b in x:
        cur = a
        for c, d in y:
            if d < cur: continue
            if c > b: break
            if c > cur: out.append((cur, c - 1))
            cur = max(cur, d + 1)
            if cur > b: break
        if cur <= b: out.append((cur, b))
    return tuple(out)


def iunion(x, y):
    return inorm(list(x) + list(y))


def ishift(x, d):
    return tuple((a + d, b + d) for a, b in x)


def icount(x):
    return sum(b - a + 1 for a, b in x)


def ifrom(values):
    return inorm([(v, v) for v in values])


def ishow(x, fmt='%#x'):
    return ' '.join((fmt % a) if a == b else (fmt % a + '..' + fmt % b) for a, b in x[:8]) + (' ...' if len(x) > 8 else '')


# ---------------------------------------------------------------- variables and tuple sets
class Blowup(Exception):
    pass


class Var:
    def __init__(self, name, size, level):
        self.name = name; self.size = size; self.level = level; self.full = ((0, size - 1),)


class Space:
    """ordered variables; tuple sets are nested tuples ((iset, child), ...), None = empty, True = leaf"""
    def __init__(self):
        self.vars = []; self.byname = {}; self.memo = {}; self._full = {}

    def var(self, name, size):
        if name in self.byname: return self.byname[name]
        v = Var(name, size, len(self.vars)); self.vars.append(v); self.byname[name] = v
        self._full = {}; self.memo = {}
        return v

    @property
    def n(self): return len(self.vars)

    def full(self, i=0):
        if i == self.n: return True
        if i not in self._full: self._full[i] = ((self.vars[i].full, self.full(i + 1)),)
        return self._full[i]

    def lift(self, node, i):
        """tuple sets built before a variable was added lack the deeper levels: complete them"""
        return node

    def mk(self, groups):
        """groups: {child: [intervals]} -> node"""
        ent = [(inorm(iv), c) for c, iv in groups.items() if c is not None and iv]
        ent = [(s, c) for s, c in ent if s]
        if not ent: return None
        ent.sort(key=lambda e: e[0])
        return tuple(ent)

    def apply(self, op, a, b, i=0):
        if a is None:
            return None if op in ('and', 'diff') else b
        if b is None:
            return None if op == 'and' else a
        if i == self.n:
            return None if op == 'diff' else True
        if a == b:
            return None if op == 'diff' else a
        key = (op, a, b)
        r = self.memo.get(key, 0)
        if r != 0: return r
        groups = collections.defaultdict(list)
        ball = ()
        for sb, cb in b: ball = iunion(ball, sb)
        aall = ()
        for sa, ca in a:
            aall = iunion(aall, sa)
            for sb, cb in b:
                x = isect(sa, sb)
                if x: groups[self.apply(op, ca, cb, i + 1)].extend(x)
            rem = idiff(sa, ball)
            if rem and op != 'and': groups[ca].extend(rem)
        if op == 'or':
            for sb, cb in b:
                rem = idiff(sb, aall)
                if rem: groups[cb].extend(rem)
        r = self.mk(groups)
        self.memo[key] = r
        return r

    def AND(self, a, b): return self.apply('and', a, b)
    def OR(self, a, b): return self.apply('or', a, b)
    def DIFF(self, a, b): return self.apply('diff', a, b)

    def count(self, a, i=0):
        if a is None: return 0
        if i == self.n: return 1
        return sum(icount(s) * self.count(c, i + 1) for s, c in a)

    def witness(self, a, i=0):
        """one tuple of the set (the smallest in variable order)"""
        if a is None: return None
        if i == self.n: return ()
        s, c = a[0]
        return (s[0][0],) + self.witness(c, i + 1)

    def project(self, a, level, i=0):
        """set of values of variable `level` occurring in the tuple set"""
        if a is None: return ()
        if i == level:
            out = ()
            for s, c in a: out = iunion(out, s)
            return out
        out = ()
        for s, c in a: out = iunion(out, self.project(c, level, i + 1))
        return out

    def restrict(self, level, iset):
        """tuple set: variable `level` in iset"""
        def rec(i):
            if i == self.n: return True
            if i == level:
                s = isect(iset, self.vars[i].full)
                return ((s, self.full(i + 1)),) if s else None
            c = rec(i + 1)
            return ((self.vars[i].full, c),) if c is not None else None
        return rec(0)

    def sumset(self, tabs, S):
        """tuple set  { x : sum_l tabs[l][x_l] in S }   (tabs: {level: sequence}, S: interval set)"""
        n = self.n
        lo = [0] * (n + 1); hi = [0] * (n + 1)
        for i in range(n - 1, -1, -1):
            t = tabs.get(i)
            lo[i] = lo[i + 1] + (min(t) if t is not None else 0)
            hi[i] = hi[i + 1] + (max(t) if t is not None else 0)
        inv = {}
        for l, t in tabs.items():
            d = collections.defaultdict(list)
            for x, v in enumerate(t): d[v].append((x, x))
            inv[l] = {v: inorm(iv) for v, iv in d.items()}
        memo = {}

        def rec(i, S):
            S = isect(S, ((lo[i], hi[i]),))
            if not S: return None
            if S == ((lo[i], hi[i]),): return self.full(i)
            if i == n: return True
            k = (i, S)
            if k in memo: return memo[k]
            if len(memo) > 60000: raise Blowup('the variable order does not suit this sum (more than 60000 partial sums)')
            if i not in tabs:
                c = rec(i + 1, S)
                r = ((self.vars[i].full, c),) if c is not None else None
            else:
                groups = collections.defaultdict(list)
                for v, xs in inv[i].items():
                    c = rec(i + 1, ishift(S, -v))
                    if c is not None: groups[c].extend(xs)
                r = self.mk(groups)
            memo[k] = r
            return r
        return rec(0, tuple(S))


# ---------------------------------------------------------------- values
CT = {
    'bool': (1, False), 'char': (8, True), 'signed char': (8, True), 'unsigned char': (8, False), 'short': (16, True), 'unsigned short': (16, False),
    'int': (32, True), 'unsigned int': (32, False), 'long': (64, True), 'unsigned long': (64, False), 'long long': (64, True), 'unsigned long long': (64, False),
    'char16_t': (16, False), 'char32_t': (32, False), 'wchar_t': (32, True),
    'std::uint8_t': (8, False), 'std::uint16_t': (16, False), 'std::uint32_t': (32, False), 'std::uint64_t': (64, False), 'std::size_t': (64, False),
    'uint8_t': (8, False), 'uint16_t': (16, False), 'uint32_t': (32, False), 'uint64_t': (64, False), 'size_t': (64, False),
    'std::int8_t': (8, True), 'std::int16_t': (16, True), 'std::int32_t': (32, True), 'std::int64_t': (64, True),
    'tao::pegtl::internal::peek_utf8::data_t': (32, False),
}


def ctype(t):
    t = (t or '').replace('const ', '').replace('volatile ', '').replace('&', '').strip()
    return CT.get(t)


def wrap(v, bits, signed):
    m = 1 << bits
    v %= m
    if signed and v >= m >> 1: v -= m
    return v


class Unmodelled(Exception):
    pass


class Val:
    """separable sum: sum of one table per variable level plus a constant"""
    __slots__ = ('tabs', 'off')

    def __init__(self, tabs=None, off=0):
        self.tabs = tabs or {}; self.off = off

    @staticmethod
    def const(c): return Val({}, int(c))

    def is_const(self): return not self.tabs

    def single(self):
        return next(iter(self.tabs)) if len(self.tabs) == 1 else None

    def table(self, l):
        """pointwise table of a value that depends on one variable"""
        return [x + self.off for x in self.tabs[l]]

    def rng(self):
        return (sum(min(t) for t in self.tabs.values()) + self.off, sum(max(t) for t in self.tabs.values()) + self.off)

    def bitmask(self):
        """(list of per-level masks, constant) when every summand is non-negative and no two share a bit, else None"""
        ms = {}
        acc = 0
        if self.off < 0: return None
        acc = self.off
        for l, t in self.tabs.items():
            m = 0
            for x in t:
                if x < 0: return None
                m |= x
            if m & acc: return None
            acc |= m; ms[l] = m
        return ms

    def __repr__(self):
        return 'Val(%s%+d)' % ('+'.join('x%d' % l for l in self.tabs), self.off)


def pointwise(f, a, b=None):
    """a, b depend on at most one common variable"""
    if b is None:
        if a.is_const(): return Val.const(f(a.off))
        l = a.single()
        return Val({l: [f(x) for x in a.table(l)]})
    if a.is_const() and b.is_const(): return Val.const(f(a.off, b.off))
    l = a.single() if not a.is_const() else b.single()
    ta = a.table(l) if not a.is_const() else None
    tb = b.table(l) if not b.is_const() else None
    if ta is None: return Val({l: [f(a.off, y) for y in tb]})
    if tb is None: return Val({l: [f(x, b.off) for x in ta]})
    return Val({l: [f(x, y) for x, y in zip(ta, tb)]})


def same_var(a, b):
    ls = set(a.tabs) | set(b.tabs)
    return len(ls) <= 1


def clean(v):
    """drop constant tables"""
    tabs = {}; off = v.off
    for l, t in v.tabs.items():
        if min(t) == max(t): off += t[0]
        else: tabs[l] = t
    return Val(tabs, off)


class Lazy(Val):
    """a | b | ... of values that share bit positions (not a separable sum): kept as the list of operands until a comparison decides it piecewise.
    Supported afterwards: & and | with a constant (pushed into the operands), | with another value, comparison with a constant (Interp.compare)"""
    __slots__ = ('ops',)

    def __init__(self, ops):
        Val.__init__(self, {}, 0); self.ops = list(ops)

    def is_const(self): return False
    def single(self): return None
    def bitmask(self): return None

    def rng(self):
        hi = 0
        for o in self.ops:
            lo2, hi2 = o.rng()
            if lo2 < 0: raise Unmodelled('| of values that can be negative')
            hi |= (1 << max(hi2, 0).bit_length()) - 1
        return (0, hi)

    def __repr__(self): return 'Lazy(%s)' % ' | '.join(map(repr, self.ops))


def lazy_or(a, b):
    ops = (a.ops if isinstance(a, Lazy) else [a]) + (b.ops if isinstance(b, Lazy) else [b])
    for o in ops:
        if o.rng()[0] < 0: raise Unmodelled('| of values that can be negative')
    return Lazy(ops)


PY = {'+': lambda x, y: x + y, '-': lambda x, y: x - y, '*': lambda x, y: x * y, '&': lambda x, y: x & y, '|': lambda x, y: x | y, '^': lambda x, y: x ^ y,
      '<<': lambda x, y: x << y if 0 <= y < 64 else 0, '>>': lambda x, y: x >> y if 0 <= y < 64 else 0,
      '/': lambda x, y: (abs(x) // abs(y)) * (1 if (x < 0) == (y < 0) else -1) if y else 0, '%': lambda x, y: x - y * ((abs(x) // abs(y)) * (1 if (x < 0) == (y < 0) else -1)) if y else 0}


def binop(op, a, b):
    if isinstance(a, Lazy) or isinstance(b, Lazy):
        if isinstance(b, Lazy) and not isinstance(a, Lazy) and op in ('&', '|'): a, b = b, a
        if op in ('&', '|') and b.is_const() and b.off >= 0:
            r = None
            for o in a.ops:
                x = binop(op, o, b)
                r = x if r is None else binop('|', r, x)
            return r
        if op == '|' and isinstance(b, Val): return lazy_or(a, b)
        raise Unmodelled('operator %s on a bitwise combination of several variables' % op)
    if same_var(a, b): return clean(pointwise(PY[op], a, b))
    if op in ('+', '-'):
        tabs = dict(a.tabs)
        for l, t in b.tabs.items():
            if l in tabs: tabs[l] = [x + y if op == '+' else x - y for x, y in zip(tabs[l], t)]
            else: tabs[l] = list(t) if op == '+' else [-y for y in t]
        return clean(Val(tabs, a.off + b.off if op == '+' else a.off - b.off))
    if op in ('<<', '>>', '*') and b.is_const():
        k = b.off
        if op == '*': return clean(Val({l: [x * k for x in t] for l, t in a.tabs.items()}, a.off * k))
        if not 0 <= k < 64: raise Unmodelled('shift by %d' % k)
        if op == '<<': return clean(Val({l: [x << k for x in t] for l, t in a.tabs.items()}, a.off << k))
        if a.bitmask() is None: raise Unmodelled('>> on a sum whose summands share bits')
        return clean(Val({l: [x >> k for x in t] for l, t in a.tabs.items()}, a.off >> k))
    if op in ('&', '|', '^'):
        if a.is_const(): a, b = b, a
        ma = a.bitmask()
        if ma is None: raise Unmodelled('%s on a sum whose summands share bits' % op)
        if b.is_const():
            c = b.off
            if c < 0: raise Unmodelled('%s with a negative constant' % op)
            f = PY[op]
            # bitwise operations distribute over summands with disjoint bits; the constant summand takes the bits nobody owns
            owned = 0
            tabs = {}
            for l, t in a.tabs.items():
                m = ma[l]; owned |= m
                if op == '&': tabs[l] = [x & c for x in t]
                elif op == '|': tabs[l] = [(x | (c & m)) for x in t]
                else: tabs[l] = [(x ^ (c & m)) for x in t]
            if op == '&': off = a.off & c
            elif op == '|': off = a.off | (c & ~owned)
            else: off = a.off ^ (c & ~owned)
            return clean(Val(tabs, off))
        mb = b.bitmask()
        if mb is None: raise Unmodelled('%s on a sum whose summands share bits' % op)
        alla = a.off; allb = b.off
        for m in ma.values(): alla |= m
        for m in mb.values(): allb |= m
        if alla & allb:
            if op == '|': return lazy_or(a, b)
            raise Unmodelled('%s of multi-variable values that share bits' % op)
        if op == '&': return Val.const(0)
        tabs = dict(a.tabs); tabs.update(b.tabs)
        return clean(Val(tabs, a.off | b.off))
    raise Unmodelled('operator %s on multi-variable values' % op)


def fit(v, t):
    """value of an expression of C++ type t (wrap-around / implementation-defined narrowing = modulo)"""
    ct = ctype(t)
    if ct is None: return v
    bits, signed = ct
    if bits == 1:
        return v
    lo, hi = v.rng()
    tlo = -(1 << (bits - 1)) if signed else 0; thi = (1 << (bits - 1)) - 1 if signed else (1 << bits) - 1
    if tlo <= lo and hi <= thi: return v
    if v.is_const() or v.single() is not None:
        return clean(pointwise(lambda x: wrap(x, bits, signed), v))
    if v.bitmask() is not None:
        m = (1 << bits) - 1
        r = clean(Val({l: [x & m for x in t2] for l, t2 in v.tabs.items()}, v.off & m))
        if not signed: return r
        # the summand that owns the sign bit takes the -2^bits
        sb = 1 << (bits - 1)
        if r.off & sb: return Val(r.tabs, r.off - (1 << bits))
        tabs = {l: [x - (1 << bits) if x & sb else x for x in t2] for l, t2 in r.tabs.items()}
        return clean(Val(tabs, r.off))
    if signed and tlo <= lo - (1 << bits) and hi - (1 << bits) <= thi and lo > thi:
        return Val(v.tabs, v.off - (1 << bits))
    raise Unmodelled('a multi-variable value of type %s may wrap: range [%d, %d]' % (t, lo, hi))


def bswap(v, nbytes):
    if v.bitmask() is None and not (v.is_const() or v.single() is not None): raise Unmodelled('bswap of a sum whose summands share bits')
    def f(x):
        x &= (1 << (8 * nbytes)) - 1
        return int.from_bytes(x.to_bytes(nbytes, 'little'), 'big')
    return clean(Val({l: [f(x) for x in t] for l, t in v.tabs.items()}, f(v.off)))


# ---------------------------------------------------------------- interpreter
class Ptr:
    def __init__(self, base, off=0): self.base = base; self.off = off
    def __repr__(self): return 'Ptr(%s%+d)' % (self.base, self.off)


class Agg:
    def __init__(self, items): self.items = items
    def __repr__(self): return 'Agg%r' % (self.items,)


class Rec:
    """a struct value with named scalar fields (immutable: updates make a new one)"""
    def __init__(self, fields): self.f = dict(fields)
    def with_(self, k, v):
        r = Rec(self.f); r.f[k] = v; return r
    def __repr__(self): return 'Rec%r' % (self.f,)


class Inp:
    """a second input over a suffix of the modelled window; its cursor is kept in the path state under ('pos', key)"""
    def __init__(self, key): self.key = key
    def __repr__(self): return 'Inp(%s)' % self.key


class Handle:
    """a path into an associative structure ( result.at( name ).branches.at( other ).success ): identity is the path"""
    def __init__(self, path): self.path = tuple(path)
    def __repr__(self): return 'Handle%r' % (self.path,)


class StackV:
    """a vector used as a stack of opaque items (immutable: operations return a new one)"""
    def __init__(self, items): self.items = tuple(items)
    def __repr__(self): return 'Stack%r' % (self.items,)


class Alias:
    """a local reference bound to another lvalue expression (auto& it = m_current)"""
    def __init__(self, expr): self.expr = expr


class Opaque:
    def __init__(self, tag): self.tag = tag
    def __repr__(self): return 'Opaque(%s)' % self.tag


class St:
    __slots__ = ('cond', 'env', 'eff', 'pos')
    def __init__(self, cond, env=None, eff=(), pos=0):
        self.cond = cond; self.env = env if env is not None else {}; self.eff = eff; self.pos = pos
    def fork(self, cond):
        return St(cond, dict(self.env), self.eff, self.pos)


CAP = 9    # availability values 0..CAP-1 are exact, CAP means "CAP or more" (its numeric value is MANY)
MANY = 10 ** 9


INPUT_OPS = ('empty', 'size', 'peek_uint8', 'peek_char', 'peek_byte', 'current', 'begin', 'end', 'bump', 'bump_in_this_line', 'bump_to_next_line')


class Interp:
    """evaluates one function over the tuple space; outcomes: list of (kind, value, state), kind in return/terminate/throw"""

    def __init__(self, db, space, nbytes=8, signed_char_reads=True):
        self.db = db; self.sp = space; self.findings = []; self.steps = 0
        self.avail = space.byname.get('avail')
        self.reads = collections.Counter(); self.intercept = {}; self.ptr_compare = None; self.callsite = None; self.construct_hook = None; self.objexpr = None; self.buffer_min = False

    # ---- helpers
    def byte(self, k, t='unsigned char'):
        v = self.sp.byname.get('b%d' % k)
        if v is None: raise Unmodelled('unit %d is beyond the modelled window' % k)
        if ctype(t) and ctype(t)[1] and ctype(t)[0] == 8: return Val({v.level: [x if x < 128 else x - 256 for x in range(256)]})
        return Val({v.level: list(range(256))})

    def need(self, st, k, loc):
        """a unit may only be read on paths where it is known to be available"""
        self.reads[k] += 1
        if self.avail is None: return
        bad = self.sp.AND(st.cond, self.sp.restrict(self.avail.level, ((0, k),)))
        if bad is not None:
            self.findings.append(('read', 'unit %d is read although only %d unit(s) may be available' % (k, self.sp.witness(bad)[self.avail.level]), loc))

    def truth(self, v, st):
        if isinstance(v, Val):
            if v.is_const():
                yield bool(v.off), st; return
            g = self.sp.sumset(v.tabs, ((-INF, -1 - v.off), (1 - v.off, INF)))
            yield from self.split(g, st); return
        if isinstance(v, Ptr): yield v.base != 'null', st; return
        if isinstance(v, Agg): yield True, st; return
        raise Unmodelled('condition on %r' % (v,))

    def split(self, g, st):
        t = self.sp.AND(st.cond, g); f = self.sp.DIFF(st.cond, g)
        if t is not None and f is not None:
            yield True, st.fork(t); yield False, st.fork(f)
        elif t is not None: yield True, st
        elif f is not None: yield False, st

    def compare(self, op, a, b, st):
        if isinstance(a, Ptr) and isinstance(b, Ptr):
            if a.base != b.base and 'null' in (a.base, b.base) and op in ('==', '!='):
                yield (op == '!='), st; return
            if a.base != b.base:
                if self.ptr_compare is not None:
                    yield from self.ptr_compare(self, op, a, b, st); return
                raise Unmodelled('comparison of pointers %r and %r' % (a, b))
            yield {'<': a.off < b.off, '>': a.off > b.off, '<=': a.off <= b.off, '>=': a.off >= b.off, '==': a.off == b.off, '!=': a.off != b.off}[op], st; return
        if not isinstance(a, Val) or not isinstance(b, Val): raise Unmodelled('comparison of %r and %r' % (a, b))
        if isinstance(a, Lazy) or isinstance(b, Lazy):
            if isinstance(b, Lazy): a, b, op = b, a, {'<': '>', '>': '<', '<=': '>=', '>=': '<=', '==': '==', '!=': '!='}[op]
            if not b.is_const() or isinstance(b, Lazy): raise Unmodelled('comparison of a bitwise combination with a non-constant')
            # piecewise: every operand depends on one variable and (after masking) takes few values; the result is decided per combination of operand values
            pieces = [(0, None)]        # ( value so far, condition or None = everything )
            for o in a.ops:
                l = o.single()
                if l is None and not o.is_const(): raise Unmodelled('bitwise combination with an operand of several variables')
                if o.is_const(): groups = {o.off: None}
                else:
                    groups = {}
                    for i, x in enumerate(o.table(l)): groups.setdefault(x, []).append(i)
                    if len(groups) > 16: raise Unmodelled('bitwise combination with an operand of %d distinct values (mask it first)' % len(groups))
                    groups = {x: self.sp.restrict(l, ifrom(idx)) for x, idx in groups.items()}
                nxt = []
                for v0, c0 in pieces:
                    for x, cx in groups.items():
                        c = cx if c0 is None else (c0 if cx is None else self.sp.AND(c0, cx))
                        if c is None and not (c0 is None and cx is None): continue
                        nxt.append((v0 | x, c))
                pieces = nxt
                if len(pieces) > 4096: raise Unmodelled('bitwise combination with too many cases')
            f = {'<': lambda x, y: x < y, '>': lambda x, y: x > y, '<=': lambda x, y: x <= y, '>=': lambda x, y: x >= y, '==': lambda x, y: x == y, '!=': lambda x, y: x != y}[op]
            g = None
            for v0, c in pieces:
                if f(v0, b.off): g = self.sp.OR(g, c if c is not None else self.sp.full())
            if g is None: yield False, st; return
            yield from self.split(g, st); return
        if self.avail is not None:
            for x, y, o in ((a, b, op), (b, a, {'<': '>', '>': '<', '<=': '>=', '>=': '<=', '==': '==', '!=': '!='}[op])):
                t = x.tabs.get(self.avail.level)
                if t is not None and len(x.tabs) == 1 and y.is_const() and t[CAP] + x.off >= MANY:
                    # sizes of CAP and more are one abstract value "at least lb": x o y is decided there only when every such size agrees
                    lb = t[CAP] + x.off - MANY; c = y.off
                    decided = (c <= lb) if o in ('>=', '<') else (c < lb)
                    if not decided:
                        many = self.sp.AND(st.cond, self.sp.restrict(self.avail.level, ((CAP, CAP),)))
                        rest = self.sp.DIFF(st.cond, many)
                        if many is not None: yield Abort('window'), st.fork(many)
                        if rest is None: return
                        st = st.fork(rest) if many is not None else st
        d = binop('-', a, b)
        S = {'<': ((-INF, -1),), '<=': ((-INF, 0),), '>': ((1, INF),), '>=': ((0, INF),), '==': ((0, 0),), '!=': ((-INF, -1), (1, INF))}[op]
        if d.is_const():
            yield bool(isect(S, ((d.off, d.off),))), st; return
        g = self.sp.sumset(d.tabs, ishift(S, -d.off))
        yield from self.split(g, st)

    # ---- expressions: generators of (value, state)
    def ev(self, e, st):
        self.steps += 1
        if self.steps > 400000: raise Unmodelled('step budget')
        k = e.get('k')
        if 'v' in e and k in ('lit', 'cast', 'bin', 'un', 'cond', 'ref', 'index', 'member') and not self.has_local(e):
            v = e['v']
            yield Val.const(int(v) if not isinstance(v, bool) else int(v)), st; return
        m = getattr(self, 'e_' + k, None)
        if m is None: raise Unmodelled('expression kind %s at %s' % (k, e.get('loc')))
        yield from m(e, st)

    def has_local(self, e):
        return False

    def e_lit(self, e, st):
        raise Unmodelled('literal without value at %s' % e.get('loc'))

    def e_str(self, e, st): yield Opaque('str'), st
    def e_this(self, e, st): yield st.env['this'], st
    def e_nullptr(self, e, st): yield Ptr('null', 0), st
    def e_zero(self, e, st): yield Val.const(0), st

    def e_ref(self, e, st):
        d = e.get('d')
        if d in st.env:
            v = st.env[d]
            if isinstance(v, Alias): v = self.lv_get(v.expr, st)
            yield v, st; return
        raise Unmodelled('unbound variable %s at %s' % (e.get('n'), e.get('loc')))

    def e_cast(self, e, st):
        ck = e.get('ck')
        for v, s in self.ev(e['e'], st):
            if isinstance(v, Abort): yield v, s; continue
            if ck == 'IntegralToBoolean':
                for b, s2 in self.truth(v, s): yield Val.const(int(b)), s2
            elif ck == 'ArrayToPointerDecay':
                yield (Ptr(('agg', v), 0) if isinstance(v, Agg) else v), s
            elif isinstance(v, Val) and ck in ('IntegralCast', 'NoOp', 'LValueToRValue', 'ConstructorConversion', 'BooleanToSignedIntegral'):
                yield fit(v, e.get('t')), s
            else:
                yield v, s

    def lv_base(self, tgt, st):
        """( container value, setter ) of the object a member expression reads from: a variable, *this, or a member of those"""
        b = tgt.get('b') or {}
        while b.get('k') == 'cast': b = b['e']
        if b.get('k') == 'ref':
            v = st.env[b['d']]
            if isinstance(v, Alias): return self.lv_pair(v.expr, st)
            return v, (lambda nv: st.env.__setitem__(b['d'], nv))
        if b.get('k') == 'this': return st.env['this'], (lambda nv: st.env.__setitem__('this', nv))
        if b.get('k') == 'member': return self.lv_pair(b, st)
        raise Unmodelled('unsupported object expression at %s' % tgt.get('loc'))

    def lv_pair(self, tgt, st):
        """( current value, setter ) of an lvalue expression"""
        while tgt.get('k') == 'cast': tgt = tgt['e']
        if tgt.get('k') == 'un' and tgt.get('op') == '*' and (tgt.get('e') or {}).get('cn') == '__errno_location':
            return Val.const(0), (lambda nv: None)          # errno: written before and read after a failed library call only
        if tgt.get('k') == 'ref':
            v = st.env[tgt['d']]
            if isinstance(v, Alias): return self.lv_pair(v.expr, st)
            return v, (lambda nv: st.env.__setitem__(tgt['d'], nv))
        if tgt.get('k') == 'member':
            b, setb = self.lv_base(tgt, st)
            n = tgt['n']
            if isinstance(b, Rec) and n in b.f: return b.f[n], (lambda nv: setb(b.with_(n, nv)))
            if isinstance(b, Agg) and n in ('data', 'size'):
                i = 0 if n == 'data' else 1
                def seta(nv):
                    items = list(b.items); items[i] = nv; setb(Agg(items))
                return b.items[i], seta
        raise Unmodelled('unsupported assignment target at %s' % tgt.get('loc'))

    def lv_get(self, tgt, st): return self.lv_pair(tgt, st)[0]

    def lv_set(self, tgt, st, v): self.lv_pair(tgt, st)[1](v)

    def e_un(self, e, st):
        op = e['op']
        if op in ('++', '--'):
            tgt = e['e']
            if tgt.get('k') == 'member':
                # a counter inside an associative structure: the increment is an effect on that path
                hs = list(self.ev(tgt, st))
                if len(hs) == 1 and isinstance(hs[0][0], Handle):
                    h, s2 = hs[0]
                    s2.eff = s2.eff + (('inc' if op == '++' else 'dec', h.path),)
                    yield h, s2; return
            old = self.lv_get(tgt, st)
            dlt = 1 if op == '++' else -1
            new = Ptr(old.base, old.off + dlt) if isinstance(old, Ptr) else fit(binop('+', old, Val.const(dlt)), tgt.get('t'))
            self.lv_set(tgt, st, new)
            yield (old if e.get('post') else new), st; return
        if op == '&':
            tgt = e['e']
            if tgt.get('k') == 'ref': yield ('addr', tgt['d']), st; return
            if tgt.get('k') == 'un' and tgt.get('op') == '*':
                yield from self.ev(tgt['e'], st); return
            raise Unmodelled('address of a non-variable')
        for v, s in self.ev(e['e'], st):
            if isinstance(v, Abort): yield v, s; continue
            if op == '!':
                for b, s2 in self.truth(v, s): yield Val.const(int(not b)), s2
            elif op == '*':
                yield from self.deref(v, e, s)
            elif op == '-': yield fit(binop('-', Val.const(0), v), e.get('t')), s
            elif op == '+': yield v, s
            elif op == '~':
                if not (v.is_const() or v.single() is not None): raise Unmodelled('~ on a multi-variable value')
                yield fit(pointwise(lambda x: ~x, v), e.get('t')), s
            else: raise Unmodelled('unary ' + op)

    def deref(self, p, e, st):
        if isinstance(p, Ptr) and p.base == 'errno':
            yield Val.const(0), st; return
        if isinstance(p, Ptr):
            if p.base == 'cur':
                self.need(st, p.off, e.get('loc'))
                yield self.byte(p.off, e.get('t')), st; return
            if isinstance(p.base, tuple) and p.base[0] == 'agg':
                if not 0 <= p.off < len(p.base[1].items):
                    self.findings.append(('index', 'element %d of a %d element list is read' % (p.off, len(p.base[1].items)), e.get('loc')))
                    raise Unmodelled('out of bounds read of a list')
                yield p.base[1].items[p.off], st; return
        raise Unmodelled('dereference of %r' % (p,))

    def e_bin(self, e, st):
        op = e['op']
        if op in ('&&', '||'):
            for l, s in self.ev(e['l'], st):
                if isinstance(l, Abort): yield l, s; continue
                for b, s2 in self.truth(l, s):
                    if b != (op == '&&'): yield Val.const(int(b)), s2
                    else:
                        for r, s3 in self.ev(e['r'], s2):
                            if isinstance(r, Abort): yield r, s3; continue
                            for b2, s4 in self.truth(r, s3): yield Val.const(int(b2)), s4
            return
        if op == ',':
            for _, s in self.ev(e['l'], st):
                if isinstance(_, Abort): yield _, s; continue
                yield from self.ev(e['r'], s)
            return
        if op == '=' or (op.endswith('=') and op not in ('==', '!=', '<=', '>=')):
            tgt = e['l']
            for r, s in self.ev(e['r'], st):
                if isinstance(r, Abort): yield r, s; continue
                if op == '=': new = r
                else: new = self.arith(op[:-1], self.lv_get(tgt, s), r, e.get('ct') or tgt.get('t'))
                if isinstance(new, Val): new = fit(new, tgt.get('t'))
                self.lv_set(tgt, s, new)
                yield new, s
            return
        for l, s in self.ev(e['l'], st):
            if isinstance(l, Abort): yield l, s; continue
            for r, s2 in self.ev(e['r'], s):
                if isinstance(r, Abort): yield r, s2; continue
                if op in ('<', '>', '<=', '>=', '==', '!='):
                    for b, s3 in self.compare(op, l, r, s2): yield (b if isinstance(b, Abort) else Val.const(int(b))), s3
                else:
                    yield self.arith(op, l, r, e.get('t')), s2

    def arith(self, op, a, b, t):
        if isinstance(a, Ptr) and isinstance(b, Val) and op in ('+', '-'):
            o = binop(op, a.off if isinstance(a.off, Val) else Val.const(a.off), b)
            return Ptr(a.base, o.off if o.is_const() else o)
        if isinstance(a, Ptr) and isinstance(b, Ptr) and op == '-' and a.base == b.base:
            d = binop('-', a.off if isinstance(a.off, Val) else Val.const(a.off), b.off if isinstance(b.off, Val) else Val.const(b.off))
            return d
        if isinstance(a, Ptr) and isinstance(b, Ptr) and op == '-' and a.base == 'end' and b.base == 'cur' and self.avail is not None and not isinstance(b.off, Val) and a.off == 0:
            return Val({self.avail.level: [(max(x - b.off, 0) if x < CAP else MANY + max(CAP - b.off, 0)) for x in range(self.avail.size)]})
        if not isinstance(a, Val) or not isinstance(b, Val): raise Unmodelled('%s on %r and %r' % (op, a, b))
        return fit(binop(op, a, b), t)

    def e_cond(self, e, st):
        for c, s in self.ev(e['c'], st):
            if isinstance(c, Abort): yield c, s; continue
            for b, s2 in self.truth(c, s):
                yield from self.ev(e['l'] if b else e['r'], s2)

    def e_initlist(self, e, st):
        def rec(i, acc, s):
            if i == len(e['args']): yield Agg(acc), s; return
            for v, s2 in self.ev(e['args'][i], s):
                if isinstance(v, Abort): yield v, s2; continue
                yield from rec(i + 1, acc + [v], s2)
        yield from rec(0, [], st)

    def e_stdinitlist(self, e, st):
        yield from self.ev(e['e'], st)

    def e_construct(self, e, st):
        args = e.get('args', [])
        if self.construct_hook is not None and self.construct_hook(e):
            def rec(i, acc, s):
                if i == len(args): yield acc, s; return
                for v, s2 in self.ev(args[i], s):
                    if isinstance(v, Abort): yield v, s2; continue
                    yield from rec(i + 1, acc + [v], s2)
            for av, s in rec(0, [], st):
                if isinstance(av, Abort): yield av, s; continue
                yield from self.construct_hook(e, av, s)
            return
        if len(args) == 1 and (e.get('copy') or e.get('elidable')):
            yield from self.ev(args[0], st); return
        if 'basic_string_view' in (e.get('t') or '') and len(args) == 2:
            # std::string_view( pointer, count )
            for v, s in self.e_initlist(e, st):
                if isinstance(v, Agg) and len(v.items) == 2 and isinstance(v.items[0], Agg): v = Agg([Ptr(('agg', v.items[0]), 0), v.items[1]])
                yield v, s
            return
        if 'basic_string_view' in (e.get('t') or '') and len(args) == 1:
            # std::string_view( const char* ): the characters up to the first null character (std::char_traits::length)
            for pv, s in self.ev(args[0], st):
                if isinstance(pv, Abort): yield pv, s; continue
                if isinstance(pv, Agg) and len(pv.items) == 2 and isinstance(pv.items[0], Ptr): yield pv, s; continue      # from another view
                if isinstance(pv, Agg): pv = Ptr(('agg', pv), 0)                      # an array (the decay to a pointer is implicit)
                if not (isinstance(pv, Ptr) and isinstance(pv.base, tuple) and pv.base[0] == 'agg'): raise Unmodelled('string_view of %r' % (pv,))
                items = pv.base[1].items[pv.off:]
                n = 0
                while n < len(items) and not (isinstance(items[n], Val) and items[n].is_const() and items[n].off == 0):
                    if not (isinstance(items[n], Val) and items[n].is_const()): raise Unmodelled('string_view of an array with unknown contents')
                    n += 1
                if n == len(items): raise Unmodelled('string_view of an array without a terminating null character')
                yield Agg([pv, Val.const(n)]), s
            return
        ctor = self.db.get(e.get('cu')) if e.get('cu') else None
        if ctor is not None and ctor.get('inits') and len(ctor.get('params', [])) == len(args):
            # a class with a member-init list: a record of its fields, initialised by evaluating the initialisers (delegation and bases included)
            def rec(i, acc, s):
                if i == len(args): yield acc, s; return
                for v, s2 in self.ev(args[i], s):
                    if isinstance(v, Abort): yield v, s2; continue
                    yield from rec(i + 1, acc + [v], s2)
            for av, s in rec(0, [], st):
                if isinstance(av, Abort): yield av, s; continue
                yield from self.run_ctor(ctor, av, s)
            return
        yield from self.e_initlist(e, st)

    def run_ctor(self, ctor, av, st):
        """-> ( Rec of the fields, state ): member initialisers in order, each seeing the members before it; delegating and base initialisers merge the
        record they produce"""
        for p, v in zip(ctor['params'], av): st.env[p['id']] = v
        prev = st.env.get('this')
        def inits(j, fields, s3):
            if j == len(ctor['inits']):
                s3.env['this'] = prev
                yield Rec(fields), s3; return
            it = ctor['inits'][j]
            s3.env['this'] = Rec(fields)
            try:
                vals = list(self.ev(it['e'], s3))
            except Unmodelled:
                vals = [(Opaque('field'), s3)]
            for v, s4 in vals:
                if isinstance(v, Abort): yield v, s4; continue
                if it.get('field'): f2 = dict(fields, **{it['field']: v})
                elif isinstance(v, Rec): f2 = dict(fields, **v.f)
                else: f2 = fields
                yield from inits(j + 1, f2, s4)
        yield from inits(0, {}, st)

    def e_member(self, e, st):
        for b, s in self.ev(e['b'], st):
            if isinstance(b, Abort): yield b, s; continue
            if isinstance(b, Agg) and e.get('n') in ('data', 'size'):
                yield b.items[0 if e['n'] == 'data' else 1], s
            elif isinstance(b, Rec) and e.get('n') in b.f:
                v = b.f[e['n']]
                yield v, s
            elif isinstance(b, Handle):
                if e.get('n') == 'second' and b.path and isinstance(b.path[-1], tuple) and b.path[-1][0] == 'at': yield b, s
                elif e.get('n') == 'first' and b.path and isinstance(b.path[-1], tuple) and b.path[-1][0] == 'at': yield Opaque(b.path[-1][1]) if isinstance(b.path[-1][1], str) else Handle(b.path[-1][1]), s
                else: yield Handle(b.path + (e.get('n'),)), s
            elif isinstance(b, Opaque) and b.tag.startswith('obj:'):
                yield Opaque(b.tag + '.' + e.get('n')), s
            else: raise Unmodelled('member %s of %r' % (e.get('n'), b))

    def e_index(self, e, st):
        for b, s in self.ev(e['b'], st):
            if isinstance(b, Abort): yield b, s; continue
            for i, s2 in self.ev(e['i'], s):
                if isinstance(i, Abort): yield i, s2; continue
                if isinstance(b, Ptr) and isinstance(i, Val) and i.is_const():
                    yield from self.deref(Ptr(b.base, b.off + i.off), e, s2)
                else: raise Unmodelled('index')

    def e_throw(self, e, st):
        yield Abort('throw', e.get('tt')), st

    def e_call(self, e, st):
        cn = e.get('cn') or ''; cq = e.get('cq') or ''
        obj = e.get('obj')
        args = list(e.get('args', []))
        if e.get('objfirst') and args: obj = args[0]; args = args[1:]
        ov = None
        self.objexpr = obj
        if obj is not None:
            r = list(self.ev(obj, st))
            if len(r) != 1: raise Unmodelled('forking object expression')
            ov, st = r[0]
        def rec(i, acc, s):
            if i == len(args): yield acc, s; return
            for v, s2 in self.ev(args[i], s):
                if isinstance(v, Abort): yield v, s2; continue
                yield from rec(i + 1, acc + [v], s2)
        for av, s in rec(0, [], st):
            if isinstance(av, Abort): yield av, s; continue
            self.argexprs = args
            yield from self.call(e, cq, cn, ov, av, s)

    def call(self, e, cq, cn, ov, av, st):
        h = self.intercept.get(cq) or self.intercept.get(cn)
        if h is not None:
            r = h(self, e, ov, av, st)
            if r is not None:
                yield from r; return
        # iterators into an associative structure whose entries exist (coverage fills its result map for every rule of the grammar before the parse starts):
        # find( key ) is the entry, it never equals end(); it->second is the entry itself, it->first the key
        if isinstance(ov, Handle) and cn in ('end', 'cend') and not av:
            yield Opaque('end-iter'), st; return
        if cn in ('operator!=', 'operator==') and len(av) == 2 and all(isinstance(x, Agg) and len(x.items) == 2 and isinstance(x.items[0], Ptr) and isinstance(x.items[1], Val) for x in av):
            # two string views: equal sizes and equal characters
            a, b = av
            for same, s1 in self.compare('==', a.items[1], b.items[1], st):
                if isinstance(same, Abort): yield same, s1; continue
                if not same: yield Val.const(int(cn == 'operator!=')), s1; continue
                n = a.items[1] if a.items[1].is_const() else b.items[1]
                if not n.is_const(): raise Unmodelled('comparison of string views of unknown size')
                for r, s2 in self.memcmp(e, a.items[0], b.items[0], n.off, 0, s1):
                    if isinstance(r, Abort): yield r, s2; continue
                    yield Val.const(int((r.off == 0) == (cn == 'operator=='))), s2
            return
        if cn in ('operator!=', 'operator==') and len(av) == 2 and any(isinstance(x, Opaque) and x.tag == 'end-iter' for x in av) and any(isinstance(x, Handle) for x in av):
            yield Val.const(int(cn == 'operator!=')), st; return
        if isinstance(ov, Handle) and cn == 'operator->' and not av:
            yield ov, st; return
        if isinstance(ov, Handle) and cn in ('at', 'operator[]', 'find') and len(av) == 1:
            k = av[0]
            key = k.tag if isinstance(k, Opaque) else (k.path if isinstance(k, Handle) else repr(k))
            yield Handle(ov.path + (('at', key),)), st; return
        if cn == 'operator=' and len(av) == 2 and isinstance(av[1], Rec) and isinstance(av[0], Rec) and (self.db.get(e.get('cu')) or {}).get('body') is None and getattr(self, 'argexprs', None):
            # implicit copy / move assignment of a record, written as an operator call: ( target, source )
            self.lv_set(self.argexprs[0], st, av[1]); yield av[1], st; return
        if cn == 'operator=' and len(av) == 1 and isinstance(av[0], Rec) and isinstance(ov, Rec) and self.db.get(e.get('cu')) is None:
            # implicit copy / move assignment of a record
            self.lv_set(self.objexpr, st, av[0]); yield av[0], st; return
        if isinstance(ov, StackV):
            oe = self.objexpr
            if cn == 'empty': yield Val.const(int(not ov.items)), st; return
            if cn == 'size': yield Val.const(len(ov.items)), st; return
            if cn == 'back':
                if not ov.items:
                    self.findings.append(('stack', 'back() of an empty rule stack', e.get('loc'))); raise Unmodelled('back() of an empty stack')
                yield ov.items[-1], st; return
            if cn in ('push_back', 'emplace_back'):
                self.lv_set(oe, st, StackV(ov.items + (av[0],))); yield Opaque('void'), st; return
            if cn == 'pop_back':
                if not ov.items:
                    self.findings.append(('stack', 'pop_back() of an empty rule stack', e.get('loc'))); raise Unmodelled('pop_back() of an empty stack')
                self.lv_set(oe, st, StackV(ov.items[:-1])); yield Opaque('void'), st; return
        if isinstance(ov, Agg) and cn in ('size', 'begin', 'end'):
            yield (Val.const(len(ov.items)) if cn == 'size' else Ptr(('agg', ov), 0 if cn == 'begin' else len(ov.items))), st; return
        if ((isinstance(ov, Opaque) and ov.tag == 'input') or isinstance(ov, Inp)) and cn in INPUT_OPS:
            if isinstance(ov, Inp):
                # run the operation with the cursor of that input
                save = st.pos; st.pos = st.env[('pos', ov.key)]
                for v, s2 in self.input_call(e, cn, av, st):
                    s2.env[('pos', ov.key)] = s2.pos; s2.pos = save
                    yield v, s2
                return
            yield from self.input_call(e, cn, av, st); return
        if isinstance(ov, Opaque) and ov.tag == 'string':
            if e.get('opc') == '+=' or cn == 'push_back':
                st.eff = st.eff + (('append', [av[0]]),); yield ov, st; return
            if cn == 'append' and len(av) == 2 and isinstance(av[0], Agg): av = [Ptr(('agg', av[0]), 0), av[1]]
            if cn == 'append' and len(av) == 2 and isinstance(av[0], Ptr) and isinstance(av[0].base, tuple) and isinstance(av[1], Val) and av[1].is_const():
                arr = av[0].base[1].items
                n = av[1].off
                if av[0].off != 0 or n > len(arr): self.findings.append(('append', 'append( tmp, %d ) reads beyond the %d prepared bytes' % (n, len(arr)), e.get('loc')))
                st.eff = st.eff + (('append', list(arr[:n])),); yield ov, st; return
            raise Unmodelled('string operation %s' % (cn or e.get('opc')))
        if cn in ('__builtin_bswap16', '__builtin_bswap32', '__builtin_bswap64'):
            yield fit(bswap(av[0], int(cn[15:]) // 8), e.get('t')), st; return
        if cn == 'memcpy' and len(av) == 3 and isinstance(av[0], tuple) and av[0][0] == 'addr' and isinstance(av[1], Ptr) and av[1].base == 'cur' and av[2].is_const():
            # the host is little-endian (the extraction uses the build's target): the object representation is the little-endian composition
            n = av[2].off; v = Val.const(0)
            for j in range(n):
                self.need(st, av[1].off + j, e.get('loc'))
                v = binop('+', v, binop('<<', self.byte(av[1].off + j), Val.const(8 * j)))
            st.env[av[0][1]] = v
            yield Opaque('void'), st; return
        if cn == 'memcmp' and len(av) == 3 and all(isinstance(x, Ptr) for x in av[:2]) and isinstance(av[2], Val) and av[2].is_const():
            yield from self.memcmp(e, av[0], av[1], av[2].off, 0, st); return
        if cn == 'strncmp' and len(av) == 3 and all(isinstance(x, Ptr) for x in av[:2]) and isinstance(av[2], Val) and av[2].is_const():
            yield from self.memcmp(e, av[0], av[1], av[2].off, 0, st, stop_at_nul=True); return
        if cn == 'memchr' and len(av) == 3 and isinstance(av[0], Ptr) and av[0].base == 'cur' and not isinstance(av[0].off, Val) and isinstance(av[1], Val) and av[1].is_const() and isinstance(av[2], Val):
            yield from self.memchr(e, av[0], av[1], av[2], 0, st); return
        if cn == 'terminate' or cq == 'std::terminate':
            yield Abort('terminate'), st; return
        fn = self.db.get(e.get('cu')) if e.get('cu') else None
        if fn is not None and fn.get('body') is not None:
            exprs = getattr(self, 'argexprs', None)
            refs = []
            if exprs is not None and len(exprs) == len(fn.get('params', [])):
                for p, x in zip(fn['params'], exprs):
                    t = (p.get('t') or '').strip()
                    y = x
                    while isinstance(y, dict) and y.get('k') == 'cast' and y.get('ck') == 'NoOp': y = y['e']
                    if t.endswith('&') and not t.startswith('const ') and isinstance(y, dict) and y.get('k') in ('ref', 'member') and isinstance(st.env.get(y.get('d')) if y.get('k') == 'ref' else 1, (Rec, Alias, int)):
                        refs.append((p['id'], y))
            for v, s2 in self.inline(fn, av, st, ov):
                for pid, x in refs:
                    if pid in s2.env and isinstance(s2.env[pid], Rec): self.lv_set(x, s2, s2.env[pid])
                yield v, s2
            return
        if cq.startswith('std::') and (e.get('t') or '').replace('const ', '').strip() not in CT and (not (e.get('t') or '').endswith('*') or cn == 'get'):
            yield Opaque('std'), st; return      # library objects without a value the analyses look at (error categories, paths, ...)
        raise Unmodelled('call of %s at %s' % (cq or cn, e.get('loc')))

    def memchr(self, e, b, ch, n, i, st):
        """std::memchr( b, ch, n ): the first of the n bytes at b that equals ch, else null"""
        for more, s1 in self.compare('>', n, Val.const(i), st):
            if isinstance(more, Abort): yield more, s1; continue
            if not more: yield Ptr('null', 0), s1; continue
            if b.off + i >= CAP: yield Abort('window'), s1; continue
            self.need(s1, b.off + i, e.get('loc'))
            for eq, s2 in self.compare('==', fit(self.byte(b.off + i, 'unsigned char'), 'unsigned char'), Val.const(ch.off & 0xff), s1):
                if eq: yield Ptr('cur', b.off + i), s2
                else: yield from self.memchr(e, b, ch, n, i + 1, s2)

    def memcmp(self, e, a, b, n, i, st, stop_at_nul=False):
        """bytes are compared as unsigned char; the sign of the first difference is the result.  stop_at_nul: std::strncmp (ISO C 7.24.4.4) - characters
        that follow a null character are not compared"""
        if i == n:
            yield Val.const(0), st; return
        xs = []
        for p in (a, b):
            r = list(self.deref(Ptr(p.base, p.off + i), {'t': 'unsigned char', 'loc': e.get('loc')}, st))
            v = r[0][0]
            xs.append(fit(v, 'unsigned char') if isinstance(v, Val) else v)
        for lt, s1 in self.compare('<', xs[0], xs[1], st):
            if lt: yield Val.const(-1), s1; continue
            for gt, s2 in self.compare('>', xs[0], xs[1], s1):
                if gt: yield Val.const(1), s2
                elif stop_at_nul:
                    for z, s3 in self.compare('==', xs[0], Val.const(0), s2):
                        if z: yield Val.const(0), s3
                        else: yield from self.memcmp(e, a, b, n, i + 1, s3, True)
                else: yield from self.memcmp(e, a, b, n, i + 1, s2)

    def input_call(self, e, cn, av, st):
        if cn == 'empty':
            yield Val({self.avail.level: [1 if a <= st.pos else 0 for a in range(self.avail.size)]}), st
        elif cn == 'size':
            if self.buffer_min and av and av[0].is_const():
                # an incremental input that buffers as little as its contract allows: size( a ) is min( remaining, a )
                a0 = av[0].off
                yield Val({self.avail.level: [min(max(a - st.pos, 0) if a < CAP else a0, a0) for a in range(self.avail.size)]}), st; return
            yield Val({self.avail.level: [(max(a - st.pos, 0) if a < CAP else MANY + max(CAP - st.pos, 0)) for a in range(self.avail.size)]}), st
        elif cn in ('peek_uint8', 'peek_char', 'peek_byte'):
            if av and not av[0].is_const(): raise Unmodelled('peek at a symbolic offset')
            k = (av[0].off if av else 0) + st.pos
            if k >= CAP:
                yield Abort('window'), st; return
            self.need(st, k, e.get('loc'))
            yield self.byte(k, e.get('t')), st
        elif cn in ('current', 'begin') and (cn == 'current' or st.pos == 0): yield Ptr('cur', st.pos), st
        elif cn == 'end': yield Ptr('end', 0), st
        elif cn in ('bump', 'bump_in_this_line', 'bump_to_next_line'):
            n = av[0] if av else Val.const(1)
            if not n.is_const() and list(n.tabs) == [self.avail.level] and cn == 'bump':
                # the count is a function of the available size (everything: bump( size() )): one exact path per size
                for a in range(self.avail.size):
                    part = self.sp.AND(st.cond, self.sp.restrict(self.avail.level, ((a, a),)))
                    if part is None: continue
                    s2 = st.fork(part)
                    k = n.tabs[self.avail.level][a] + n.off
                    if a >= CAP or k >= MANY or s2.pos + k > CAP:
                        yield Abort('window'), s2; continue
                    if k > max(a - s2.pos, 0): self.findings.append(('bump', 'advances by %d with only %d available' % (k, a - s2.pos), e.get('loc')))
                    s2.eff = s2.eff + (('bump', Val.const(k), cn, s2.cond, s2.pos, self.callsite or e.get('loc')),)
                    s2.pos += k
                    yield Opaque('void'), s2
                return
            if not n.is_const(): raise Unmodelled('%s by a symbolic count' % cn)
            if st.pos + n.off > CAP:
                yield Abort('window'), st; return
            if n.off: self.need(st, st.pos + n.off - 1, e.get('loc'))
            st.eff = st.eff + (('bump', n, cn, st.cond, st.pos, self.callsite or e.get('loc')),)
            st.pos += n.off
            yield Opaque('void'), st
        else: raise Unmodelled('input operation ' + cn)

    def inline(self, fn, av, st, this=None):
        ps = fn.get('params', [])
        if len(ps) != len(av): raise Unmodelled('arity of ' + fn['q'])
        for p, v in zip(ps, av):
            if isinstance(v, Val): v = fit(v, p.get('t'))
            st.env[p['id']] = v
        prev = st.env.get('this'); st.env['this'] = this
        outs = list(self.run(fn['body'], st))
        merged = self.merge(outs, st)
        for kind, val, s in (merged if merged is not None else outs):
            s.env['this'] = prev
            if kind == 'return': yield val, s
            elif kind == 'fall': yield Opaque('void'), s
            elif kind in ('terminate', 'throw', 'window'): yield Abort(kind, val), s
            else: raise Unmodelled('%s leaves the inlined function %s' % (kind, fn['q']))

    def merge(self, outs, st0):
        """the returning paths of a call without effects whose results depend on one variable are joined again: the value
        becomes one table, the path condition the union (keeps digit loops linear)"""
        rets = [o for o in outs if o[0] == 'return']
        if len(rets) < 2 or any(not isinstance(v, Val) or len(v.tabs) > 1 or s.eff != st0.eff for k, v, s in rets): return None
        ls = set(l for k, v, s in rets for l in v.tabs)
        if len(ls) != 1: return None
        l = ls.pop()
        tab = [0] * self.sp.vars[l].size; seen = (); cond = None
        for k, v, s in rets:
            xs = self.sp.project(s.cond, l)
            if isect(xs, seen): return None
            seen = iunion(seen, xs)
            t = v.table(l) if v.tabs else None
            for a, b in xs:
                for x in range(a, b + 1): tab[x] = t[x] if t is not None else v.off
            cond = self.sp.OR(cond, s.cond)
        # sound only if the paths differ in nothing but the constraint on that variable
        chk = None
        for k, v, s in rets:
            chk = self.sp.OR(chk, self.sp.AND(cond, self.sp.restrict(l, self.sp.project(s.cond, l))))
            if self.sp.AND(cond, self.sp.restrict(l, self.sp.project(s.cond, l))) != s.cond: return None
        s0 = rets[0][2]; s0.cond = cond
        return [('return', clean(Val({l: tab})), s0)] + [o for o in outs if o[0] != 'return']

    # ---- statements: generators of (kind, value, state); kind in fall/return/break/continue
    def run(self, s, st):
        k = s.get('k')
        if k == 'Compound':
            yield from self.seq(s['s'], 0, st)
        elif k == 'Expr':
            for _, s2 in self.ev(s['e'], st):
                if isinstance(_, Abort): yield _.kind, _.what, s2; continue
                yield 'fall', None, s2
        elif k == 'Null':
            yield 'fall', None, st
        elif k == 'Return':
            if s.get('e') is None: yield 'return', None, st
            else:
                for v, s2 in self.ev(s['e'], st):
                    if isinstance(v, Abort): yield v.kind, v.what, s2; continue
                    yield 'return', v, s2
        elif k == 'Decl':
            yield from self.decls(s['decls'], 0, st)
        elif k == 'If':
            if s.get('init'):
                for kind, v, s1 in self.run(s['init'], st):
                    if kind != 'fall': yield kind, v, s1
                    else: yield from self.run(dict(s, init=None), s1)
                return
            if s.get('var'):
                for kind, v, s1 in self.decls([s['var']], 0, st):
                    if kind != 'fall': yield kind, v, s1
                    else: yield from self.if_rest(s, s1)
            else: yield from self.if_rest(s, st)
        elif k in ('While', 'For'):
            yield from self.loop(s, st)
        elif k == 'Switch':
            if s.get('init'):
                for kind, v, s1 in self.run(s['init'], st):
                    if kind != 'fall': yield kind, v, s1
                    else: yield from self.run(dict(s, init=None), s1)
                return
            if s.get('var'):        # switch( const auto c = ... )
                for kind, v, s1 in self.decls([s['var']], 0, st):
                    if kind != 'fall': yield kind, v, s1
                    else: yield from self.switch(s, s1)
            else: yield from self.switch(s, st)
        elif k == 'Break': yield 'break', None, st
        elif k == 'Continue': yield 'continue', None, st
        else:
            raise Unmodelled('statement %s at %s' % (k, s.get('loc')))

    def if_rest(self, s, st):
        for c, s2 in self.ev(s['cond'], st):
            if isinstance(c, Abort): yield c.kind, c.what, s2; continue
            for b, s3 in self.truth(c, s2):
                if b: yield from self.run(s['then'], s3)
                elif s.get('else'): yield from self.run(s['else'], s3)
                else: yield 'fall', None, s3

    def seq(self, ss, i, st):
        if i == len(ss): yield 'fall', None, st; return
        for kind, v, s2 in self.run(ss[i], st):
            if kind == 'fall': yield from self.seq(ss, i + 1, s2)
            else: yield kind, v, s2

    def decls(self, ds, i, st):
        if i == len(ds): yield 'fall', None, st; return
        d = ds[i]
        if d.get('init') is None:
            st.env[d['id']] = Opaque('uninit'); yield from self.decls(ds, i + 1, st); return
        t = (d.get('t') or '').strip()
        ini = d['init']
        while ini.get('k') == 'cast' and ini.get('ck') in ('NoOp',): ini = ini['e']
        if t.endswith('&') and not t.startswith('const ') and ini.get('k') in ('ref', 'member'):
            st.env[d['id']] = Alias(ini); yield from self.decls(ds, i + 1, st); return
        for v, s2 in self.ev(d['init'], st):
            if isinstance(v, Abort): yield v.kind, v.what, s2; continue
            if isinstance(v, Val): v = fit(v, d.get('t'))
            s2.env[d['id']] = v
            yield from self.decls(ds, i + 1, s2)

    def loop(self, s, st, n=0):
        if n == 0 and s.get('init'):
            for kind, v, s2 in self.run(s['init'], st): yield from self.loop_iter(s, s2, 0)
        else: yield from self.loop_iter(s, st, n)

    def loop_iter(self, s, st, n):
        if n > 40: raise Unmodelled('loop does not terminate within 40 iterations at %s' % s.get('loc'))
        if s.get('var'):
            for kind, v, s1 in self.decls([s['var']], 0, st):
                if kind != 'fall': yield kind, v, s1
                else: yield from self.loop_iter2(s, s1, n)
        else: yield from self.loop_iter2(s, st, n)

    def loop_iter2(self, s, st, n):
        conds = [(Val.const(1), st)] if s.get('cond') is None else self.ev(s['cond'], st)
        for c, s2 in conds:
            if isinstance(c, Abort): yield c.kind, c.what, s2; continue
            for b, s3 in self.truth(c, s2):
                if not b: yield 'fall', None, s3; continue
                for kind, v, s4 in self.run(s['body'], s3):
                    if kind == 'break': yield 'fall', None, s4
                    elif kind in ('return', 'terminate', 'throw', 'window'): yield kind, v, s4
                    else:
                        if s.get('inc'):
                            for _, s5 in self.ev(s['inc'], s4):
                                if isinstance(_, Abort): yield _.kind, _.what, s5; continue
                                yield from self.loop_iter(s, s5, n + 1)
                        else: yield from self.loop_iter(s, s4, n + 1)

    def switch(self, s, st):
        items = []    # flattened body: ('label', const or None) | ('stmt', node)
        def flat(n):
            if n is None: return
            if n.get('k') == 'Case':
                items.append(('label', int(n['v']['v']))); flat(n.get('sub'))
            elif n.get('k') == 'Default':
                items.append(('label', None)); flat(n.get('sub'))
            else: items.append(('stmt', n))
        body = s['body']
        for n in (body['s'] if body.get('k') == 'Compound' else [body]): flat(n)
        labels = [(v, i) for i, (k, v) in enumerate(items) if k == 'label']
        for c, s2 in self.ev(s['cond'], st):
            if isinstance(c, Abort): yield c.kind, c.what, s2; continue
            rest = s2
            for v, i in labels:
                if v is None: continue
                got = list(self.compare('==', c, Val.const(v), rest))
                nxt = None
                for b, s3 in got:
                    if b: yield from self.from_label(items, i, s3)
                    else: nxt = s3
                if nxt is None: rest = None; break
                rest = nxt
            if rest is not None:
                dflt = [i for v, i in labels if v is None]
                if dflt: yield from self.from_label(items, dflt[0], rest)
                else: yield 'fall', None, rest

    def from_label(self, items, i, st):
        stmts = [n for k, n in items[i:] if k == 'stmt']
        for kind, v, s2 in self.seq(stmts, 0, st):
            if kind == 'break': yield 'fall', None, s2
            else: yield kind, v, s2


class Abort:
    """a path that ends in std::terminate() or a throw inside an expression"""
    def __init__(self, kind, what=None): self.kind = kind; self.what = what
    def __repr__(self): return 'Abort(%s)' % self.kind


def outcomes(interp, fn, st):
    """run a function body; exceptions for terminate/throw end only the path on which they happen, so the body is driven
    path by path: the generator is resumed after recording the path"""
    out = []
    gen = interp.run(fn['body'], st)
    while True:
        try:
            kind, v, s = next(gen)
            out.append((kind, v, s))
        except StopIteration:
            break
    return out
