"""Parse-tree builder discipline (DESIGN.md 5/C12).

(A) STACK: every hook of the make_control state handlers is executed abstractly with the builder state as an abstract
    stack: start pushes exactly one frame, success / failure / unwind pop exactly one; a node (or the children of an
    unselected frame) is attached only in success, after the pop, to the frame then on top, by appending; the selected
    handler stamps the span: node start( in ) on the new frame, node success( in ) on the popped node before it is attached.
(B) selection: for witness grammars the handler chosen for every rule (read from the instantiated types) must satisfy
    - a rule is given the selected handler iff control is enabled for it and the selector selects it,
    - the leaf optimisation (no frame at all) is used only when no selected rule is reachable below the rule at any depth."""
import collections
from . import core
from .exec import *
from .mon_base import *

T = 'tao::pegtl::'
PT = T + 'parse_tree::'


class StackMonitor(BaseMonitor):
    def __init__(self, db):
        BaseMonitor.__init__(self, db)
        self.record_events = True; self.hooks_opaque = True
        self.loop_events = []      # events inside loops (iterations that reach an already seen state are pruned, their events survive here)

    def lvl(self, st): return st.x['lvl']

    def on_hook(self, ex, e, cn, vals, st, fr):
        # which objects the wrapped control's hook is given: the builder state must not be among them, the caller's states must all be
        kinds = []
        for v in vals:
            o = st.heap.get(v.addr) if isinstance(v, Obj) else None
            if isinstance(o, dict) and o.get('__ptstate'): kinds.append('builder')
            elif isinstance(o, dict) and o.get('__state'): kinds.append('state')
            elif isinstance(o, dict) and o.get('__input'): kinds.append('input')
        st.events.append(('fwd', cn, tuple(kinds)))

    def call(self, ex, e, cu, cq, cn, ob, objloc, av, st, fr):
        o = st.heap.get(ob.addr) if isinstance(ob, Obj) else None
        def ret(v):
            def g(): yield v, st
            return g()
        if isinstance(o, dict) and o.get('__ptstate'):
            if cn == 'emplace_back':
                st.x['lvl'] += 1; st.events.append(('push', st.x['lvl'])); return ret(None)
            if cn == 'pop_back':
                st.events.append(('pop', st.x['lvl'])); st.x['lvl'] -= 1; return ret(None)
            if cn == 'back':
                return ret(Obj(st.alloc({'__slot': st.x['lvl'], '__taken': False})))
        if isinstance(o, dict) and '__slot' in o:
            # unique_ptr< Node > of a frame
            if cn in ('operator->', 'get', 'operator*'):
                ch = Obj(st.alloc({'__children': o['__slot']}))
                return ret(Obj(st.alloc({'__node': o['__slot'], 'children': ch})))
            if cn == 'operator bool':
                def g():
                    s2 = st.copy(); yield True, st; s2.events.append(('node-gone', o['__slot'])); yield False, s2
                return g()
            if cn in ('reset',): return ret(None)
        if isinstance(o, dict) and '__node' in o:
            vals = [ex.argval(a, st) for a in av]
            if cn in ('start', 'success', 'failure', 'unwind', 'remove_content'):
                has_in = any(self.input_of(ex, v, st) is not None for v in vals[:1])
                st.events.append(('node', cn, o['__node'], has_in, st.x['lvl']))
                return ret(None)
            if cn == 'emplace_back':
                child = vals[0] if vals else None
                cs = st.heap.get(child.addr, {}).get('__slot') if isinstance(child, Obj) else None
                st.events.append(('attach', cs, o['__node'], st.x['lvl']))
                return ret(None)
        if isinstance(o, dict) and o.get('__children') is not None and cn in ('emplace_back', 'push_back', 'insert', 'emplace'):
            st.events.append(('attach-children', cn, o['__children'], st.x['lvl']))
            self.loop_events.append(('attach-children', cn, o['__children'], st.x['lvl'], 'pop' in [x[0] if isinstance(x, tuple) else x for x in st.events]))
            return ret(None)
        if isinstance(o, dict) and o.get('__children') is not None and cn in ('swap', 'clear', 'erase', 'pop_back', 'resize', 'assign', 'operator=', 'shrink_to_fit') and cn != 'shrink_to_fit':
            # the list of children of a frame is only ever appended to: anything else loses or reorders nodes of the derivation
            st.events.append(('children-mutated', cn, o['__children'], st.x['lvl']))
            self.loop_events.append(('children-mutated', cn, o['__children'], st.x['lvl'], True))
            return ret(None)
        if cq in ('std::move', 'std::forward') and av:
            return ret(ex.argval(av[0], st))
        if cn == 'transform' and cq.startswith(PT):
            st.events.append(('transform', st.x['lvl']))
            return ret(None)
        return BaseMonitor.call(self, ex, e, cu, cq, cn, ob, objloc, av, st, fr)

    def construct(self, ex, e, st, fr):
        # auto n = std::move( state.back() ) : move construction of the unique_ptr keeps the slot identity
        args = e.get('args', [])
        if len(args) == 1 and 'unique_ptr' in (e.get('t') or ''):
            def g():
                for v, s in ex.ev(args[0], st, fr):
                    yield v, s
            return g()
        return BaseMonitor.construct(self, ex, e, st, fr)


def member_children(ex, st, node_obj):
    return Obj(st.alloc({'__children': st.heap[node_obj.addr]['__node']}))


def run_hook(db, fn):
    mon = StackMonitor(db); ex = Exec(db, mon); st = State()
    st.x['lvl'] = 1
    inp = new_input(st)
    f = Frame(fn); ex.frames.append(f)
    env = EnvView(st, f.fid); bound = False
    for p in fn['params']:
        t = p['t']
        if not bound and '_input<' in t and t.endswith('&'):
            env[p['id']] = inp; bound = True
        elif 'parse_tree::internal::state<' in t:
            env[p['id']] = Obj(st.alloc({'__ptstate': True}))
        elif t.endswith('&'): env[p['id']] = Obj(st.alloc({'__type': t, '__state': True}))
        else: env[p['id']] = Unknown('param')
    out = []
    for comp in ex.run_fn(fn, f, st):
        s = comp[-1]
        out.append((comp[0], tuple(e for e in s.events), s.x['lvl']))
    run_hook.last_loop_events = list(mon.loop_events)
    return out


def check_hook(db, fn, selected, leaf):
    """returns list of problems for one handler hook; check_hook.forwards = the sequences of wrapped-control hooks called on its paths"""
    n = fn['n']
    probs = []
    forwards = check_hook.forwards = set()
    nstates = sum(1 for p in fn['params'] if p['t'].endswith('&') and 'parse_tree::internal::state<' not in p['t'] and '_input<' not in p['t'])
    for kind, evs, lvl in run_hook(db, fn):
        if kind == 'throw': continue
        # forwarding (C08 for the wrapped control): which hooks of the caller's control this path calls, and with what
        fw = [e for e in evs if isinstance(e, tuple) and e[0] == 'fwd']
        forwards.add(tuple(e[1] for e in fw))
        for e in fw:
            if e[2].count('state') != nstates or 'builder' in e[2]:
                probs.append('%s hands %s to the wrapped control, expected the input and the %d states of the caller without the builder state' % (n, list(e[2]), nstates))
        pushes = [e for e in evs if isinstance(e, tuple) and e[0] == 'push']; pops = [e for e in evs if isinstance(e, tuple) and e[0] == 'pop']
        att = [e for e in evs if isinstance(e, tuple) and e[0] in ('attach', 'attach-children')]
        nodes = [e for e in evs if isinstance(e, tuple) and e[0] == 'node']
        names = [e[0] if isinstance(e, tuple) else e for e in evs]
        want = {'start': 1, 'success': -1, 'failure': -1, 'unwind': -1}[n]
        if lvl - 1 != want: probs.append('%s changes the builder stack by %+d frames, expected %+d' % (n, lvl - 1, want))
        if n == 'start' and len(pushes) != 1: probs.append('start pushes %d frames' % len(pushes))
        if n != 'start' and (len(pops) != 1 or pushes): probs.append('%s pops %d and pushes %d frames, expected exactly one pop' % (n, len(pops), len(pushes)))
        if n in ('failure', 'unwind', 'start') and att: probs.append('%s attaches a node to the tree' % n)
        for e in evs:
            if isinstance(e, tuple) and e[0] == 'children-mutated':
                probs.append('%s applies %s() to the children of frame %s: the children of a frame may only be appended to (order and completeness of the derivation)' % (n, e[1], e[2]))
        if n == 'success':
            for a in att:
                i = list(evs).index(a)
                if 'pop' not in names[:i]: probs.append('success attaches before the frame is popped')
                parent_level = a[2] if a[0] == 'attach' else a[2]
                if a[0] == 'attach' and (a[1] != 1 or a[2] != 0): probs.append('success attaches slot %s to frame %s; expected the popped node onto the frame below it' % (a[1], a[2]))
                if a[0] == 'attach-children':
                    if a[1] not in ('emplace_back', 'push_back'): probs.append('children are attached with %s (order of the derivation is lost)' % a[1])
                    if a[2] != 0: probs.append('children of the unselected frame are moved to frame %s, expected the frame below' % a[2])
            if selected:
                sn = [e for e in nodes if e[1] == 'success']
                if len(sn) != 1 or sn[0][2] != 1 or not sn[0][3]: probs.append('the matched node is not given success( in ) (end of the span) exactly once')
                elif att and list(evs).index(sn[0]) > list(evs).index(att[0]): probs.append('the end of the span is stamped after the node was attached')
                if not att and not any(isinstance(e, tuple) and e[0] == 'node-gone' for e in evs): probs.append('success does not attach the matched node')
            elif not leaf:
                pass
        if n == 'start' and selected:
            sn = [e for e in nodes if e[1] == 'start']
            if len(sn) != 1 or sn[0][2] != 2 or not sn[0][3]: probs.append('the new node is not given start( in ) (begin of the span) on the pushed frame')
    if n == 'success' and not selected and not leaf:
        run_hook(db, fn)
        le = run_hook.last_loop_events
        if not le:
            probs.append('the children collected by the unselected frame are not handed to the frame below (they are lost)')
        for a in le:
            if a[0] == 'children-mutated':
                probs.append('success applies %s() to the children of frame %s: the children of a frame may only be appended to (order and completeness of the derivation)' % (a[1], a[2])); continue
            if a[1] not in ('emplace_back', 'push_back'): probs.append('children are attached with %s (order of the derivation is lost)' % a[1])
            if a[2] != 0 or not a[4]: probs.append('children of the unselected frame are moved to frame %s (popped first: %s), expected the frame below after the pop' % (a[2], a[4]))
    return sorted(set(probs))


# ---- (B) selection -------------------------------------------------------------------------------------
def subs_of(db, rule):
    seen = set(); todo = [rule]
    while todo:
        c = todo.pop(0)
        if c in seen: continue
        seen.add(c)
        r = db.records.get(c)
        if not r: continue
        if 'subs_t' in r.get('aliases', {}):
            a = r['aliases']['subs_t']
            out = []
            def flat(x):
                for y in x:
                    if y.get('k') == 'pack': flat(y.get('a', []))
                    elif y.get('k') == 'type': out.append(y['s'])
            flat(a.get('a', []))
            return out
        todo.extend(r.get('bases', []))
    return None


def bases_closure(db, cls):
    seen = set(); todo = [cls]
    while todo:
        c = todo.pop(0)
        if c in seen: continue
        seen.add(c)
        todo.extend((db.records.get(c) or {}).get('bases', []))
    return seen


def const_of(db, cls, name):
    """folded static constant of a class, own or inherited (first base that has it)"""
    seen = set(); todo = [cls]
    while todo:
        c = todo.pop(0)
        if c in seen: continue
        seen.add(c)
        r = db.records.get(c)
        if not r: continue
        if name in r.get('consts', {}): return r['consts'][name]
        todo.extend(r.get('bases', []))
    return None


def control_enabled(db, rule):
    r = db.records.get(T + 'normal<%s>' % rule)
    if r is None: return None
    return bool(r.get('consts', {}).get('enable'))


def selected_reachable(db, rule, is_sel, memo=None):
    """is a (spec-)selected rule reachable strictly below `rule`?"""
    seen = set(); todo = list(subs_of(db, rule) or [])
    while todo:
        x = todo.pop()
        if x in seen: continue
        seen.add(x)
        if is_sel(x): return x
        todo.extend(subs_of(db, x) or [])
    return None


def handlers(db):
    """(selector template, rule, selected flag, leaf flag) for every instantiated state_handler"""
    out = []
    for k, r in db.records.items():
        if not (r.get('tn') or '').endswith('>::state_handler'): continue
        a = r.get('a') or []
        if len(a) != 3: continue
        mc = k.split('::state_handler<')[0]
        out.append((mc, a[0].get('s'), bool(a[1].get('v')), bool(a[2].get('v')), k))
    return out
