"""REWIND: cursor typestate obligations R1-R6 on every function with the rule-boundary signature."""
import collections
from .exec import *
from .mon_base import *


class RewindMonitor(BaseMonitor):
    pass


def analyse(db, fn, never_false=frozenset(), monitor_cls=RewindMonitor, maxsteps=400000, linked=None):
    """returns (results Counter{(kind, value, cursor class)}, reports [(rule, msg, loc, trace)], steps)"""
    mon = monitor_cls(db, never_false, linked)
    ex = Exec(db, mon); ex.maxsteps = maxsteps
    st = State()
    inp = new_input(st)
    f = Frame(fn)
    ex.frames.append(f)
    bind_params(ex, fn, f, st, inp)
    mode = fn_mode(fn)
    eff = REQ if mode is None else mode
    results = collections.Counter(); reports = []
    for comp in ex.run_fn(fn, f, st):
        s = comp[-1]
        p = s.heap[inp.addr]['m_current'].pos
        kind = comp[0]
        val = comp[1] if kind == 'return' else None
        results[(kind, vkey(val) if not isinstance(val, (Unknown, Sym)) else '?', p)] += 1
        for v in s.viol:
            if v[0].startswith('R'): reports.append((v[0], v[1], v[2], tuple(s.trace)))
        if kind == 'return':
            vals = [val] if isinstance(val, bool) else [True, False]
            if False in vals and eff == REQ and p != 'E':
                reports.append(('R1', 'returns false in rewind_mode::required with the cursor %s' % {'A': 'advanced', 'A?': 'possibly advanced', 'D': 'DIRTY (after an un-rewound failed attempt)'}.get(p, p), fn['loc'], tuple(s.trace)))
            if True in vals and p == 'D':
                reports.append(('R2', 'returns true with a DIRTY cursor (success on top of an un-rewound failed attempt)', fn['loc'], tuple(s.trace)))
    return results, reports, ex.steps


def never_returns_false(results):
    return not any(k[0] == 'return' and k[1] in (False, '?') for k in results)


class Analyzer:
    """one analysis per function, on demand; `usr in analyzer` answers "this rule-boundary function never returns false" (only true or an
    exception: must, raise, star, opt, success ...), computed from the callee's own analysis (memoised).

    Recursion: "may return false" is a least fixpoint (a false return has to originate on some path), so a callee that is still being
    analysed further up the stack is first assumed never to return false; if its finished analysis disagrees, it is added to the functions known
    to fail, everything computed under the wrong assumption is dropped and the outermost analysis is repeated - until no assumption is refuted."""

    def __init__(self, db, monitor_cls=RewindMonitor, maxsteps=400000):
        self.db = db; self.cache = {}; self.busy = set(); self.monitor_cls = monitor_cls; self.maxsteps = maxsteps
        self.stack = []; self.assumed = set(); self.may_fail = set(); self.refuted = False

    def _run(self, fn):
        u = fn['u']
        self.busy.add(u); self.stack.append(u)
        try:
            r = analyse(self.db, fn, self, self.monitor_cls, self.maxsteps)
        except Budget:
            r = ('budget', None, 0)
        except Unmodelled as e:
            r = ('unmodelled', str(e), 0)
        finally:
            self.busy.discard(u); self.stack.pop()
        if u in self.assumed and u not in self.may_fail:
            ok = isinstance(r[0], collections.Counter) and bool(r[0]) and never_returns_false(r[0])
            if not ok:
                self.may_fail.add(u); self.refuted = True
        return r

    def get(self, fn):
        u = fn['u']
        if u in self.cache: return self.cache[u]
        if self.stack:
            # nested: kept for the rest of this outermost analysis; if an assumption is refuted, the outermost analysis clears the cache and starts again
            r = self._run(fn)
            self.cache[u] = r
            return r
        for _ in range(40):
            self.refuted = False; self.assumed = set()
            r = self._run(fn)
            if not self.refuted: break
            self.cache.clear()          # results that relied on a refuted assumption are dropped
        else:
            r = ('budget', None, 0)
        self.cache[u] = r
        return r

    def __contains__(self, u):
        if u in self.busy:
            if u in self.may_fail: return False
            self.assumed.add(u)
            return True
        fn = self.db.get(u)
        if fn is None or fn.get('body') is None or not is_match_root(fn): return False
        r = self.get(fn)
        if not isinstance(r[0], collections.Counter) or not r[0]: return False
        return never_returns_false(r[0])
