"""Base monitor: cursor typestate of the parse input, rule-boundary oracle, primitives.

The main input is a heap object with field m_current = Cur(class) where class is
  'E'  : at the position of function entry
  'A?' : possibly advanced (advance by an amount that may be zero)
  'A'  : advanced
  'D'  : DIRTY - somewhere after a failed/aborted attempt that was not rewound
Saved positions (rewind_guard::m_saved etc.) are plain copies of these values, so restoring a
guard taken at 'E' brings the cursor back to 'E'.  The behaviour of guards and inputs comes from
interpreting their own extracted bodies, not from a model.
"""
from .exec import *

REQ, OPT = 0, 1
BUMPS = ('tao::pegtl::internal::bump', 'tao::pegtl::internal::bump_in_this_line', 'tao::pegtl::internal::bump_to_next_line')
HOOKS = ('start', 'success', 'failure', 'unwind', 'apply', 'apply0', 'raise', 'raise_nested')


class BaseMonitor:
    def __init__(self, db, never_false=frozenset(), linked=None):
        self.db = db
        self.never_false = never_false
        self.linked = linked            # predicate(e, cq) -> True when a rule boundary is to be inlined (linked mode)
        self.record_events = False
        self.hooks_opaque = False
        self.distinguish_empty = False

    # ---- generic hooks ----------------------------------------------------------------
    def roots(self, st): return []
    def on_decl(self, ex, st, fr, d, v): pass
    def on_write(self, ex, st, fr, loc, v): pass
    def on_read(self, ex, st, fr, e, b, i): pass
    def on_compare(self, ex, st, e, op, l, r): pass
    def on_cycle(self, ex, st, loop, fr): pass
    def arith(self, ex, op, a, b, st, e): return NotImplemented
    def on_cast(self, ex, st, e, v): pass
    def avail_minus(self, ex, st, ptr): return Unknown('end-ptr')
    def cmp_end(self, ex, st, a, op):
        s2 = st.copy(); yield True, st; yield False, s2

    def input_of(self, ex, v, st):
        if isinstance(v, Obj):
            o = st.heap.get(v.addr)
            if isinstance(o, dict) and o.get('__input'): return v
        return None

    def advance_value(self, ex, st, old, n):
        return Cur(self.adv(old.pos, self.amount(st, n)))

    def amount(self, st, n):
        if isinstance(n, bool): n = int(n)
        if isinstance(n, int): return 'zero' if n == 0 else 'pos'
        if isinstance(n, Sym):
            lo, hi = st.facts.get(n.id, [None, None])
            if lo is not None and lo > 0: return 'pos'
            if hi is not None and hi <= 0: return 'zero'
        return 'maybe'

    def adv(self, p, amt):
        if amt == 'zero': return p
        if p == 'D': return 'D'
        if amt == 'pos': return 'A'
        return 'A?' if p in ('E', 'A?') else 'A'

    def on_catch(self, ex, st, fr, h):
        # whatever threw may have consumed: on entry to a handler the cursor is DIRTY
        for a, o in st.heap.items():
            if isinstance(o, dict) and o.get('__input') and o.get('__main'):
                o['m_current'] = Cur('D')
        if self.record_events: st.events.append('catch')

    def catches(self, htype, thrown):
        if htype == '...': return True
        return None     # may or may not

    def user_rule_call(self, ex, e, cq, av, st):
        """a bodiless non-library function that takes the parse input by non-const reference and returns bool is a
        user-written rule (contrib/function.hpp): an opaque contract-abiding rule like any placeholder"""
        if cq.startswith('std::') or cq.startswith('tao::pegtl::') or e.get('crt') != 'bool' or not av: return None
        cpt = e.get('cpt', [])
        if not cpt or cpt[0].startswith('const ') or not cpt[0].endswith('&'): return None
        return self.input_of(ex, ex.argval(av[0], st), st)

    def on_external(self, ex, e, cq, ob, vals, st, fr):
        cpt = e.get('cpt', [])
        for i, v in enumerate(vals):
            if i < len(cpt) and cpt[i].startswith('const '): continue
            if self.input_of(ex, v, st) is not None and not cq.startswith('std::'):
                raise Unmodelled('external call %s receives the input (%s)' % (cq, e.get('loc')))

    def construct(self, ex, e, st, fr):
        t = e.get('t', '')
        if t.startswith('std::optional<'):
            args = e.get('args', [])
            def g():
                if not args:
                    yield Obj(st.alloc({'__opt': True, 'engaged': False, 'value': None})), st; return
                for v, s in ex.ev(args[0], st, fr):
                    if isinstance(v, Thrown): yield v, s
                    else: yield Obj(s.alloc({'__opt': True, 'engaged': True, 'value': v})), s
            return g()
        if 'memory_input<' in t and 'action_input' not in t and 'rewind_guard' not in t and 'bytes_guard' not in t and t.startswith('tao::pegtl::memory_input<'):
            # a second input object (rematch, end_of_line): independent cursor
            a = st.alloc({'__type': t, '__input': True, '__main': False, 'm_current': Cur('E2'), 'private_depth': 0})
            def g():
                yield Obj(a), st
            return g()
        return None

    # ---- rule boundaries ----------------------------------------------------------------
    def is_boundary(self, e, cq, cn, av, st, ex):
        if cn != 'match': return None
        cc = e.get('cc')
        if cc is None and cq != 'tao::pegtl::match': return None
        if cq.startswith('tao::pegtl::internal::apply_single') or cq.startswith('tao::pegtl::internal::apply0_single'): return None
        if not av: return None
        inp = None
        for a in av[:2]:      # sor::match( index_sequence, in, ... ) has the input second
            v = ex.argval(a, st)
            inp = self.input_of(ex, v, st)
            if inp is not None: break
        if inp is None: return None
        mode = None
        for ta in e.get('cta', []):
            if ta.get('k') == 'int' and ta.get('t') == 'tao::pegtl::rewind_mode': mode = ta['v']
        if mode is None: mode = REQ      # one-argument rules cannot see M: treated as required
        return inp, mode

    def call(self, ex, e, cu, cq, cn, ob, objloc, av, st, fr):
        if cq.startswith('std::optional<') and isinstance(ob, Obj) and isinstance(st.heap.get(ob.addr), dict) and st.heap[ob.addr].get('__opt'):
            o = st.heap[ob.addr]
            def g():
                if cn == 'reset': o['engaged'] = False; yield None, st
                elif cn in ('operator bool', 'has_value'): yield o['engaged'], st
                elif cn in ('operator*', 'value', 'operator->'): yield o['value'], st
                else: yield Unknown('opt'), st
            return g()
        b = self.is_boundary(e, cq, cn, av, st, ex)
        if b is not None:
            fn = self.db.get(cu)
            # the same class calling another overload of its own match (sor, change_states): inline, not a boundary
            if fn is not None and fn.get('body') is not None and self.same_class_helper(e, fr):
                return None
            if self.linked is not None and fn is not None and fn.get('body') is not None and self.linked(e, cq):
                return None
            self.boundary_args = av
            return self.oracle(ex, e, cq, b[0], b[1], st, fr)
        if cq in BUMPS:
            return self.bump(ex, e, cq, av, st, fr)
        if self.db.get(cu) is None:
            inp = self.user_rule_call(ex, e, cq, av, st)
            if inp is not None:
                self.boundary_args = av
                return self.oracle(ex, e, cq, inp, REQ, st, fr)
        if self.record_events and cn in HOOKS and e.get('cc') and e.get('static') and av:
            vals = [ex.argval(a, st) for a in av]
            if any(self.input_of(ex, v, st) is not None or (isinstance(v, Cur) and i == 0) for i, v in enumerate(vals[:2])):
                fn = self.db.get(cu)
                if self.hooks_opaque or fn is None or fn.get('body') is None:
                    return self.hook_event(ex, e, cn, vals, st, fr)
        return None

    def same_class_helper(self, e, fr):
        cc = e.get('cc') or {}
        mine = fr.fn.get('cls') or {}
        return bool(cc) and cc.get('s') == mine.get('s') and fr.fn.get('n') == 'match'

    def bump(self, ex, e, cq, av, st, fr):
        loc = av[0][1] if av[0][0] == 'loc' else None
        n = ex.argval(av[1], st)
        if loc is not None:
            old = ex.load(st, loc)
            if isinstance(old, Cur):
                if old.pos == 'D':
                    st.viol.append(('R3', 'advance while the cursor is DIRTY (after an un-rewound failed attempt)', e.get('loc')))
                ex.store(st, loc, Cur(self.adv(old.pos, self.amount(st, n))))
        def g(): yield None, st
        return g()

    def hook_event(self, ex, e, cn, vals, st, fr):
        self.on_hook(ex, e, cn, vals, st, fr)
        def g():
            s1 = st.copy(); s1.events.append(cn)
            if cn in ('raise', 'raise_nested') or e.get('noret'):
                yield Thrown('raise'), s1; return
            crt = e.get('crt', '')
            if crt == 'bool':
                s1b = s1.copy(); s1.events[-1] = cn + ':T'; s1b.events[-1] = cn + ':F'
                yield True, s1; yield False, s1b
            else: yield None, s1
            s2 = st.copy(); s2.events.append(cn + ':throw'); yield Thrown('hook:' + cn), s2
        return g()

    def oracle(self, ex, e, cq, inp, mode, st, fr):
        o = st.heap[inp.addr]
        main = o.get('__main')
        p = o['m_current'].pos
        def g():
            if main and p == 'D':
                st.viol.append(('R3', 'rule boundary call while the cursor is DIRTY (after an un-rewound failed attempt)', e.get('loc')))
            label = self.label(e, cq)
            binfo = self.on_boundary(ex, e, cq, inp, mode, st, fr)
            def ev(s, what):
                if binfo is not None: s.events.append(binfo + (what,))
                elif self.record_events: s.events.append('rule:' + what)
            # success consuming
            s1 = st.copy(); s1.heap[inp.addr]['m_current'] = Cur(self.adv(p, 'pos')); s1.trace.append((label, 'succ+')); ev(s1, 'T+' if binfo is not None else 'T')
            self.after_oracle(ex, s1, inp, 'succ+')
            yield True, s1
            # success empty (identical to the consuming success once the cursor is already ADVANCED / DIRTY)
            if self.adv(p, 'pos') != p or self.distinguish_empty:
                s2 = st.copy(); s2.trace.append((label, 'succ0')); ev(s2, 'T0' if binfo is not None else 'T')
                self.after_oracle(ex, s2, inp, 'succ0')
                yield True, s2
            # failure (unless the callee's own analysis showed it never returns false)
            if e.get('cu') not in self.never_false:
                s3 = st.copy(); s3.trace.append((label, 'fail/' + ('req' if mode == REQ else 'opt'))); ev(s3, 'F')
                if mode != REQ: s3.heap[inp.addr]['m_current'] = Cur('D')
                self.after_oracle(ex, s3, inp, 'fail')
                yield False, s3
            # exception
            s4 = st.copy(); s4.trace.append((label, 'throw')); s4.heap[inp.addr]['m_current'] = Cur('D'); ev(s4, 'throw')
            self.after_oracle(ex, s4, inp, 'throw')
            yield Thrown('any'), s4
        return g()

    def after_oracle(self, ex, st, inp, what): pass
    def on_boundary(self, ex, e, cq, inp, mode, st, fr): return None
    def on_hook(self, ex, e, cn, vals, st, fr): pass

    def label(self, e, cq):
        cc = e.get('cc') or {}
        return (cc.get('s') or cq) + '::match@' + rel_loc(e.get('loc'))


def rel_loc(l):
    if not l: return ''
    i = l.find('/tao/pegtl/')
    return l[i + 11:] if i >= 0 else l


def fn_mode(fn):
    for ta in fn.get('ta', []):
        if ta.get('k') == 'int' and ta.get('t') == 'tao::pegtl::rewind_mode': return ta['v']
    return None


def fn_apply_mode(fn):
    for ta in fn.get('ta', []):
        if ta.get('k') == 'int' and ta.get('t') == 'tao::pegtl::apply_mode': return ta['v']
    return None


LIB_INPUTS = ('memory_input', 'buffer_input', 'string_input', 'read_input', 'mmap_input', 'file_input', 'argv_input', 'istream_input', 'cstream_input', 'input_with_depth', 'internal::input_with_depth',
              'buffer_input_t')     # buffer_input_t: alias of buffer_input in the repository's tests


def is_input_type(t):
    """a parse input of the library taken by non-const reference (inputs defined by tests and examples - token inputs ... - are user code)"""
    if not t.endswith('&') or t.startswith('const '): return False
    if 'action_input' in t or not t.startswith('tao::pegtl::'): return False
    name = t[len('tao::pegtl::'):].split('<')[0].replace('&', '').strip()
    return name in LIB_INPUTS


def is_match_root(fn):
    """function with the rule-boundary signature: named match, takes the parse input by non-const reference"""
    if fn['n'] != 'match' or not fn['params']: return False
    if fn['q'].startswith('tao::pegtl::internal::apply_single') or fn['q'].startswith('tao::pegtl::internal::apply0_single'): return False
    for p in fn['params'][:2]:
        if is_input_type(p['t']): return True
    return False


def new_input(st, main=True, t='input'):
    return Obj(st.alloc({'__type': t, '__input': True, '__main': main, 'm_current': Cur('E'), 'private_depth': 0}))


def bind_params(ex, fn, f, st, inp):
    bound = False; nstate = 0
    for p in fn['params']:
        t = p['t']
        if not bound and is_input_type(t):
            EnvView(st, f.fid)[p['id']] = inp; bound = True
        elif t.endswith('&') and ('unsigned long' in t or 'size_t' in t or t in ('unsigned int &', 'unsigned char &', 'int &', 'signed char &', 'const unsigned long &')):
            v = st.sym(0, None)
            a = st.alloc(['cell', v]); EnvView(st, f.fid)[p['id']] = ('refto', ('cell', a))
        elif t.endswith('&'):
            EnvView(st, f.fid)[p['id']] = Obj(st.alloc({'__type': t, '__state': True, '__idx': nstate})); nstate += 1
        else:
            EnvView(st, f.fid)[p['id']] = st.sym(0, None) if ('unsigned' in t or 'size_t' in t) else Unknown('param')
