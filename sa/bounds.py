"""BOUNDS: availability before every read and advance (DESIGN.md 4.4).

Domain: zone (difference-bound) constraints over `avail` (bytes between the cursor of the main input and its
end) and the symbolic integers of the function; pointers into the input are current()+offset tagged with the
cursor epoch.  Obligations
  B1  every read of n bytes at current()+k has avail >= k+n,
  B2  every bump*(n) has avail >= n,
  B3  (narrow form) the result of size( a ) is never compared with a compile-time constant that makes a branch rely on
      more than a bytes (a buffered input only guarantees what was asked for).  The general form - every read lies within
      the requested amount - is not decidable without value reasoning: rep_one_min_max legitimately reads beyond
      size( Max + 1 ) when more happens to be buffered,
  B4  no read through a negative offset / stale pointer (taken before the cursor moved)."""
import collections
from .exec import *
from .mon_base import *

MEMFUNCS = ('memcmp', 'memcpy', 'memmove', 'memchr', 'strncmp')     # strncmp reads at most n characters of each array (fewer when it meets a null character: the bound asked for is the worst case)
INPUT_CLASSES = ('tao::pegtl::internal::memory_input_base', 'tao::pegtl::memory_input')


def lin(v):
    """value -> (sym id or 0, const) or None"""
    if isinstance(v, bool): return (0, int(v))
    if isinstance(v, int): return (0, v)
    if isinstance(v, Sym): return (v.id, 0)
    return None


class BoundsMonitor(BaseMonitor):
    def main(self, ex, ob, st):
        return isinstance(ob, Obj) and isinstance(st.heap.get(ob.addr), dict) and st.heap[ob.addr].get('__main')

    # ---- obligations ------------------------------------------------------------------------
    def need(self, ex, st, off, n, what, loc):
        """avail >= off + n  and  requested >= off + n"""
        a = lin(off); b = lin(n)
        ok = False; okreq = False
        if a is not None and b is not None and not (a[0] and b[0]):
            sym = a[0] or b[0]; c = a[1] + b[1]
            if a[1] < 0 and not a[0]:
                st.viol.append(('B4', '%s reads through a negative offset' % what, loc)); return
            ok = st.entails(sym, st.av, -c)          # sym + c <= AV
        if not ok:
            st.viol.append(('B1' if 'read' in what or 'mem' in what else 'B2', '%s needs %s byte(s) available at the cursor, which is not established on this path' % (what, show(off, n)), loc))

    # ---- cursor movement ---------------------------------------------------------------------
    def advance(self, ex, st, n):
        old = st.av
        new = st.sym(0, None).id
        if isinstance(n, bool): n = int(n)
        if isinstance(n, int):
            st.zadd(new, old, -n); st.zadd(old, new, n)
            st.req = []
        elif isinstance(n, Sym):
            d = st.closure(); v = d.get((n.id, old))
            if v is not None: st.facts[new][0] = max(0, -v)
            st.zadd(new, old, 0)
            # new = old - n
            st.req = []
        else:
            st.req = []
        st.av = new; st.epoch += 1

    def unknown_move(self, st):
        st.av = st.sym(0, None).id; st.epoch += 1; st.req = []

    def after_oracle(self, ex, st, inp, what):
        if st.heap[inp.addr].get('__main'): self.unknown_move(st)

    def on_write(self, ex, st, fr, loc, v):
        if loc[0] == 'field' and loc[2] in ('m_current', 'm_end') and isinstance(st.heap.get(loc[1]), dict) and st.heap[loc[1]].get('__main'):
            self.unknown_move(st)

    def on_catch(self, ex, st, fr, h):
        BaseMonitor.on_catch(self, ex, st, fr, h)
        self.unknown_move(st)

    # ---- calls ------------------------------------------------------------------------------------
    def call(self, ex, e, cu, cq, cn, ob, objloc, av, st, fr):
        cc = e.get('cc') or {}
        cls = cc.get('tn') or cc.get('q') or ''
        if self.main(ex, ob, st) and 'input' in cls and 'action_input' not in cls:
            # the abstract input interface that rules program against (the same for memory and buffer inputs)
            if cn == 'current':
                def g(): yield CPtr(0, st.epoch), st
                return g()
            if cn == 'end':
                def g(): yield ENDP, st
                return g()
            if cn == 'begin':
                def g(): yield Unknown('begin'), st
                return g()
            if cn == 'size':
                # the result is a fresh symbol equal to avail, remembered together with the amount that was requested (B3)
                a = lin(ex.argval(av[0], st)) if av else None
                r = st.sym(0, None); st.zadd(r.id, st.av, 0); st.zadd(st.av, r.id, 0)
                st.req = [q for q in st.req if q[2] == st.epoch] + [(r.id, a, st.epoch, e.get('loc'))]
                def g(): yield r, st
                return g()
            if cn == 'empty':
                def g():
                    for b, s2 in self.cmp_end(ex, st, CPtr(0, st.epoch), '=='): yield b, s2
                return g()
            if cn in ('peek_char', 'peek_uint8'):
                k = ex.argval(av[0], st) if av else 0
                self.need(ex, st, k, 1, 'read of 1 byte at current()+%s (%s)' % (show1(k), cn), e.get('loc'))
                def g(): yield Unknown('byte'), st
                return g()
            if cn in ('bump', 'bump_in_this_line', 'bump_to_next_line'):
                n = ex.argval(av[0], st) if av else 1
                self.need(ex, st, 0, n, '%s( %s )' % (cn, show1(n)), e.get('loc'))
                self.advance(ex, st, n)
                o = st.heap[ob.addr]
                if o['m_current'].pos == 'D':
                    st.viol.append(('R3', 'advance while the cursor is DIRTY', e.get('loc')))
                o['m_current'] = Cur(self.adv(o['m_current'].pos, self.amount(st, n)))
                def g(): yield None, st
                return g()
            if cn in ('discard', 'restart', 'private_set_end'):
                self.unknown_move(st)
                def g(): yield None, st
                return g()
            if cn == 'require':
                def g(): yield None, st
                return g()
        if cq in BUMPS:
            n = ex.argval(av[1], st)
            loc = av[0][1] if av[0][0] == 'loc' else None
            ismain = loc is not None and loc[0] == 'field' and isinstance(st.heap.get(loc[1]), dict) and st.heap[loc[1]].get('__main')
            if ismain:
                self.need(ex, st, 0, n, cq.split('::')[-1] + '( %s )' % show1(n), e.get('loc'))
                self.advance(ex, st, n)
        return BaseMonitor.call(self, ex, e, cu, cq, cn, ob, objloc, av, st, fr)

    def request(self, ex, st, av):
        pass

    def on_compare(self, ex, st, e, op, l, r):
        """B3 (narrow, value-free form): the result of in.size( a ) is compared with a compile-time constant c such that
        one branch relies on more than a bytes: a buffered input only guarantees what was asked for"""
        for x, other, node, o in ((l, r, e.get('r') or {}, op), (r, l, e.get('l') or {}, {'<': '>', '>': '<', '<=': '>=', '>=': '<='}.get(op, op))):
            if not isinstance(x, Sym) or 'v' not in node: continue
            if isinstance(other, bool): other = int(other)
            if not isinstance(other, int): continue
            for (sid, a, ep, loc) in st.req:
                if sid != x.id or a is None: continue
                need = other + 1 if o in ('>', '<=') else other      # x > c / !(x <= c) relies on c+1 bytes; x >= c, !(x < c), x == c on c
                if a[0] == 0 and need > a[1]:
                    st.viol.append(('B3', 'the result of size( %d ) is compared with %d: one branch relies on %d bytes although only %d were requested (a buffered input may legitimately answer less than a memory input)' % (a[1], other, need, a[1]), e.get('loc')))

    def avail_minus(self, ex, st, ptr):
        if ptr.epoch != st.epoch: return Unknown('stale')
        a = Sym(st.av)
        if ptr.off == 0: return a
        if isinstance(ptr.off, int): return ex.arith('-', a, ptr.off, st)
        return Unknown('av-sym')

    def cmp_end(self, ex, st, ptr, op):
        if ptr.epoch != st.epoch or ptr.off != 0:
            s2 = st.copy(); yield True, st; yield False, s2; return
        av = st.av
        outs = []
        if st.feasible([(av, 0, 0)]): outs.append((op == '==', [(av, 0, 0)]))
        if st.feasible([(0, av, -1)]): outs.append((op != '==', [(0, av, -1)]))
        for i, (res, exx) in enumerate(outs):
            s2 = st if i == len(outs) - 1 else st.copy()
            for (x, y, c) in exx: s2.zadd(x, y, c)
            yield res, s2

    def on_read(self, ex, st, fr, e, b, i):
        if isinstance(b, CPtr):
            if b.epoch != st.epoch:
                st.viol.append(('B4', 'read through a pointer taken before the cursor last moved', e.get('loc'))); return
            off = ex.arith('+', b.off, i, st) if not (isinstance(i, int) and not isinstance(i, bool) and i == 0) else b.off
            self.need(ex, st, off, 1, 'read of 1 byte at current()+%s' % show1(off), e.get('loc'))

    def on_external(self, ex, e, cq, ob, vals, st, fr):
        name = cq.split('::')[-1]
        if name in MEMFUNCS and len(vals) == 3:
            for v in vals[:2]:
                if isinstance(v, CPtr):
                    if v.epoch != st.epoch: st.viol.append(('B4', 'stale pointer passed to ' + name, e.get('loc')))
                    else: self.need(ex, st, v.off, vals[2], '%s of %s byte(s) at current()+%s' % (name, show1(vals[2]), show1(v.off)), e.get('loc'))
            return
        # a pointer into the input handed to code we do not see
        for v in vals:
            if isinstance(v, CPtr) and not cq.startswith('std::'):
                raise Unmodelled('pointer into the input passed to external %s (%s)' % (cq, e.get('loc')))
        BaseMonitor.on_external(self, ex, e, cq, ob, vals, st, fr)


def show1(v):
    if isinstance(v, Sym): return 'n%d' % v.id
    return str(v)


def show(off, n):
    if isinstance(off, int) and isinstance(n, int): return str(off + n)
    if off == 0: return show1(n)
    return '%s+%s' % (show1(off), show1(n))


ASSUME_MARKER = ('tao::pegtl::internal::at_raw_string_close', 'tao::pegtl::internal::raw_string_until')
GUARANTEE_MARKER = ('tao::pegtl::internal::raw_string_open',)


def analyse(db, fn, never_false=frozenset(), linked=None, maxsteps=400000):
    mon = BoundsMonitor(db, never_false, linked); ex = Exec(db, mon); ex.wrap_aware = True; ex.maxsteps = maxsteps
    st = State()
    st.av = st.sym(0, None).id
    inp = new_input(st)
    f = Frame(fn); ex.frames.append(f)
    bind_params(ex, fn, f, st, inp)
    cls = (fn.get('cls') or {}).get('tn') or ''
    marker_cell = None
    for p in fn['params']:
        v = EnvView(st, f.fid).get(p['id'])
        if isinstance(v, tuple) and v and v[0] == 'refto' and v[1][0] == 'cell' and 'unsigned long' in p['t']:
            if cls in ASSUME_MARKER:
                st.facts[st.heap[v[1][1]][1].id][0] = 2     # assume/guarantee pair with raw_string_open
            if cls in GUARANTEE_MARKER: marker_cell = v[1][1]
    reports = []; n = 0
    for comp in ex.run_fn(fn, f, st):
        n += 1
        s = comp[-1]
        for v in s.viol:
            if v[0].startswith('B'): reports.append((v[0], v[1], v[2], tuple(s.trace)))
        if marker_cell is not None and comp[0] == 'return' and comp[1] is not False:
            mv = s.heap[marker_cell][1]
            ok = isinstance(mv, int) and mv >= 2
            if isinstance(mv, Sym):
                d = s.closure(); lo = d.get((0, mv.id)); ok = lo is not None and -lo >= 2
            if not ok:
                reports.append(('B5', 'raw_string_open returns true without guaranteeing marker_size >= 2 (assumed by at_raw_string_close)', fn['loc'], tuple(s.trace)))
    return reports, n, ex.steps
