#!/bin/sh
# Build the extractor (libTooling, clang 14). Offline; uses only what is installed.
set -e
cd "$(dirname "$0")"
mkdir -p build evidence replays
if [ ! -x build/cfgx ] || [ tools/cfgx/cfgx.cc -nt build/cfgx ]; then
  clang++ $(llvm-config-14 --cxxflags) -fno-rtti -O1 tools/cfgx/cfgx.cc -o build/cfgx.tmp \
     /usr/lib/llvm-14/lib/libclang-cpp.so.14 /usr/lib/llvm-14/lib/libLLVM-14.so
  mv build/cfgx.tmp build/cfgx
fi
echo "setup ok"
