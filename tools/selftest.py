#!/usr/bin/env python3
"""Both-ways self test of the checkers on the committed change sets.

  tests/mutants/cNN_<x>.diff   hand-written single edits: the check of property CNN must report each (exit 1) - except the ones
                               listed in EQUIVALENT below, which preserve behaviour and must NOT be reported
  seeded/cNN_k/patch.diff      changes produced by independent sub-agents: at least one claimed check must report each

Every patch is applied to a scratch worktree of /repo (never to /repo itself); the checks are pointed at it through VERIF_REPO and
write their evidence to the scratch directory.  Usage: tools/selftest.py [mutants|seeds|all] [name...]"""
import json, os, subprocess, sys
BASE = os.path.dirname(os.path.dirname(os.path.abspath(__file__)))
os.chdir(BASE)
EQUIVALENT = {'c08_a': 'coverage failure(): the pop moved after the own counter but still before the branch counter: same counters, same stack',
              'c19_b': 'until< at< eol > > instead of eolf: under rewind_mode::optional the failing until leaves the cursor at the end, same result'}
WT = '/tmp/selftest_wt'
what = sys.argv[1] if len(sys.argv) > 1 else 'mutants'
names = sys.argv[2:]
if not os.path.isdir(WT):
    subprocess.run(['git', '-C', '/repo', 'worktree', 'add', '-q', '--detach', WT, 'HEAD'], check=True)
head = subprocess.run(['git', '-C', '/repo', 'rev-parse', 'HEAD'], capture_output=True, text=True).stdout.strip()
subprocess.run(['git', '-C', WT, 'checkout', '-q', '--detach', head]); subprocess.run(['git', '-C', WT, 'checkout', '--', '.'])
env = dict(os.environ, VERIF_REPO=WT)
bad = 0


def run(patch, props):
    r = subprocess.run(['git', '-C', WT, 'apply', os.path.abspath(patch)], capture_output=True, text=True)
    if r.returncode != 0: return None
    try:
        out = {}
        for p in props:
            rr = subprocess.run('./check %s --tier quick' % p, shell=True, capture_output=True, text=True, env=env)
            first = [l for l in rr.stdout.splitlines() if l.startswith(p + ' [')]
            out[p] = (rr.returncode, first[0][:200] if first else '')
        return out
    finally:
        subprocess.run(['git', '-C', WT, 'checkout', '--', '.'])


if what in ('mutants', 'all'):
    for f in sorted(os.listdir('tests/mutants')):
        n = f[:-5]
        if names and n not in names: continue
        prop = 'C' + n[1:3]
        res = run('tests/mutants/' + f, [prop])
        if res is None:
            print(n, 'PATCH DOES NOT APPLY'); bad += 1; continue
        code, first = res[prop]
        want = 0 if n in EQUIVALENT else 1
        ok = code == want
        bad += not ok
        print('%-8s %s exit=%d %s %s' % (n, prop, code, 'ok' if ok else 'UNEXPECTED (wanted %d)' % want, first[:150]), flush=True)
BENIGN = {      # behaviour-preserving refactorings: the checks most exposed to each must stay silent (exit 0); 'benign-all' runs every check
    'b01_bump_pointer_loop': ['C06', 'C03'], 'b02_utf8_equivalent_tests': ['C10', 'C14', 'C06'], 'b03_coverage_local_refs': ['C08'], 'b04_fold_one_swapped_branches': ['C12'],
    'b05_utf8_append_two_pushes': ['C17'], 'b06_forwarder_with_assert': ['C06', 'C03'], 'b07_raw_close_loop_reindexed': ['C16', 'C03', 'C02'], 'b08_begin_of_line_rearranged': ['C19'],
    'b11_parse_tree_parse_local_bool': ['C12'], 'b12_match_early_return': ['C08', 'C04', 'C01', 'C02'], 'b13_unescape_j_extra_local': ['C17'], 'b14_rep_countdown_loop': ['C09', 'C02', 'C11', 'C04'],
    'b15_limit_depth_renamed_guard': ['C18', 'C13'], 'b16_seq_explicit_if': ['C01', 'C02', 'C04', 'C13'],
    'b17_normal_raise_message_local': ['C05'], 'b18_must_early_return': ['C05', 'C01', 'C02', 'C09'], 'b19_limit_bytes_explicit_min': ['C18', 'C03'],
    'b20_ptree_handler_forwarding_match': ['C12', 'C08'], 'b21_stream_to_string_static_constant': ['C05'], 'b22_memory_input_ctor_delegates': ['C06', 'C19', 'C03'],
    'b23_ptree_unselected_handler_forwards_all': ['C12', 'C08'], 'b24_unescape_j_hoisted_end': ['C17'], 'b25_coverage_unwind_with_find': ['C08'], 'b26_string_compare_string_view': ['C09', 'C06', 'C03', 'C10'],
    'b27_require_rearranged_overflow_test': ['C07', 'C03'], 'b28_node_has_content_boolean': ['C12'], 'b29_parse_error_accessors_substr': ['C05'], 'b30_seq_single_alias': ['C01', 'C13', 'C04', 'C02'],
    'b31_restart_through_local_copy': ['C06', 'C19'], 'b32_discard_local_base': ['C06', 'C07'],
    'b09_string_early_returns': ['C09', 'C06', 'C03', 'C02'], 'b10_eol_reordered_conjuncts': ['C06', 'C09', 'C07', 'C03'],
}
if what in ('benign', 'benign-all', 'all'):
    allp = [c['property_id'] for c in json.load(open('MANIFEST.json'))['checks']]
    for f in sorted(os.listdir('tests/benign')):
        n = f[:-5]
        if names and n not in names: continue
        res = run('tests/benign/' + f, allp if what == 'benign-all' else BENIGN.get(n, allp))
        if res is None:
            print(n, 'PATCH DOES NOT APPLY'); bad += 1; continue
        for p, (code, first) in res.items():
            ok = code == 0
            bad += not ok
            print('%-32s %s exit=%d %s %s' % (n, p, code, 'ok' if ok else 'FALSE ALARM' if code == 1 else 'ANALYSIS BROKEN', first[:170]), flush=True)
if what in ('seeds', 'all'):
    props = [c['property_id'] for c in json.load(open('MANIFEST.json'))['checks']]
    for d in sorted(os.listdir('seeded')):
        if not os.path.exists('seeded/%s/patch.diff' % d) or (names and d not in names): continue
        own = 'C' + d[1:3]
        res = run('seeded/%s/patch.diff' % d, [own])
        if res is None:
            print(d, 'PATCH DOES NOT APPLY'); bad += 1; continue
        code, first = res[own]
        if code != 1:
            res = run('seeded/%s/patch.diff' % d, [p for p in props if p != own]) or {}
            det = [p for p, (c, _) in res.items() if c == 1]
            ok = bool(det); first = 'own check silent; reported by %s' % det
        else: ok = True
        bad += not ok
        print('%-8s %s exit=%d %s %s' % (d, own, code, 'ok' if ok else 'NOT DETECTED', first[:150]), flush=True)
subprocess.run(['git', '-C', '/repo', 'worktree', 'remove', '--force', WT])
print('selftest: %d problem(s)' % bad)
sys.exit(1 if bad else 0)
