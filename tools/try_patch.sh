#!/bin/sh
# usage: tools/try_patch.sh <patch.diff> <Cxx>...   : applies the patch to /repo, runs the quick checks, reverts.
p="$1"; shift
cd /verif
git -C /repo apply "$p" || { echo "patch does not apply"; exit 3; }
for c in "$@"; do
  VERIF_SCRATCH=1 ./check "$c" --tier quick > /tmp/try_patch.$$.out 2>&1; rc=$?
  echo "== $c exit=$rc  violations=$(grep -c '^VIOLATION' /tmp/try_patch.$$.out) broken=$(grep -c '^ANALYSIS-BROKEN' /tmp/try_patch.$$.out)"
  grep -v '^VIOLATION\|^KNOWN-FINDING' /tmp/try_patch.$$.out | grep "^$c \[" | head -${TRY_LINES:-4}
  grep '^ANALYSIS-BROKEN' /tmp/try_patch.$$.out | head -3
done
rm -f /tmp/try_patch.$$.out
git -C /repo checkout -- . 
git -C /repo status --short | grep -v _build
