#!/bin/sh
# For every "fix:" commit in /repo: revert it in the working tree (reverse patch), run the checks of the properties the defect
# belongs to, restore.  A fixed defect must be reported again (exit 1) when its repair is removed.
cd /verif
python3 - <<'PY'
import json, subprocess, os
d = json.load(open('/verif/known_findings.json'))
for f in d['findings']:
    if f.get('status') != 'fixed': continue
    c = f['commit']
    diff = subprocess.run(['git', '-C', '/repo', 'diff', c, c + '~1'], capture_output=True, text=True).stdout
    open('/tmp/fixrev.diff', 'w').write(diff)
    r = subprocess.run(['git', '-C', '/repo', 'apply', '/tmp/fixrev.diff'], capture_output=True, text=True)
    if r.returncode != 0:
        print(f['id'], c, 'reverse patch does not apply:', r.stderr[:120]); continue
    try:
        res = []
        for p in f['properties']:
            out = subprocess.run('VERIF_SCRATCH=1 ./check %s --tier quick' % p, shell=True, capture_output=True, text=True)
            first = [l for l in out.stdout.splitlines() if l.startswith(p + ' [')]
            res.append('%s exit=%d %s' % (p, out.returncode, (first[0][:160] if first else '')))
        print(f['id'], c, ' | '.join(res))
    finally:
        subprocess.run(['git', '-C', '/repo', 'reset', '-q'])
        subprocess.run(['git', '-C', '/repo', 'checkout', '--', '.'])
os.remove('/tmp/fixrev.diff')
PY
git -C /repo status --short | grep -v _build
