#!/bin/sh
# usage: tools/verify_seed.sh <seed dir with patch.diff + demo.cc> [worktree]
# Confirms: patch applies to the pristine tree; the whole suite builds and passes with it; the demo exits 0
# without the change and non-zero with it.  Uses a scratch worktree outside /repo and /verif.
d="$1"; wt="${2:-/tmp/vs_wt}"
if [ ! -d "$wt" ]; then git -C /repo worktree add -q "$wt" HEAD || exit 3; fi
git -C "$wt" checkout -q --detach "$(git -C /repo rev-parse HEAD)" 2>/dev/null; git -C "$wt" checkout -- . 
git -C "$wt" apply "$d/patch.diff" || { echo "RESULT $d: patch does not apply"; exit 3; }
[ -d "$wt/_build" ] || cmake -G Ninja -S "$wt" -B "$wt/_build" -DCMAKE_BUILD_TYPE=RelWithDebInfo >/dev/null
if cmake --build "$wt/_build" -j16 >"$wt/_build/build.log" 2>&1; then b=ok; else b=FAIL; fi
t=$(ctest --test-dir "$wt/_build" -j16 2>&1 | grep "tests passed" )
g++ -std=c++17 -I"$wt/include" "$d/demo.cc" -o "$wt/_build/demo_mut" 2>/dev/null && ( cd "$wt/_build" && timeout 60 ./demo_mut >/dev/null 2>&1 ); rm=$?
g++ -std=c++17 -I/repo/include "$d/demo.cc" -o "$wt/_build/demo_ok" 2>/dev/null && ( cd "$wt/_build" && timeout 60 ./demo_ok >/dev/null 2>&1 ); ro=$?
git -C "$wt" checkout -- .
echo "RESULT $d: build=$b tests='$t' demo_with_change_exit=$rm demo_without_exit=$ro"
