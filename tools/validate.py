#!/usr/bin/env python3-vt
import json, sys, glob, jsonschema
m = json.load(open('/verif/MANIFEST.json')); jsonschema.validate(m, json.load(open('/root/.vp/MANIFEST.schema.json')))
es = json.load(open('/root/.vp/EVIDENCE.schema.json'))
claimed = {c['property_id'] for c in m['checks']}; na = {c['property_id'] for c in m.get('not_applicable', [])}
props = {json.loads(l)['id'] for l in open('/verif/properties.jsonl')}
assert claimed | na == props and not (claimed & na), (claimed, na)
for c in m['checks']:
    e = json.load(open('/verif/' + c['evidence_file'])); jsonschema.validate(e, es)
    assert e['property_id'] == c['property_id'] and e['level'] == c['level_claimed']['category']
print('MANIFEST and %d evidence files valid' % len(m['checks']))
