#!/usr/bin/env python3
"""For every seeded change under /verif/seeded/<id>/: apply it to /repo, run every claimed quick check, revert.
Writes seeded/MATRIX.json and the 'detected_by' field of each meta.json.  Usage: tools/seed_matrix.py [seed ids...]"""
import json, os, subprocess, sys
BASE = os.path.dirname(os.path.dirname(os.path.abspath(__file__)))      # works from a snapshot copy of /verif as well
os.chdir(BASE)
m = json.load(open('MANIFEST.json'))
checks = [(c['property_id'], c['quick_cmd']) for c in m['checks']]
args = [a for a in sys.argv[1:] if not a.startswith('--')]
only = [a[len('--checks='):].split(',') for a in sys.argv[1:] if a.startswith('--checks=')]
if only: checks = [c for c in checks if c[0] in only[0]]
seeds = args or sorted(d for d in os.listdir('seeded') if os.path.exists('seeded/%s/patch.diff' % d))
mpath = 'seeded/MATRIX.json'
matrix = json.load(open(mpath)) if os.path.exists(mpath) else {}
# a scratch worktree of /repo's HEAD outside /repo and /verif (so that /repo itself stays untouched while this runs);
# the checks are pointed at it through VERIF_REPO.  tools/try_patch.sh does the same against /repo itself.
WT = '/tmp/sm_wt'
if not os.path.isdir(WT):
    subprocess.run(['git', '-C', '/repo', 'worktree', 'add', '-q', '--detach', WT, 'HEAD'], check=True)
subprocess.run(['git', '-C', WT, 'checkout', '-q', '--detach', subprocess.run(['git', '-C', '/repo', 'rev-parse', 'HEAD'], capture_output=True, text=True).stdout.strip()])
subprocess.run(['git', '-C', WT, 'checkout', '--', '.'])
env = dict(os.environ, VERIF_REPO=WT)
for sid in seeds:
    d = 'seeded/' + sid
    r = subprocess.run(['git', '-C', WT, 'apply', os.path.abspath(d + '/patch.diff')], capture_output=True, text=True)
    if r.returncode != 0:
        print(sid, 'patch does not apply:', r.stderr[:200]); continue
    row = {}
    try:
        for pid, cmd in checks:
            r = subprocess.run(cmd, shell=True, capture_output=True, text=True, env=env)
            sys.stdout.flush()
            lines = [l for l in r.stdout.splitlines() if l.startswith(pid + ' [')]
            row[pid] = {'exit': r.returncode, 'first': lines[0][:300] if lines else ([l for l in r.stdout.splitlines() if 'ANALYSIS-BROKEN' in l] or [''])[0][:300]}
    finally:
        subprocess.run(['git', '-C', WT, 'checkout', '--', '.'])
    matrix.setdefault(sid, {}).update(row); row = matrix[sid]
    det = [p for p, v in row.items() if v['exit'] == 1]
    meta = json.load(open(d + '/meta.json'))
    meta['detected_by'] = {p: row[p]['first'] for p in det} or 'NOT DETECTED by any claimed check at the time of the last matrix run'
    meta['broken_under'] = [p for p, v in row.items() if v['exit'] == 2]
    json.dump(meta, open(d + '/meta.json', 'w'), indent=1)
    print(sid, 'detected by', det, 'broken', meta['broken_under'], flush=True)
    json.dump(matrix, open(mpath, 'w'), indent=1)
print('done')
