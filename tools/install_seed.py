#!/usr/bin/env python3
"""usage: tools/install_seed.py <seed dir> <seed id> <property> <verify RESULT line> <detected-by summary>
copies patch.diff, demo.cc, notes.txt into /verif/seeded/<id>/ and writes meta.json"""
import json, os, shutil, sys
src, sid, prop, verify, detected = sys.argv[1:6]
dst = os.path.join('/verif/seeded', sid)
os.makedirs(dst, exist_ok=True)
for f in ('patch.diff', 'demo.cc', 'notes.txt'):
    if os.path.exists(os.path.join(src, f)): shutil.copy(os.path.join(src, f), os.path.join(dst, f))
notes = open(os.path.join(src, 'notes.txt')).read() if os.path.exists(os.path.join(src, 'notes.txt')) else ''
meta = {
    'id': sid, 'property': prop, 'origin': 'independent sub-agent given only the property text and a scratch worktree',
    'needs_to_manifest': notes[:1500],
    'verified_by_me': verify,
    'what_i_ran': 'tools/verify_seed.sh (scratch worktree /tmp/vs_wt: git apply, full build, ctest 134/134, demo with and without the change); tools/try_patch.sh patch.diff <checks> against /repo, reverted afterwards',
    'detected_by': detected,
}
json.dump(meta, open(os.path.join(dst, 'meta.json'), 'w'), indent=1)
print('installed', dst)
