// cfgx prototype: dump instantiated function bodies of PEGTL as structured JSON ASTs.
#include "clang/AST/ASTConsumer.h"
#include "clang/AST/ASTContext.h"
#include "clang/AST/DeclTemplate.h"
#include "clang/AST/ExprCXX.h"
#include "clang/AST/RecursiveASTVisitor.h"
#include "clang/AST/StmtCXX.h"
#include "clang/Basic/SourceManager.h"
#include "clang/Frontend/CompilerInstance.h"
#include "clang/Frontend/FrontendAction.h"
#include "clang/Index/USRGeneration.h"
#include "clang/Tooling/CommonOptionsParser.h"
#include "clang/Tooling/Tooling.h"
#include "llvm/Support/CommandLine.h"
#include "llvm/Support/JSON.h"
#include "llvm/Support/raw_ostream.h"
#include <functional>
#include <map>
#include <set>

using namespace clang;
namespace json = llvm::json;

static llvm::cl::OptionCategory Cat( "cfgx" );
static llvm::cl::opt< std::string > OutFile( "o", llvm::cl::desc( "output json" ), llvm::cl::cat( Cat ), llvm::cl::init( "-" ) );
static llvm::cl::list< std::string > Roots( "root", llvm::cl::desc( "directory prefix whose functions are dumped" ), llvm::cl::cat( Cat ) );

struct Dumper
{
   ASTContext& C;
   SourceManager& SM;
   PrintingPolicy PP;
   std::map< const Decl*, int > declIds;
   int nextDecl = 1;

   explicit Dumper( ASTContext& c )
      : C( c ), SM( c.getSourceManager() ), PP( c.getPrintingPolicy() )
   {
      PP.SuppressTagKeyword = true;
      PP.Bool = true;
      PP.FullyQualifiedName = true;
      PP.PrintCanonicalTypes = true;
   }

   int did( const Decl* d )
   {
      d = d->getCanonicalDecl();
      auto it = declIds.find( d );
      if( it != declIds.end() )
         return it->second;
      return declIds[ d ] = nextDecl++;
   }

   std::string loc( SourceLocation l )
   {
      if( l.isInvalid() )
         return "";
      l = SM.getExpansionLoc( l );
      PresumedLoc p = SM.getPresumedLoc( l );
      if( p.isInvalid() )
         return "";
      return std::string( p.getFilename() ) + ":" + std::to_string( p.getLine() ) + ":" + std::to_string( p.getColumn() );
   }

   std::string file( SourceLocation l )
   {
      if( l.isInvalid() )
         return "";
      l = SM.getExpansionLoc( l );
      PresumedLoc p = SM.getPresumedLoc( l );
      return p.isInvalid() ? "" : std::string( p.getFilename() );
   }

   std::string ty( QualType t )
   {
      if( t.isNull() )
         return "";
      return t.getCanonicalType().getAsString( PP );
   }

   std::string usr( const Decl* d )
   {
      llvm::SmallString< 256 > buf;
      if( index::generateUSRForDecl( d, buf ) )
         return "";
      return std::string( buf.str() );
   }

   json::Value apint( const llvm::APSInt& v )
   {
      if( v.isSigned() ) {
         if( v.getMinSignedBits() <= 64 )
            return json::Value( (int64_t)v.getSExtValue() );
      }
      else if( v.getActiveBits() <= 63 )
         return json::Value( (int64_t)v.getZExtValue() );
      llvm::SmallString< 40 > s;
      v.toString( s, 10 );
      return json::Value( std::string( s.str() ) );
   }

   json::Value targ( const TemplateArgument& a, int depth = 0 )
   {
      json::Object o;
      switch( a.getKind() ) {
         case TemplateArgument::Type: {
            o[ "k" ] = "type";
            QualType t = a.getAsType().getCanonicalType();
            o[ "s" ] = ty( t );
            if( depth < 6 )
               if( const auto* rd = t->getAsCXXRecordDecl() ) {
                  if( depth == 0 )
                     recordFacts( rd );
                  o[ "q" ] = rd->getQualifiedNameAsString();
                  if( const auto* sp = dyn_cast< ClassTemplateSpecializationDecl >( rd ) ) {
                     o[ "tn" ] = sp->getSpecializedTemplate()->getQualifiedNameAsString();
                     json::Array arr;
                     for( const auto& x : sp->getTemplateArgs().asArray() )
                        arr.push_back( targ( x, depth + 1 ) );
                     o[ "a" ] = std::move( arr );
                  }
               }
            break;
         }
         case TemplateArgument::Integral:
            o[ "k" ] = "int";
            o[ "v" ] = apint( a.getAsIntegral() );
            o[ "t" ] = ty( a.getIntegralType() );
            break;
         case TemplateArgument::Template:
            o[ "k" ] = "tmpl";
            if( auto* td = a.getAsTemplate().getAsTemplateDecl() )
               o[ "s" ] = td->getQualifiedNameAsString();
            break;
         case TemplateArgument::Pack: {
            o[ "k" ] = "pack";
            json::Array arr;
            for( const auto& x : a.pack_elements() )
               arr.push_back( targ( x, depth ) );
            o[ "a" ] = std::move( arr );
            break;
         }
         case TemplateArgument::Declaration:
            o[ "k" ] = "decl";
            o[ "s" ] = a.getAsDecl()->getQualifiedNameAsString();
            break;
         case TemplateArgument::NullPtr:
            o[ "k" ] = "null";
            break;
         default: {
            o[ "k" ] = "other";
            std::string s;
            llvm::raw_string_ostream os( s );
            a.print( PP, os, true );
            o[ "s" ] = os.str();
         }
      }
      return json::Value( std::move( o ) );
   }

   json::Value targs( const TemplateArgumentList* l )
   {
      json::Array arr;
      if( l )
         for( const auto& x : l->asArray() )
            arr.push_back( targ( x ) );
      return json::Value( std::move( arr ) );
   }

   std::map< std::string, json::Value > records;

   void recordFacts( const CXXRecordDecl* rd )
   {
      if( !rd || !rd->hasDefinition() || rd->isDependentContext() || rd->isLambda() )
         return;
      rd = rd->getDefinition();
      std::string key = ty( C.getRecordType( rd ) );
      if( records.count( key ) )
         return;
      std::string q = rd->getQualifiedNameAsString();
      if( q.compare( 0, 5, "std::" ) == 0 || q.compare( 0, 2, "__" ) == 0 )
         return;
      records.emplace( key, nullptr );
      json::Object o;
      o[ "q" ] = q;
      o[ "loc" ] = loc( rd->getLocation() );
      if( const auto* sp = dyn_cast< ClassTemplateSpecializationDecl >( rd ) ) {
         o[ "tn" ] = sp->getSpecializedTemplate()->getQualifiedNameAsString();
         o[ "a" ] = targs( &sp->getTemplateArgs() );
      }
      json::Array bases;
      for( const auto& b : rd->bases() ) {
         bases.push_back( ty( b.getType() ) );
         recordFacts( b.getType()->getAsCXXRecordDecl() );
      }
      // grammar-as-data: the rule types named in the template arguments are recorded too (type graph)
      if( const auto* sp = dyn_cast< ClassTemplateSpecializationDecl >( rd ) ) {
         std::function< void( const TemplateArgument& ) > visit = [ & ]( const TemplateArgument& a ) {
            if( a.getKind() == TemplateArgument::Type ) {
               if( const auto* ard = a.getAsType()->getAsCXXRecordDecl() )
                  recordFacts( ard );
            }
            else if( a.getKind() == TemplateArgument::Pack ) {
               for( const auto& x : a.pack_elements() )
                  visit( x );
            }
         };
         for( const auto& a : sp->getTemplateArgs().asArray() )
            visit( a );
      }
      o[ "bases" ] = std::move( bases );
      json::Array fields;
      for( const auto* f : rd->fields() ) {
         json::Object fo;
         fo[ "n" ] = f->getNameAsString();
         fo[ "t" ] = ty( f->getType() );
         fields.push_back( std::move( fo ) );
      }
      o[ "fields" ] = std::move( fields );
      json::Array methods;
      json::Object consts;
      json::Object aliases;
      json::Array statics;
      for( const auto* d : rd->decls() ) {
         const FunctionDecl* fd = nullptr;
         if( const auto* m = dyn_cast< CXXMethodDecl >( d ) )
            fd = m;
         else if( const auto* ft = dyn_cast< FunctionTemplateDecl >( d ) )
            fd = ft->getTemplatedDecl();
         if( fd ) {
            if( fd->isImplicit() )
               continue;
            json::Object mo;
            mo[ "n" ] = fd->getDeclName().getAsString();
            if( fd->isDeleted() )
               mo[ "deleted" ] = true;
            if( fd->isDefaulted() )
               mo[ "defaulted" ] = true;
            if( const auto* m = dyn_cast< CXXMethodDecl >( fd ) )
               if( m->isStatic() )
                  mo[ "static" ] = true;
            if( fd->isNoReturn() )
               mo[ "noret" ] = true;
            mo[ "np" ] = (int64_t)fd->getNumParams();
            mo[ "body" ] = fd->doesThisDeclarationHaveABody();
            if( isa< CXXConstructorDecl >( fd ) ) {
               const auto* cd = cast< CXXConstructorDecl >( fd );
               if( cd->isCopyConstructor() )
                  mo[ "copyctor" ] = true;
               if( cd->isMoveConstructor() )
                  mo[ "movector" ] = true;
            }
            methods.push_back( std::move( mo ) );
         }
         else if( const auto* vd = dyn_cast< VarDecl >( d ) ) {
            if( vd->isStaticDataMember() )
               statics.push_back( vd->getNameAsString() );
            if( vd->isStaticDataMember() && vd->getType()->isIntegralOrEnumerationType() ) {
               const Expr* init = vd->getAnyInitializer();
               if( init && !init->isValueDependent() ) {
                  Expr::EvalResult r;
                  if( init->EvaluateAsRValue( r, C ) && r.Val.isInt() )
                     consts[ vd->getNameAsString() ] = apint( r.Val.getInt() );
               }
            }
         }
         else if( const auto* td = dyn_cast< TypedefNameDecl >( d ) ) {
            QualType ut = td->getUnderlyingType();
            if( !ut->isDependentType() )
               aliases[ td->getNameAsString() ] = targ( TemplateArgument( ut ), 0 );
         }
      }
      o[ "methods" ] = std::move( methods );
      o[ "consts" ] = std::move( consts );
      o[ "statics" ] = std::move( statics );
      o[ "aliases" ] = std::move( aliases );
      records.find( key )->second = json::Value( std::move( o ) );
   }

   json::Value classInfo( const DeclContext* dc )
   {
      // innermost enclosing record
      while( dc && !isa< CXXRecordDecl >( dc ) )
         dc = dc->getParent();
      if( !dc )
         return nullptr;
      const auto* rd = cast< CXXRecordDecl >( dc );
      recordFacts( rd );
      json::Object o;
      o[ "q" ] = rd->getQualifiedNameAsString();
      o[ "s" ] = ty( C.getRecordType( rd ) );
      if( const auto* sp = dyn_cast< ClassTemplateSpecializationDecl >( rd ) ) {
         o[ "tn" ] = sp->getSpecializedTemplate()->getQualifiedNameAsString();
         o[ "a" ] = targs( &sp->getTemplateArgs() );
      }
      if( rd->isLambda() )
         o[ "lambda" ] = true;
      json::Value outer = classInfo( rd->getParent() );
      if( outer.kind() != json::Value::Null )
         o[ "outer" ] = std::move( outer );
      return json::Value( std::move( o ) );
   }

   // ---------- expressions ----------
   void constval( const Expr* e, json::Object& o )
   {
      if( e->isValueDependent() || e->isTypeDependent() )
         return;
      QualType t = e->getType();
      if( t.isNull() )
         return;
      if( !( t->isIntegralOrEnumerationType() || t->isBooleanType() ) )
         return;
      if( e->isGLValue() ) {
         // only constant lvalues of const-qualified integral type can fold; try anyway
      }
      Expr::EvalResult r;
      if( e->EvaluateAsRValue( r, C ) && !r.HasSideEffects && r.Val.isInt() )
         o[ "v" ] = apint( r.Val.getInt() );
   }

   json::Value calleeInfo( const FunctionDecl* fd, json::Object& o )
   {
      o[ "cq" ] = fd->getQualifiedNameAsString();
      o[ "cu" ] = usr( fd );
      o[ "cn" ] = fd->getDeclName().getAsString();
      if( const auto* l = fd->getTemplateSpecializationArgs() )
         o[ "cta" ] = targs( l );
      json::Value ci = classInfo( fd->getDeclContext() );
      if( ci.kind() != json::Value::Null )
         o[ "cc" ] = std::move( ci );
      if( fd->isNoReturn() )
         o[ "noret" ] = true;
      if( const auto* pt = fd->getType()->getAs< FunctionProtoType >() )
         if( !isUnresolvedExceptionSpec( pt->getExceptionSpecType() ) && pt->isNothrow() )
            o[ "nothrow" ] = true;
      if( const auto* m = dyn_cast< CXXMethodDecl >( fd ) ) {
         if( m->isStatic() )
            o[ "static" ] = true;
         if( m->isConst() )
            o[ "constm" ] = true;
      }
      o[ "crt" ] = ty( fd->getReturnType() );
      json::Array pts;
      for( const auto* p : fd->parameters() )
         pts.push_back( ty( p->getType() ) );
      o[ "cpt" ] = std::move( pts );
      return nullptr;
   }

   json::Value ex( const Expr* e )
   {
      if( !e )
         return nullptr;
      // transparent wrappers
      if( const auto* x = dyn_cast< ParenExpr >( e ) )
         return ex( x->getSubExpr() );
      if( const auto* x = dyn_cast< ExprWithCleanups >( e ) )
         return ex( x->getSubExpr() );
      if( const auto* x = dyn_cast< MaterializeTemporaryExpr >( e ) )
         return ex( x->getSubExpr() );
      if( const auto* x = dyn_cast< CXXBindTemporaryExpr >( e ) )
         return ex( x->getSubExpr() );
      if( const auto* x = dyn_cast< ConstantExpr >( e ) )
         return ex( x->getSubExpr() );
      if( const auto* x = dyn_cast< SubstNonTypeTemplateParmExpr >( e ) )
         return ex( x->getReplacement() );
      if( const auto* x = dyn_cast< CXXDefaultArgExpr >( e ) )
         return ex( x->getExpr() );
      if( const auto* x = dyn_cast< CXXDefaultInitExpr >( e ) )
         return ex( x->getExpr() );
      if( const auto* x = dyn_cast< ImplicitCastExpr >( e ) ) {
         switch( x->getCastKind() ) {
            case CK_UserDefinedConversion:
            case CK_ConstructorConversion:
               return ex( x->getSubExpr() );
            case CK_LValueToRValue:
            case CK_NoOp:
            case CK_FunctionToPointerDecay:
            case CK_ArrayToPointerDecay:
            case CK_DerivedToBase:
            case CK_UncheckedDerivedToBase:
               return ex( x->getSubExpr() );
            default:
               break;
         }
      }

      json::Object o;
      o[ "t" ] = ty( e->getType() );
      o[ "loc" ] = loc( e->getBeginLoc() );
      constval( e, o );

      if( const auto* x = dyn_cast< CastExpr >( e ) ) {
         o[ "k" ] = "cast";
         o[ "ck" ] = x->getCastKindName();
         o[ "e" ] = ex( x->getSubExpr() );
      }
      else if( const auto* x = dyn_cast< IntegerLiteral >( e ) ) {
         o[ "k" ] = "lit";
         (void)x;
      }
      else if( isa< CXXBoolLiteralExpr >( e ) || isa< CharacterLiteral >( e ) ) {
         o[ "k" ] = "lit";
      }
      else if( const auto* x = dyn_cast< StringLiteral >( e ) ) {
         o[ "k" ] = "str";
         if( x->isAscii() )
            o[ "s" ] = x->getString().str();
      }
      else if( isa< CXXNullPtrLiteralExpr >( e ) ) {
         o[ "k" ] = "nullptr";
      }
      else if( isa< CXXThisExpr >( e ) ) {
         o[ "k" ] = "this";
      }
      else if( const auto* x = dyn_cast< DeclRefExpr >( e ) ) {
         const ValueDecl* d = x->getDecl();
         o[ "k" ] = "ref";
         o[ "n" ] = d->getNameAsString();
         o[ "d" ] = did( d );
         o[ "dk" ] = d->getDeclKindName();
         if( const auto* fd = dyn_cast< FunctionDecl >( d ) )
            calleeInfo( fd, o );
         if( const auto* vd = dyn_cast< VarDecl >( d ) ) {
            if( vd->isStaticDataMember() || vd->hasGlobalStorage() )
               o[ "q" ] = vd->getQualifiedNameAsString();
         }
      }
      else if( const auto* x = dyn_cast< MemberExpr >( e ) ) {
         o[ "k" ] = "member";
         o[ "n" ] = x->getMemberDecl()->getNameAsString();
         o[ "d" ] = did( x->getMemberDecl() );
         o[ "arrow" ] = x->isArrow();
         o[ "b" ] = ex( x->getBase() );
         if( const auto* fd = dyn_cast< FunctionDecl >( x->getMemberDecl() ) )
            calleeInfo( fd, o );
      }
      else if( const auto* x = dyn_cast< CXXOperatorCallExpr >( e ) ) {
         o[ "k" ] = "call";
         o[ "opc" ] = getOperatorSpelling( x->getOperator() );
         if( const auto* fd = x->getDirectCallee() )
            calleeInfo( fd, o );
         json::Array args;
         for( const auto* a : x->arguments() )
            args.push_back( ex( a ) );
         // for member operators, first argument is the object
         if( const auto* fd = x->getDirectCallee() )
            if( isa< CXXMethodDecl >( fd ) )
               o[ "objfirst" ] = true;
         o[ "args" ] = std::move( args );
      }
      else if( const auto* x = dyn_cast< CXXMemberCallExpr >( e ) ) {
         o[ "k" ] = "call";
         if( const auto* fd = x->getDirectCallee() )
            calleeInfo( fd, o );
         o[ "obj" ] = ex( x->getImplicitObjectArgument() );
         json::Array args;
         for( const auto* a : x->arguments() )
            args.push_back( ex( a ) );
         o[ "args" ] = std::move( args );
      }
      else if( const auto* x = dyn_cast< CallExpr >( e ) ) {
         o[ "k" ] = "call";
         if( const auto* fd = x->getDirectCallee() )
            calleeInfo( fd, o );
         else
            o[ "fn" ] = ex( x->getCallee() );
         json::Array args;
         for( const auto* a : x->arguments() )
            args.push_back( ex( a ) );
         o[ "args" ] = std::move( args );
      }
      else if( const auto* x = dyn_cast< CXXConstructExpr >( e ) ) {
         o[ "k" ] = "construct";
         const auto* cd = x->getConstructor();
         calleeInfo( cd, o );
         if( cd->isCopyOrMoveConstructor() )
            o[ "copy" ] = true;
         if( cd->isDefaulted() || cd->isImplicit() )
            o[ "trivialish" ] = true;
         json::Array args;
         for( const auto* a : x->arguments() )
            args.push_back( ex( a ) );
         o[ "args" ] = std::move( args );
         if( x->isElidable() )
            o[ "elidable" ] = true;
      }
      else if( const auto* x = dyn_cast< CXXTemporaryObjectExpr >( e ) ) {
         (void)x;  // subclass of CXXConstructExpr, handled above
      }
      else if( const auto* x = dyn_cast< CXXFunctionalCastExpr >( e ) ) {
         (void)x;  // CastExpr, handled above
      }
      else if( const auto* x = dyn_cast< UnaryOperator >( e ) ) {
         o[ "k" ] = "un";
         o[ "op" ] = UnaryOperator::getOpcodeStr( x->getOpcode() ).str();
         if( x->isPostfix() )
            o[ "post" ] = true;
         o[ "e" ] = ex( x->getSubExpr() );
      }
      else if( const auto* x = dyn_cast< BinaryOperator >( e ) ) {
         o[ "k" ] = "bin";
         o[ "op" ] = x->getOpcodeStr().str();
         o[ "l" ] = ex( x->getLHS() );
         o[ "r" ] = ex( x->getRHS() );
      }
      else if( const auto* x = dyn_cast< ConditionalOperator >( e ) ) {
         o[ "k" ] = "cond";
         o[ "c" ] = ex( x->getCond() );
         o[ "l" ] = ex( x->getTrueExpr() );
         o[ "r" ] = ex( x->getFalseExpr() );
      }
      else if( const auto* x = dyn_cast< ArraySubscriptExpr >( e ) ) {
         o[ "k" ] = "index";
         o[ "b" ] = ex( x->getBase() );
         o[ "i" ] = ex( x->getIdx() );
      }
      else if( const auto* x = dyn_cast< InitListExpr >( e ) ) {
         o[ "k" ] = "initlist";
         json::Array a;
         for( const auto* i : x->inits() )
            a.push_back( ex( i ) );
         o[ "args" ] = std::move( a );
      }
      else if( const auto* x = dyn_cast< CXXStdInitializerListExpr >( e ) ) {
         o[ "k" ] = "stdinitlist";
         o[ "e" ] = ex( x->getSubExpr() );
      }
      else if( const auto* x = dyn_cast< LambdaExpr >( e ) ) {
         o[ "k" ] = "lambda";
         o[ "cu" ] = usr( x->getCallOperator() );
         json::Array caps;
         for( const auto& c : x->captures() )
            if( c.capturesVariable() )
               caps.push_back( did( c.getCapturedVar() ) );
         o[ "caps" ] = std::move( caps );
         o[ "fn" ] = fn( x->getCallOperator() );
      }
      else if( const auto* x = dyn_cast< CXXThrowExpr >( e ) ) {
         o[ "k" ] = "throw";
         o[ "e" ] = ex( x->getSubExpr() );
         if( x->getSubExpr() )
            o[ "tt" ] = ty( x->getSubExpr()->getType() );
      }
      else if( isa< SizeOfPackExpr >( e ) || isa< UnaryExprOrTypeTraitExpr >( e ) || isa< TypeTraitExpr >( e ) || isa< CXXNoexceptExpr >( e ) ) {
         o[ "k" ] = "lit";
      }
      else if( const auto* x = dyn_cast< CXXNewExpr >( e ) ) {
         o[ "k" ] = "new";
         (void)x;
      }
      else if( const auto* x = dyn_cast< CXXDeleteExpr >( e ) ) {
         o[ "k" ] = "delete";
         (void)x;
      }
      else if( const auto* x = dyn_cast< CXXScalarValueInitExpr >( e ) ) {
         o[ "k" ] = "zero";
         (void)x;
      }
      else if( const auto* x = dyn_cast< ImplicitValueInitExpr >( e ) ) {
         o[ "k" ] = "zero";
         (void)x;
      }
      else if( const auto* x = dyn_cast< OpaqueValueExpr >( e ) ) {
         return ex( x->getSourceExpr() );
      }
      else {
         o[ "k" ] = "unknown";
         o[ "cls" ] = e->getStmtClassName();
      }
      return json::Value( std::move( o ) );
   }

   // ---------- statements ----------
   json::Value vardecl( const VarDecl* v )
   {
      json::Object d;
      d[ "id" ] = did( v );
      d[ "n" ] = v->getNameAsString();
      d[ "t" ] = ty( v->getType() );
      d[ "loc" ] = loc( v->getLocation() );
      if( v->isStaticLocal() )
         d[ "static" ] = true;
      if( v->getType().isConstQualified() )
         d[ "const" ] = true;
      if( const auto* rd = v->getType().getNonReferenceType()->getAsCXXRecordDecl() ) {
         d[ "rq" ] = rd->getQualifiedNameAsString();
         if( const auto* sp = dyn_cast< ClassTemplateSpecializationDecl >( rd ) ) {
            d[ "rtn" ] = sp->getSpecializedTemplate()->getQualifiedNameAsString();
            d[ "rta" ] = targs( &sp->getTemplateArgs() );
         }
         if( rd->hasDefinition() )
            if( const auto* dt = rd->getDestructor() ) {
               d[ "dtor" ] = usr( dt );
               if( !dt->isTrivial() && !dt->isDefaulted() )
                  d[ "dtor_user" ] = true;
            }
      }
      if( v->getType()->isReferenceType() )
         d[ "isref" ] = true;
      if( v->hasInit() )
         d[ "init" ] = ex( v->getInit() );
      return json::Value( std::move( d ) );
   }

   json::Value st( const Stmt* s )
   {
      if( !s )
         return nullptr;
      json::Object o;
      o[ "loc" ] = loc( s->getBeginLoc() );
      if( const auto* x = dyn_cast< CompoundStmt >( s ) ) {
         o[ "k" ] = "Compound";
         json::Array a;
         for( const auto* c : x->body() )
            a.push_back( st( c ) );
         o[ "s" ] = std::move( a );
      }
      else if( const auto* x = dyn_cast< IfStmt >( s ) ) {
         o[ "k" ] = "If";
         if( x->isConstexpr() )
            o[ "constexpr" ] = true;
         if( x->getInit() )
            o[ "init" ] = st( x->getInit() );
         if( x->getConditionVariable() )
            o[ "var" ] = vardecl( x->getConditionVariable() );
         o[ "cond" ] = ex( x->getCond() );
         o[ "then" ] = st( x->getThen() );
         if( x->getElse() )
            o[ "else" ] = st( x->getElse() );
      }
      else if( const auto* x = dyn_cast< WhileStmt >( s ) ) {
         o[ "k" ] = "While";
         if( x->getConditionVariable() )
            o[ "var" ] = vardecl( x->getConditionVariable() );
         o[ "cond" ] = ex( x->getCond() );
         o[ "body" ] = st( x->getBody() );
      }
      else if( const auto* x = dyn_cast< DoStmt >( s ) ) {
         o[ "k" ] = "Do";
         o[ "cond" ] = ex( x->getCond() );
         o[ "body" ] = st( x->getBody() );
      }
      else if( const auto* x = dyn_cast< ForStmt >( s ) ) {
         o[ "k" ] = "For";
         if( x->getInit() )
            o[ "init" ] = st( x->getInit() );
         if( x->getCond() )
            o[ "cond" ] = ex( x->getCond() );
         if( x->getInc() )
            o[ "inc" ] = ex( x->getInc() );
         o[ "body" ] = st( x->getBody() );
      }
      else if( const auto* x = dyn_cast< CXXForRangeStmt >( s ) ) {
         o[ "k" ] = "ForRange";
         o[ "var" ] = vardecl( x->getLoopVariable() );
         o[ "range" ] = ex( x->getRangeInit() );
         o[ "body" ] = st( x->getBody() );
      }
      else if( const auto* x = dyn_cast< ReturnStmt >( s ) ) {
         o[ "k" ] = "Return";
         if( x->getRetValue() )
            o[ "e" ] = ex( x->getRetValue() );
      }
      else if( const auto* x = dyn_cast< DeclStmt >( s ) ) {
         o[ "k" ] = "Decl";
         json::Array a;
         for( const auto* d : x->decls() )
            if( const auto* v = dyn_cast< VarDecl >( d ) )
               a.push_back( vardecl( v ) );
         o[ "decls" ] = std::move( a );
      }
      else if( isa< BreakStmt >( s ) ) {
         o[ "k" ] = "Break";
      }
      else if( isa< ContinueStmt >( s ) ) {
         o[ "k" ] = "Continue";
      }
      else if( isa< NullStmt >( s ) ) {
         o[ "k" ] = "Null";
      }
      else if( const auto* x = dyn_cast< SwitchStmt >( s ) ) {
         o[ "k" ] = "Switch";
         if( x->getInit() )
            o[ "init" ] = st( x->getInit() );
         if( x->getConditionVariable() )
            o[ "var" ] = vardecl( x->getConditionVariable() );
         o[ "cond" ] = ex( x->getCond() );
         o[ "body" ] = st( x->getBody() );
      }
      else if( const auto* x = dyn_cast< CaseStmt >( s ) ) {
         o[ "k" ] = "Case";
         o[ "v" ] = ex( x->getLHS() );
         o[ "sub" ] = st( x->getSubStmt() );
      }
      else if( const auto* x = dyn_cast< DefaultStmt >( s ) ) {
         o[ "k" ] = "Default";
         o[ "sub" ] = st( x->getSubStmt() );
      }
      else if( const auto* x = dyn_cast< CXXTryStmt >( s ) ) {
         o[ "k" ] = "Try";
         o[ "body" ] = st( x->getTryBlock() );
         json::Array hs;
         for( unsigned i = 0; i < x->getNumHandlers(); ++i ) {
            const auto* h = x->getHandler( i );
            json::Object ho;
            ho[ "loc" ] = loc( h->getBeginLoc() );
            if( h->getExceptionDecl() ) {
               ho[ "type" ] = ty( h->getCaughtType() );
               ho[ "var" ] = did( h->getExceptionDecl() );
            }
            else
               ho[ "type" ] = "...";
            ho[ "body" ] = st( h->getHandlerBlock() );
            hs.push_back( std::move( ho ) );
         }
         o[ "handlers" ] = std::move( hs );
      }
      else if( const auto* x = dyn_cast< AttributedStmt >( s ) ) {
         return st( x->getSubStmt() );
      }
      else if( const auto* x = dyn_cast< Expr >( s ) ) {
         o[ "k" ] = "Expr";
         o[ "e" ] = ex( x );
      }
      else {
         o[ "k" ] = "Unknown";
         o[ "cls" ] = s->getStmtClassName();
      }
      return json::Value( std::move( o ) );
   }

   json::Value fn( const FunctionDecl* f )
   {
      json::Object o;
      o[ "u" ] = usr( f );
      o[ "q" ] = f->getQualifiedNameAsString();
      o[ "n" ] = f->getDeclName().getAsString();
      {
         std::string s;
         llvm::raw_string_ostream os( s );
         f->getNameForDiagnostic( os, PP, true );
         o[ "disp" ] = os.str();
      }
      o[ "loc" ] = loc( f->getLocation() );
      const FunctionDecl* pat = f->getTemplateInstantiationPattern();
      o[ "pat" ] = loc( ( pat ? pat : f )->getLocation() );
      o[ "inst" ] = pat != nullptr;
      if( const auto* l = f->getTemplateSpecializationArgs() )
         o[ "ta" ] = targs( l );
      json::Value ci = classInfo( f->getDeclContext() );
      if( ci.kind() != json::Value::Null )
         o[ "cls" ] = std::move( ci );
      o[ "rt" ] = ty( f->getReturnType() );
      if( f->isNoReturn() )
         o[ "noret" ] = true;
      if( const auto* pt = f->getType()->getAs< FunctionProtoType >() )
         if( !isUnresolvedExceptionSpec( pt->getExceptionSpecType() ) && pt->isNothrow() )
            o[ "nothrow" ] = true;
      json::Array ps;
      for( const auto* p : f->parameters() ) {
         json::Object po;
         po[ "id" ] = did( p );
         po[ "n" ] = p->getNameAsString();
         po[ "t" ] = ty( p->getType() );
         ps.push_back( std::move( po ) );
      }
      o[ "params" ] = std::move( ps );
      if( const auto* m = dyn_cast< CXXMethodDecl >( f ) ) {
         o[ "static" ] = m->isStatic();
         if( isa< CXXConstructorDecl >( m ) ) {
            o[ "ctor" ] = true;
            json::Array inits;
            for( const auto* i : cast< CXXConstructorDecl >( m )->inits() ) {
               json::Object io;
               if( i->isAnyMemberInitializer() )
                  io[ "field" ] = i->getAnyMember()->getNameAsString();
               else if( i->isBaseInitializer() )
                  io[ "base" ] = ty( QualType( i->getBaseClass(), 0 ) );
               else if( i->isDelegatingInitializer() )
                  io[ "delegating" ] = true;
               io[ "e" ] = ex( i->getInit() );
               inits.push_back( std::move( io ) );
            }
            o[ "inits" ] = std::move( inits );
         }
         if( isa< CXXDestructorDecl >( m ) )
            o[ "dtor" ] = true;
      }
      o[ "body" ] = st( f->getBody() );
      return json::Value( std::move( o ) );
   }
};

struct Visitor : RecursiveASTVisitor< Visitor >
{
   Dumper& D;
   json::Array& out;
   std::set< std::string > seen;
   explicit Visitor( Dumper& d, json::Array& o )
      : D( d ), out( o )
   {}
   bool shouldVisitTemplateInstantiations() const
   {
      return true;
   }
   bool shouldVisitImplicitCode() const
   {
      return false;
   }
   bool wanted( const FunctionDecl* f )
   {
      std::string fl = D.file( f->getLocation() );
      if( Roots.empty() )
         return fl.find( "/tao/pegtl/" ) != std::string::npos;
      for( const auto& r : Roots )
         if( fl.compare( 0, r.size(), r ) == 0 )
            return true;
      return false;
   }
   bool VisitFunctionDecl( FunctionDecl* f )
   {
      if( !f->doesThisDeclarationHaveABody() )
         return true;
      if( f->isDependentContext() )
         return true;
      if( f->isDefaulted() )
         return true;
      if( !wanted( f ) ) {
         // vu::touch< T... >() in the universe names classes whose record facts are wanted
         if( f->getQualifiedNameAsString() == "vu::touch" )
            if( const auto* l = f->getTemplateSpecializationArgs() )
               (void)D.targs( l );
         return true;
      }
      std::string u = D.usr( f );
      if( !seen.insert( u ).second )
         return true;
      out.push_back( D.fn( f ) );
      return true;
   }
};

// Inventory: every function definition (template patterns included) under the roots, with the
// try/catch and throw sites of its body.  Used for coverage accounting (analysed vs present).
struct InvVisitor : RecursiveASTVisitor< InvVisitor >
{
   Dumper& D;
   json::Array& out;
   std::set< std::string > seen;
   const FunctionDecl* cur = nullptr;
   std::map< const FunctionDecl*, std::pair< json::Array, json::Array > > sites;
   InvVisitor( Dumper& d, json::Array& o )
      : D( d ), out( o )
   {}
   bool shouldVisitTemplateInstantiations() const
   {
      return false;
   }
   bool wanted( const FunctionDecl* f )
   {
      std::string fl = D.file( f->getLocation() );
      return fl.find( "/tao/pegtl/" ) != std::string::npos;
   }
   bool TraverseFunctionDecl( FunctionDecl* f )
   {
      const FunctionDecl* saved = cur;
      cur = f;
      bool r = RecursiveASTVisitor< InvVisitor >::TraverseFunctionDecl( f );
      cur = saved;
      return r;
   }
   bool TraverseCXXMethodDecl( CXXMethodDecl* f )
   {
      const FunctionDecl* saved = cur;
      cur = f;
      bool r = RecursiveASTVisitor< InvVisitor >::TraverseCXXMethodDecl( f );
      cur = saved;
      return r;
   }
   bool TraverseCXXConstructorDecl( CXXConstructorDecl* f )
   {
      const FunctionDecl* saved = cur;
      cur = f;
      bool r = RecursiveASTVisitor< InvVisitor >::TraverseCXXConstructorDecl( f );
      cur = saved;
      return r;
   }
   bool TraverseCXXDestructorDecl( CXXDestructorDecl* f )
   {
      const FunctionDecl* saved = cur;
      cur = f;
      bool r = RecursiveASTVisitor< InvVisitor >::TraverseCXXDestructorDecl( f );
      cur = saved;
      return r;
   }
   bool VisitCXXTryStmt( CXXTryStmt* s )
   {
      if( cur )
         sites[ cur ].first.push_back( D.loc( s->getBeginLoc() ) );
      return true;
   }
   bool VisitCXXThrowExpr( CXXThrowExpr* s )
   {
      if( cur )
         sites[ cur ].second.push_back( D.loc( s->getBeginLoc() ) );
      return true;
   }
   void finish( ASTContext& C )
   {
      for( auto& kv : pending ) {
         json::Object o = std::move( kv.second );
         auto it = sites.find( kv.first );
         if( it != sites.end() ) {
            o[ "try" ] = std::move( it->second.first );
            o[ "throw" ] = std::move( it->second.second );
         }
         out.push_back( std::move( o ) );
      }
   }
   std::vector< std::pair< const FunctionDecl*, json::Object > > pending;
   bool VisitFunctionDecl( FunctionDecl* f )
   {
      if( !f->doesThisDeclarationHaveABody() || f->isDefaulted() )
         return true;
      if( !wanted( f ) )
         return true;
      std::string l = D.loc( f->getLocation() );
      if( !seen.insert( l ).second )
         return true;
      json::Object o;
      o[ "n" ] = f->getDeclName().getAsString();
      o[ "q" ] = f->getQualifiedNameAsString();
      o[ "loc" ] = l;
      o[ "dep" ] = f->isDependentContext();
      json::Array ps;
      for( const auto* p : f->parameters() )
         ps.push_back( D.ty( p->getType() ) );
      o[ "pt" ] = std::move( ps );
      if( const auto* rd = dyn_cast< CXXRecordDecl >( f->getDeclContext() ) )
         o[ "cls" ] = rd->getQualifiedNameAsString();
      pending.emplace_back( f, std::move( o ) );
      return true;
   }
};

struct Consumer : ASTConsumer
{
   void HandleTranslationUnit( ASTContext& C ) override
   {
      if( C.getDiagnostics().hasErrorOccurred() ) {
         llvm::errs() << "cfgx: compile errors, no output\n";
         return;
      }
      Dumper D( C );
      json::Array fns;
      Visitor V( D, fns );
      V.TraverseDecl( C.getTranslationUnitDecl() );
      json::Array inv;
      InvVisitor IV( D, inv );
      IV.TraverseDecl( C.getTranslationUnitDecl() );
      IV.finish( C );
      json::Object root;
      root[ "functions" ] = std::move( fns );
      root[ "inventory" ] = std::move( inv );
      json::Object recs;
      for( auto& kv : D.records )
         recs[ kv.first ] = std::move( kv.second );
      root[ "records" ] = std::move( recs );
      std::error_code ec;
      if( OutFile == "-" ) {
         llvm::outs() << json::Value( std::move( root ) ) << "\n";
      }
      else {
         llvm::raw_fd_ostream os( OutFile, ec );
         os << json::Value( std::move( root ) ) << "\n";
      }
   }
};

struct Action : ASTFrontendAction
{
   std::unique_ptr< ASTConsumer > CreateASTConsumer( CompilerInstance& /*unused*/, StringRef /*unused*/ ) override
   {
      return std::make_unique< Consumer >();
   }
};

int main( int argc, const char** argv )
{
   auto P = tooling::CommonOptionsParser::create( argc, argv, Cat );
   if( !P ) {
      llvm::errs() << llvm::toString( P.takeError() );
      return 2;
   }
   tooling::ClangTool T( P->getCompilations(), P->getSourcePathList() );
   return T.run( tooling::newFrontendActionFactory< Action >().get() );
}
