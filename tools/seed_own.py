#!/usr/bin/env python3
"""For seeds that have no row in seeded/MATRIX.json yet: run the property's own check against a scratch worktree with the change applied, and every other
check only if the own one is silent; record the (partial) row and the detected_by field.  Usage: tools/seed_own.py [seed ids...]"""
import json, os, subprocess, sys
BASE = os.path.dirname(os.path.dirname(os.path.abspath(__file__)))
os.chdir(BASE)
m = json.load(open('seeded/MATRIX.json'))
props = [c['property_id'] for c in json.load(open('MANIFEST.json'))['checks']]
WT = '/tmp/so_wt'
if not os.path.isdir(WT): subprocess.run(['git', '-C', '/repo', 'worktree', 'add', '-q', '--detach', WT, 'HEAD'], check=True)
subprocess.run(['git', '-C', WT, 'checkout', '--', '.'])
env = dict(os.environ, VERIF_REPO=WT)
seeds = sys.argv[1:] or sorted(d for d in os.listdir('seeded') if os.path.exists('seeded/%s/patch.diff' % d) and d not in m)
for sid in seeds:
    if subprocess.run(['git', '-C', WT, 'apply', os.path.abspath('seeded/%s/patch.diff' % sid)]).returncode != 0:
        print(sid, 'patch does not apply'); continue
    row = {}
    try:
        own = 'C' + sid[1:3]
        def run(p):
            r = subprocess.run('./check %s --tier quick' % p, shell=True, capture_output=True, text=True, env=env)
            first = [l for l in r.stdout.splitlines() if l.startswith(p + ' [')]
            row[p] = {'exit': r.returncode, 'first': first[0][:300] if first else ''}
        run(own)
        if row[own]['exit'] != 1:
            for p in props:
                if p != own: run(p)
    finally:
        subprocess.run(['git', '-C', WT, 'checkout', '--', '.'])
    m[sid] = row
    det = [p for p, v in row.items() if v['exit'] == 1]
    meta = json.load(open('seeded/%s/meta.json' % sid))
    meta['detected_by'] = {p: row[p]['first'] for p in det} or 'NOT DETECTED'
    meta['matrix_note'] = 'own check first; the other checks were only run when the own check was silent' if len(row) < len(props) else 'all checks'
    json.dump(meta, open('seeded/%s/meta.json' % sid, 'w'), indent=1)
    json.dump(m, open('seeded/MATRIX.json', 'w'), indent=1)
    print(sid, 'reported by', det, flush=True)
subprocess.run(['git', '-C', '/repo', 'worktree', 'remove', '--force', WT])
