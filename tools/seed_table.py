#!/usr/bin/env python3
"""prints the markdown table of DESIGN.md section 8 from seeded/*/meta.json and seeded/MATRIX.json"""
import json, os, re
os.chdir(os.path.dirname(os.path.dirname(os.path.abspath(__file__))))
m = json.load(open('seeded/MATRIX.json'))
print('| change | file | what it does (one line) | reported by |')
print('|---|---|---|---|')
for sid in sorted(d for d in os.listdir('seeded') if os.path.exists('seeded/%s/patch.diff' % d)):
    patch = open('seeded/%s/patch.diff' % sid).read()
    files = sorted(set(re.findall(r'^\+\+\+ b/include/tao/pegtl/(\S+)', patch, re.M)))
    notes = open('seeded/%s/notes.txt' % sid).read() if os.path.exists('seeded/%s/notes.txt' % sid) else ''
    first = ' '.join(notes.split())[:150].replace('|', '/')
    row = m.get(sid, {})
    det = [p for p, v in sorted(row.items()) if v['exit'] == 1]
    own = 'C' + sid[1:3]
    det = ([own] if own in det else []) + [p for p in det if p != own]
    print('| %s | `%s` | %s | %s |' % (sid, ', '.join(files), first, ', '.join(det) if det else ('not reported (see the text on the round)' if row else '(matrix pending)')))
