#!/usr/bin/env python3
"""Regression over the seeded changes: every change is applied to a scratch worktree and the check recorded in seeded/MATRIX.json as reporting it (the property's own
check when it does) must still exit 1.  Much cheaper than tools/selftest.py seeds, which runs every check for changes their own check is silent on.
Usage: tools/seed_regress.py [seed ids...]"""
import json, os, subprocess, sys
BASE = os.path.dirname(os.path.dirname(os.path.abspath(__file__)))
os.chdir(BASE)
m = json.load(open('seeded/MATRIX.json'))
NOT_REPORTED = {'c04_6', 'c04_9'}          # argued in DESIGN.md section 8 (fourth and eighth round)
WT = '/tmp/sr_wt'
if not os.path.isdir(WT): subprocess.run(['git', '-C', '/repo', 'worktree', 'add', '-q', '--detach', WT, 'HEAD'], check=True)
subprocess.run(['git', '-C', WT, 'checkout', '--', '.'])
env = dict(os.environ, VERIF_REPO=WT)
bad = 0
for sid in sys.argv[1:] or sorted(m):
    if sid in NOT_REPORTED: continue
    row = m[sid]; own = 'C' + sid[1:3]
    det = [p for p, v in row.items() if v['exit'] == 1]
    if not det:
        print(sid, 'NO REPORTING CHECK RECORDED'); bad += 1; continue
    p = own if own in det else sorted(det)[0]
    if subprocess.run(['git', '-C', WT, 'apply', os.path.abspath('seeded/%s/patch.diff' % sid)]).returncode != 0:
        print(sid, 'PATCH DOES NOT APPLY'); bad += 1; continue
    try:
        r = subprocess.run('./check %s --tier quick' % p, shell=True, capture_output=True, text=True, env=env)
    finally:
        subprocess.run(['git', '-C', WT, 'checkout', '--', '.'])
    ok = r.returncode == 1
    bad += not ok
    print('%-8s %s exit=%d %s' % (sid, p, r.returncode, 'ok' if ok else 'NO LONGER REPORTED'), flush=True)
subprocess.run(['git', '-C', '/repo', 'worktree', 'remove', '--force', WT])
print('seed_regress: %d problem(s)' % bad)
sys.exit(1 if bad else 0)
