#!/bin/sh
# usage: tools/run_all.sh [quick|thorough]   : runs every claimed check on the current tree (regenerates the evidence files)
cd /verif
tier="${1:-quick}"
for c in $(python3 -c "import json; print(' '.join(x['property_id'] for x in json.load(open('MANIFEST.json'))['checks']))"); do
  /usr/bin/time -f "%es" ./check "$c" --tier "$tier" 2>&1 | grep -v "^KNOWN-FINDING" | tail -2 | tr '\n' ' '; echo
done
