#!/bin/sh
# usage: tools/run_all.sh [quick|thorough]   : runs every claimed check on the current tree (regenerates the evidence files)
cd /verif
tier="${1:-quick}"
for c in $(python3 -c "import json; print(' '.join(x['property_id'] for x in json.load(open('MANIFEST.json'))['checks']))"); do
  ./check "$c" --tier "$tier" > /tmp/run_all.$$.out 2>&1; rc=$?
  echo "exit=$rc $(grep "^$c $tier:" /tmp/run_all.$$.out | tail -1) $(grep -c '^VIOLATION' /tmp/run_all.$$.out) violation line(s)"
  grep '^ANALYSIS-BROKEN' /tmp/run_all.$$.out | head -3
done
rm -f /tmp/run_all.$$.out
