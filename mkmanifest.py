#!/usr/bin/env python3
"""Regenerates MANIFEST.json from the table below (kept in one place so that claimed checks and
the not_applicable list can never overlap or leave a property out)."""
import json, os

HERE = os.path.dirname(os.path.abspath(__file__))

TRUSTED = ('Trusted base: clang 14 front end (template instantiation, constant folding), tools/cfgx extractor, '
           'the abstract executor sa/exec.py with its primitive transfer functions (bump*, std::min/max/move, memcmp/memcpy extents), '
           'the placeholder contract for sub-rules (assume/guarantee induction over grammar structure), stated bounds.')

CLAIMED = {
    'C02': dict(
        technique='path-sensitive cursor typestate analysis (abstract interpretation of the instantiated AST, rule-boundary oracles)',
        text='Every function with the rule-boundary signature under /repo/include is analysed once per (rewind mode, apply mode, arity) over all of its '
             'paths, exceptional ones included, with opaque contract-abiding sub-rules: obligations R1-R5 of DESIGN.md 4.1. This is a static argument by '
             'induction over grammar structure, so it covers all grammars and inputs rather than sampled ones; coverage of the match patterns present in the '
             'headers is enforced (missing pattern = analysis broken).',
        ref='4.1, 5/C02'),
}

CLAIMED['C08'] = dict(
    technique='exhaustive path enumeration of the dispatch function (abstract interpretation with RAII/exception semantics) + protocol automaton; wrapper forwarding check',
    text='Every instantiation shape of the central dispatch tao::pegtl::match<> (five action shapes x apply mode x rewind mode x control with/without unwind x '
         'enable on/off) is enumerated completely, exceptional exits included; the table of (hook sequence, exit, result, cursor) must satisfy H1-H7 of DESIGN.md 4.3. '
         'Every hook of every shipped control wrapper (remove_first_state, remove_last_states, shuffle_states, state_control) must forward exactly once with the documented '
         'state permutation. The shipped stateful controls keep their rule stack in step (coverage: count own and branch counters once each, branch under the parent, push after / pop before counting; trace: one push / one pop). '
         'When a hook itself throws (must_if raises from failure) no unwind follows for that attempt. state_control additionally tells its state of the end of an attempt before, and of the start after, the wrapped hook (which may throw outside the unwind guard). Opaque user rules with the simpler match signatures are part of the dispatch universe. '
         'The balance start = success + failure + unwind then follows for every rule and branch of every grammar and input. One recorded finding (D11).',
    ref='4.3, 5/C08')

CLAIMED['C13'] = dict(
    technique='path enumeration of the switching rules with frame comparison at every rule boundary (abstract interpretation; typestate of the state object)',
    text='FRAME + SCOPE (DESIGN.md 4.2): for state, change_state(s), change_action(_and_state(s)), change_control, add_state, instantiate, enable/disable(_action), '
         'action, control and normal::match every path of every instantiation is enumerated; each rule-boundary call must replace exactly the documented frame '
         'parameter; the new state is an automatic local, is what the sub-rule sees, and receives success exactly once iff the rule matched (and actions are enabled); a control switch enters the attached rule through the new control\'s match (decided where the new control declares one); rules attempt their sub-rules through Control< Rule >::match, never the free match<>() (that would skip an action class\' or control\'s own match), and hand them the control of the run (combinators instantiated under a second control). '
         'Holds for all grammars and inputs by induction over rule nesting, which the test-suite cannot enumerate.',
    ref='4.2, 5/C13')

CLAIMED['C04'] = dict(
    technique='path enumeration of dispatch, action hooks and action rules (abstract interpretation) + apply-mode forwarding check at every rule boundary',
    text='Claims the per-attempt action protocol, not the run-level trace statement: (a) dispatch H3/H7 on every shape (action only after the rule matched, only when enabled, once, '
         'before success/failure, begin = position saved at match start, veto => failure + restored cursor + false); (b) normal::apply/apply0 call Action<Rule>::apply/apply0 exactly '
         'once with action_input(begin,in) and the states unchanged; (c) action_input::begin/end are the stored iterator and the input cursor; (d) every rule body forwards its apply mode '
         'unchanged except at/not_at/disable (nothing) and enable (action); (e) apply/apply0/if_apply rules. These are necessary conditions decided for all grammars/inputs by induction; '
         'the whole-run sequence statement follows by composition with C01/C02 and is not separately explored.',
    ref='5/C04, 4.2, 4.3')

CLAIMED['C03'] = dict(
    technique='zone-domain (difference-bound) availability analysis over the instantiated AST, epoch-tagged pointers (abstract interpretation)',
    text='BOUNDS (DESIGN.md 4.4): on every path of every function that receives the parse input (all match(), Peek::peek(), Eol::eol_match() patterns; memory eager/lazy and '
         'buffer inputs; every end-of-line policy) each read of n bytes at current()+k and each advance by n must be dominated by an availability fact avail >= k+n obtained '
         'from empty()/size()/end() on the same path at the same cursor position. Because rules are checked against the abstract input interface, the result does not depend on '
         'NUL termination or on a larger underlying buffer - exactly the cases the test-suite (std::string data) cannot exercise. Pattern coverage is enforced.',
    ref='4.4, 5/C03')

CLAIMED['C07'] = dict(
    technique='availability dataflow (zone domain) + interface-subset check over resolved callees + symbolic window arithmetic of buffer_input (provenance-tagged)',
    text='Claims the structural necessary conditions, not the behavioural statement: (a) B1-B3 on every rule/peek/eol instantiation over memory and buffer inputs - every inspection is '
         'preceded by an adequate availability request, which is what lets buffer_input::require() see every byte a memory input exposes; (b) rule code only calls input members that '
         'both families provide (resolved callees; documented memory-only places listed with reasons); (c) buffer_input::require/discard/size/empty/end/bump*: the reader gets the current '
         'm_end and a length bounded by the current free space, require() only exits with enough data / end of input / overflow_error, discard() preserves window and counters; (d) the '
         'derived input classes add constructors only; (e) the stdio reader and the mmap holder yield an empty input for a zero-length file, evaluated under the ISO C / POSIX contracts of fread and mmap; require() is also enumerated on every concrete window of 1..4 bytes (overflow exactly when the request does not fit, the reader never asked for 0 bytes); (f) every single-unit, string, end-of-line and counted rule and the raw-string scanners give the same partition of inputs whether size( a ) answers min( remaining, a ) or everything there is (least vs most buffering). '
         'Breaking any of these breaks input-class independence for some reader schedule or file the tests never produce. OS/stream behaviour beyond those two contracts is out of reach of this technique.',
    ref='5/C07, 4.4')

CLAIMED['C09'] = dict(
    category='model_checking',
    technique='product of implementation machine (linked abstract execution) and specification machine (PEG formalism on the documented expansion) under a shared answer oracle',
    text='EQUIV (DESIGN.md 4.6): every combinator the reference documents as equivalent to a combination (if_must, if_must_else, if_then_else, list*, list_must, list_tail, minus, must, '
         'opt_must, pad, pad_opt, partial, rep, rep_max, rep_min, rep_min_max, rep_opt, star_must, strict, star_strict, star_partial, until, separated_seq, if_then, rematch) is '
         'instantiated over opaque sub-rules (arities 1-3, bounds 0..4, both rewind modes) and compared with the documented expansion for every answer history up to the question '
         'bound: same result, same consumed prefix, same raised rule. Sub-rules that consume before failing, nullable and raising sub-rules are all produced by the oracle - the '
         'cases the unit tests never build. The doc clauses are re-checked against doc/Rule-Reference.md each run. '
         'Byte-level rules of the property (eolf, keyword, identifier, shebang, string, two, three, forty_two, ranges, everything, rep_string, rep_one_min_max): the hand-written matchers are compared exactly, '
         'over all inputs of a 9-byte window and the five end-of-line policies, with the formal meaning of their rule type (exact set evaluation); the type graph of each convenience rule is compared with the type graph of its documented expansion (normal form or automata).',
    ref='4.6, 5/C09')
CLAIMED['C01'] = dict(
    category='model_checking',
    technique='EQUIV against the PEG formalism + cursor typestate (REWIND) + frame forwarding (FRAME) + dispatch protocol (HOOKS), by induction over grammar structure',
    text='The seven classical operators are compared with the PEG formalism under an answer oracle (arities 1-3, both rewind modes: result, consumed prefix, apply mode of every '
         'successful sub-match); their bodies and the atoms satisfy the rewind contract; A/Action/Control/states are forwarded unchanged (at/not_at force nothing); the dispatch returns '
         'the rule result, void actions cannot change it and the top-level rewind mode only decides who rewinds. Each rule body is verified once against contract-abiding sub-rules, so the '
         'statement holds for all grammars (including recursive ones) and all inputs as partial correctness.',
    ref='5/C01')

CLAIMED['C11'] = dict(
    technique='abstract execution of rule bodies over consuming/nullable placeholders vs the abstract grammar read off analyze_insert<> instantiations; truth-table extraction of work(); bounded-exhaustive check of the traversal',
    text='Soundness direction only (false positives of analyze() are not required to be absent). (A) For ~400 instantiations of every rule template over consuming/nullable placeholders '
         'the body is executed abstractly (nullability, left-callable sub-rules, loops that can iterate without progress) and compared with the abstract grammar (Name, type_v, subs) that the '
         'front end instantiates for analyze<R>; traits that inline a sub-rule are checked through self-recursive witness types. (B) work()/problems() are reduced to a truth table that must '
         'equal the reference DFS, and the reference DFS must report every left-call cycle on all abstract grammars up to the size bound. This covers the quadratic rule x position family of '
         'ill-formed grammars the tests only sample.',
    ref='4.5, 5/C11')

CLAIMED['C05'] = dict(
    technique='path enumeration with raise events, AST shape checks, who-may-catch inventory over every header, noexcept consistency, compile-time witnesses for demangle',
    text='Claims the structural clauses (who raises what, where; who may catch), not the numerical consistency of positions (C06): must<R> raises exactly the failed R through Control<R>::raise '
         'with the cursor untouched; raise<T>; the must family by EQUIV (identity of the raised rule for every answer history); normal::raise/raise_nested build parse_error(message, position '
         'argument) with the custom or default message and raise_nested really nests; what() = position + ": " + message; the only try/catch sites in all 194 headers are the try_catch '
         'rules, control_action and parse_nested, so every other combinator propagates exceptions unchanged; each try_catch rule catches exactly the type it names; noexcept code never raises; '
         'the default message names the complete rule type: demangle< T >() on witness types whose names contain the characters its implementations search for, as static_assert witnesses type-checked by g++ (the compiler of the build) and clang; '
         'no library function keeps mutable static or thread_local local state (so what() is a function of the arguments of this error, not of earlier ones); message() and position_string() take what() apart by stored lengths, never by searching for a separator.',
    ref='5/C05')

CLAIMED['C20'] = dict(
    category='proof',
    technique='language equivalence of alternating finite automata (PEG semantics of the type graph vs RFC ABNF), exact right-to-left determinisation',
    text='The type graph of the five top-level URI rules (read from the front end, not from text) is given PEG semantics (ordered choice, possessive repetition, predicates, must = abort) '
         'and compared with RFC 3986 Appendix A over ALL byte strings: the grammar is regular, so the exploration of the joint automaton is exhaustive and exact; a difference yields a shortest '
         'witness string. This is the statement for every input, which sampled/mutated strings cannot give. The only throw sites reachable are normal<R>::raise (parse_error).',
    ref='3.5, 5/C20',
    note='Trusted base: clang 14 front end (type graph), the formal meaning of the internal rule templates in sa/typegraph.py (established separately by C01/C09/C10; maximum_rule enters by specification), '
         'the AFA construction/determinisation in sa/lang.py, the transcription of RFC 3986 Appendix A in sa/spec/rfc3986.py, numpy.')
CLAIMED['C14'] = dict(
    technique='language equivalence of alternating finite automata (PEG semantics of the type graph vs RFC 8259 + RFC 3629), unfolded to a nesting depth',
    text='json::text + eof is compared with RFC 8259 (with well-formed UTF-8 per RFC 3629) over all byte strings of array/object nesting depth <= D (quick D=1, thorough D=2): exhaustive exploration of '
         'the joint automaton, shortest witness on difference. Never-throws: no must/raise/try_catch rule type in the grammar, no throw in the atoms it uses. Depth > D is not decided.',
    ref='3.5, 5/C14')

CLAIMED['C15'] = dict(
    technique='automata equivalence of rule types (free continuation) + bounded abstract execution of scanners over byte classes + interval analysis per (type, maximum) + piecewise-affine modular evaluation',
    text='Syntax: the numeral rule types are compared with the documented syntax as prefix matchers over all inputs; the hand-written scanners are explored on every byte-class string up to the '
         'length bound (never read past the end, never consume on failure, only digits reach accumulate_digit, overflow reported as documented). Conversion: for every instantiated (type, maximum) '
         'pair accumulate_digit is proved by interval analysis to store old*10+digit without wrap and to fail exactly when the value exceeds the maximum; the wrappers only combine these; '
         'convert_negative yields -magnitude exactly and without undefined behaviour (defect D14 found by this check and fixed); is_digit is exact over all 256 char values; a bounded rule calls the matcher instantiated for its own type and maximum in both apply modes.',
    ref='5/C15, 4.8')

CLAIMED['C18'] = dict(
    technique='path enumeration with RAII/exception semantics, symbolic counter and window (zone constraints, memoised arithmetic provenance)',
    text='limit_depth: on every path of every instantiation (both apply modes - actions disabled sections included - and both rewind modes) the depth counter is incremented before the guarded match '
         'and restored on success, local failure and exception by the guard destructor; the error is raised iff the depth after the increment exceeds Maximum (exactly Maximum levels). limit_bytes: '
         'the temporary end is current() + min(size(), Maximum) - counted from where the match starts, wherever that is - the guarded rule sees it, and the saved end is restored on every completion; '
         'neither guard can be copied or moved; the depth counter lives in unsigned objects as wide as the limit (the enumeration treats it as unbounded). Inspection beyond the window is excluded by C03.',
    ref='5/C18')

CLAIMED['C12'] = dict(
    technique='abstract stack execution of the builder hooks + soundness of handler selection read from instantiated types on witness grammars + evaluation of parse() and of the transformers over their cases',
    text='Claims builder discipline and selection, not the whole-run statement: every instantiated handler hook pushes/pops exactly one frame, attaches only in success after the pop by appending to the '
         'frame below (any other mutation of a frame\'s children is reported), and stamps the span with the input positions; for witness grammars (unselected chains of depth 1..12 above a selected rule - beyond the leaf-optimisation depth of 8 -, recursion, '
         'store_all with internal sequences) the handler chosen for each rule is selected iff control is enabled and the selector selects it, and the frame-less leaf optimisation is only used when no '
         'selected rule is reachable below; parse() returns the root iff the plain parse succeeded; transformers as documented; has_content() is true for every matched node (empty matches included) and false exactly after remove_content(); every rule that the match() of a rule attempts is found from it through subs_t (what selection and the leaf optimisation read; one frozen exception, raw_string); the hooks forwarded to the wrapped control are balanced per handler (unwind included when the control has it); the function Control< Rule >::match resolves to for a handler '
         'enters every attempt through the handler\'s start (enumerated like the central dispatch). Together with C08 this excludes leftover nodes of backtracked or aborted branches.',
    ref='5/C12')

CLAIMED['C10'] = dict(
    technique='abstract interpretation of the instantiated decoder/predicate bodies over exact sets (separable sums of per-byte tables; decision diagrams over availability and 8 bytes), compared with reference partitions from the Unicode tables',
    text='For every Peek class (char, utf8, utf16 be/le, utf32 be/le, uint8/16/32/64 be/le and their mask variants) the partition of ALL inputs (availability 0..8+, every byte value) derived from the body '
         'equals the reference (Unicode tables 3-5/3-6/3-7; byte order; mask): reported size, decoded value, and no unit read without being known available (so every truncation is "no match"). '
         'test_one of all ASCII/ABNF classes and of one/not_one/range/not_range/ranges instantiations equals the documented 256-entry tables; ichar_equal<C> for all 256 C folds exactly the ASCII letters; '
         'match() of one/range/ranges/any over every Peek consumes exactly the reported size iff the value is in the set. 64-bit rules are covered for all values, not samples. '
         'Not covered: ICU rules; big-endian hosts (the other preprocessor branch of endian_gcc.hpp).',
    ref='5/C10')

CLAIMED['C17'] = dict(
    technique='abstract interpretation of the instantiated helper bodies over exact sets (separable sums of per-byte tables, decision diagrams), compared with the Unicode encoding table and the surrogate pair formula',
    text='utf8_append_utf32 over all 2^32 arguments: exactly the well-formed encoding is appended for every scalar value, nothing is appended and false returned for surrogates and values above 0x10FFFF. '
         'unhex_char over all 256 characters, unhex_string for every digit count up to the width of the result type (under its documented precondition). unescape_j per loop iteration over all '
         '(escape, next escape present?, next escape): pairs combined by the UTF-16 formula and both consumed, other escapes encoded individually, exactly the lone surrogates rejected, next escape only read when present, stride 6. '
         'unescape_c positional mapping, unescape_u/x digit range and result width.',
    ref='5/C17')

CLAIMED['C16'] = dict(
    technique='abstract execution of raw_string::match (helper rules and the input\'s end-of-line rule inlined) on all strings over byte classes up to a length bound, against a reference long-bracket scanner; content span from traced rule entry and closing bump',
    text='For the five end-of-line policies, default and custom bracket characters, with and without content sub-rules: result, consumed length, local failure without consumption, and the span on which the content rule '
         '(hence its action, by C04) runs - the text between the brackets without one line ending of the input\'s policy after the opening bracket. Bytes are partitioned into Open/Marker/Close/line-ending bytes/other after verifying that '
         'the code only tests bytes for equality with these, so each class string stands for all concrete strings of that shape. Bounded: plain variant to length 6 (quick) / 8 (thorough), other variants 4 / 6; '
         'the counting language itself is not decided for unbounded length.',
    ref='5/C16')

CLAIMED['C06'] = dict(
    technique='who-may-write inventory of the cursor + exact set evaluation of the bump primitives + justification of every position-shortcut call site by path-sensitive byte facts (exact for atoms/strings/eol rules over five policies, class strings for scanners) + forwarding/lazy-recomputation structure',
    text='Decides the structural decomposition of the statement, not a simulation of parsing runs: (1) only the bump primitives, constructors, restart/discard and restores of a cursor saved by rewind_save() write a cursor, and no library rule calls the counter-resetting restart; (2) internal::bump is the per-byte definition, '
         'bump_in_this_line / bump_to_next_line are what their names say; (3) every call of a shortcut in the headers (closed table of call sites, all covered) happens only on paths where the skipped bytes are known not to be / to end with the '
         'line-ending character of the input; (4) by evaluation with symbolic counters: after in.bump*( n ) the cursor is what the primitive of that name gives with Eol::ch, lazy position( it ) is the definition applied to the begin iterator, byte() includes the initial byte; sub-inputs inherit the position; every constructor of the inputs and of the iterator (delegation followed) and restart( byte, line, column ) store the counters they are given; buffer_input::discard writes the data pointer only; combinators that advance the cursor themselves are covered by (3) with their sub-rules as oracles. '
         'From these, eager == lazy == the documented function of the consumed prefix follows for all byte-oriented and UTF-8 rules. Known finding D08 (cr_crlf) is reported by (3).',
    ref='5/C06')

CLAIMED['C19'] = dict(
    technique='abstract interpretation of at / begin_of_line / end_of_line / line_at over exact sets (availability, byte values, symbolic initial counters) against an independent line splitter; until/at interpreted by their documented meaning, eolf and the end-of-line rules by their code',
    text='For both tracking modes and the five end-of-line policies: at( p ) = begin + offset, begin_of_line( p ) = start of the line, end_of_line( p ) = first line ending of the policy at or after the position or the end, line_at( p ) = exactly that range, '
         'no byte beyond the end read, the second input spans [ at( p ), end ). Positions are those the input reports (C06). Exact for offsets 0..3, line starts 0..offset and data windows of 9 bytes (all byte values); the pointer arithmetic of at and begin_of_line is '
         'additionally evaluated with symbolic non-default initial byte and column, which yields known finding D07 (pointers outside the data).',
    ref='5/C19')

NOT_YET = 'check not built yet in this round (see DESIGN.md section 10 for the order of construction); no claim is made'

NA_REASONS = {}


def main():
    props = [json.loads(l) for l in open(os.path.join(HERE, 'properties.jsonl'))]
    checks = []; na = []
    for p in props:
        pid = p['id']
        c = CLAIMED.get(pid)
        if c is None:
            na.append({'property_id': pid, 'reason': NA_REASONS.get(pid, NOT_YET)})
            continue
        checks.append({
            'property_id': pid,
            'quick_cmd': './check %s --tier quick' % pid,
            'thorough_cmd': './check %s --tier thorough' % pid,
            'evidence_file': 'evidence/%s.json' % pid,
            'replay_cmd_template': './check %s --replay {path}' % pid,
            'engine': 'sa',
            'level_claimed': {'category': c.get('category', 'other'), 'text': c['text'], 'design_ref': 'DESIGN.md ' + c['ref']},
            'level_note': c.get('note', TRUSTED),
            'technique': c['technique'],
        })
    m = {
        'version': 1,
        'setup_cmd': './setup.sh',
        'hooks': {
            'guard': 'TAO_PEGTL_VERIF',
            'enable': 'none needed: nothing in /repo is instrumented, compiled to object code or executed by a check; the extractor parses /repo/include as it is',
            'baseline_off_cmd': 'cmake -G Ninja -S /repo -B /repo/_build >/dev/null && cmake --build /repo/_build -j16 >/dev/null && ctest --test-dir /repo/_build -j8 --timeout 900',
            'source_commits': [],
            'add_only': True,
        },
        'engines': [
            {'name': 'cfgx', 'path': 'tools/cfgx/cfgx.cc', 'serves_properties': sorted(CLAIMED), 'kind_free_text': 'libTooling extractor: instantiated function bodies as structured ASTs with folded constants, inventories'},
            {'name': 'sa', 'path': 'sa/', 'serves_properties': sorted(CLAIMED), 'kind_free_text': 'abstract executor + monitors (typestate / dataflow domains), automata engine, per-property checks'},
        ],
        'checks': checks,
        'not_applicable': na,
        'notes': 'Static analysis only. Exit 2 = analysis broken (never a pass, never a violation). known_findings.json lists recorded defects and fixed: entries.',
    }
    with open(os.path.join(HERE, 'MANIFEST.json'), 'w') as fh:
        json.dump(m, fh, indent=1)
    print('MANIFEST.json: %d checks, %d not_applicable' % (len(checks), len(na)))


if __name__ == '__main__':
    main()
